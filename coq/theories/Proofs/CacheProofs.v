(* Proofs about Model/Cache.v: effect of each operation on lookups, the
   well-formedness invariant, and the refinement of the history specification
   of Spec/CacheSpec.v (C12).  C13-specific results are in CacheLru.v. *)
From VF Require Import Base.Prelude Model.Cache Spec.CacheSpec.
From Coq Require Import ZifyBool ZifyNat ZifyN Permutation.
Open Scope Z_scope.

(* ------------------------------------------------------------ characterisations *)

Lemma remove_items k c : items (remove k c) = remove_assoc k (items c).
Proof. reflexivity. Qed.
Lemma remove_order k c : order (remove k c) = remove_key k (order c).
Proof. reflexivity. Qed.
Lemma remove_cap k c : cap (remove k c) = cap c.
Proof. reflexivity. Qed.

Lemma lookup_remove k k' c :
  lookup k' (items (remove k c)) = if N.eqb k' k then None else lookup k' (items c).
Proof. apply lookup_remove_assoc. Qed.

(* evict removes at most one key *)
Lemma evict_cases now c :
  evict now c = c \/ exists k, In k (order c) /\ evict now c = remove k c.
Proof.
  unfold evict. destruct (find _ _) as [k|] eqn:F.
  - right. exists k. split; [|reflexivity]. apply find_some in F. tauto.
  - destruct (order c) as [|k r] eqn:O; [left; reflexivity|].
    right. exists k. split; [left; reflexivity|reflexivity].
Qed.

Lemma evict_cap now c : cap (evict now c) = cap c.
Proof. destruct (evict_cases now c) as [->|[k [_ ->]]]; reflexivity. Qed.

Lemma lookup_evict_sub now c k e :
  lookup k (items (evict now c)) = Some e -> lookup k (items c) = Some e.
Proof.
  destruct (evict_cases now c) as [->|[k0 [_ ->]]]; [tauto|].
  rewrite lookup_remove. destruct (N.eqb k k0); [discriminate|tauto].
Qed.

Lemma fold_remove_cap ks c : cap (fold_left (fun c k => remove k c) ks c) = cap c.
Proof. revert c; induction ks as [|k ks IH]; intros c; cbn; [reflexivity|]. rewrite IH. reflexivity. Qed.

Lemma lookup_fold_remove ks c k :
  lookup k (items (fold_left (fun c k => remove k c) ks c)) =
  if memk k ks then None else lookup k (items c).
Proof.
  revert c; induction ks as [|a ks IH]; intros c; cbn; [reflexivity|].
  rewrite IH, lookup_remove. destruct (N.eqb k a), (memk k ks); reflexivity.
Qed.

Lemma order_fold_remove ks c k :
  In k (order (fold_left (fun c k => remove k c) ks c)) <-> In k (order c) /\ ~ In k ks.
Proof.
  revert c; induction ks as [|a ks IH]; intros c; cbn; [tauto|].
  rewrite IH, remove_order, remove_key_In. split; [intros [[H1 H2] H3]|intros [H1 H2]].
  - split; [exact H1|]. intros [E|H]; [congruence|tauto].
  - split; [split; [exact H1|]|]; intros H; apply H2; [left; congruence|right; exact H].
Qed.

(* the "within 10% of expiry" disjunct of Cleanup never fires on its own *)
Lemma cleanup_cond_expired now e : cleanup_cond now e = expired now e.
Proof.
  unfold cleanup_cond, expired. destruct (Z.ltb_spec (e_exp e) now) as [H|H]; [reflexivity|].
  cbn. apply Z.ltb_ge.
  assert (Q : Z.quot (e_exp e - now) 10 <= e_exp e - now).
  { apply Z.quot_le_upper_bound; lia. }
  lia.
Qed.

Lemma cleanup_keys_In now it k :
  NoDup (keys it) ->
  (In k (cleanup_keys now it) <-> exists e, lookup k it = Some e /\ expired now e = true).
Proof.
  unfold cleanup_keys. induction it as [|[a w] it IH]; cbn; intros ND.
  - split; [tauto|]. intros [e [H _]]; discriminate.
  - inversion ND as [|x l Hn Hd]; subst. rewrite cleanup_cond_expired.
    destruct (N.eqb_spec k a) as [->|Hne].
    + destruct (expired now w) eqn:E; cbn.
      * split; [intros _; exists w; tauto|tauto].
      * rewrite IH by exact Hd. split.
        -- intros [e [He _]]. apply lookup_In_keys in He. tauto.
        -- intros [e [He Hx]]. congruence.
    + destruct (expired now w) eqn:E; cbn; rewrite IH by exact Hd; [|tauto].
      split; [intros [H|H]; [congruence|exact H]|]. intros H; right; exact H.
Qed.

Lemma lookup_cleanup now c k :
  NoDup (keys (items c)) ->
  lookup k (items (cleanup now c)) =
  match lookup k (items c) with
  | Some e => if expired now e then None else Some e
  | None => None
  end.
Proof.
  intros ND. unfold cleanup. rewrite lookup_fold_remove.
  destruct (memk k (cleanup_keys now (items c))) eqn:M.
  - apply memk_In in M. apply cleanup_keys_In in M; [|exact ND].
    destruct M as [e [-> ->]]. reflexivity.
  - destruct (lookup k (items c)) as [e|] eqn:L; [|reflexivity].
    destruct (expired now e) eqn:X; [|reflexivity].
    apply memk_false in M. exfalso. apply M. apply cleanup_keys_In; [exact ND|]. eauto.
Qed.

(* ------------------------------------------------------------ well-formedness *)

Record wf (c : cache) : Prop := {
  wf_items : NoDup (keys (items c));
  wf_order : NoDup (order c);
  wf_same : forall k, In k (order c) <-> In k (keys (items c));
}.

Lemma wf_empty n : wf (empty n).
Proof. split; cbn; [constructor|constructor|tauto]. Qed.

Lemma wf_length c : wf c -> length (order c) = length (items c).
Proof.
  intros [H1 H2 H3]. rewrite <- (keys_length (items c)).
  apply Nat.le_antisymm; apply NoDup_incl_length; try assumption; intros k Hk; apply H3, Hk.
Qed.

Lemma wf_remove k c : wf c -> wf (remove k c).
Proof.
  intros [H1 H2 H3]. split; cbn.
  - rewrite keys_remove_assoc. apply remove_key_NoDup, H1.
  - apply remove_key_NoDup, H2.
  - intros k'. rewrite keys_remove_assoc, !remove_key_In, H3. tauto.
Qed.

Lemma wf_evict now c : wf c -> wf (evict now c).
Proof. intros H. destruct (evict_cases now c) as [->|[k [_ ->]]]; [exact H|apply wf_remove, H]. Qed.

Lemma wf_fold_remove ks c : wf c -> wf (fold_left (fun c k => remove k c) ks c).
Proof. revert c; induction ks as [|k ks IH]; intros c H; cbn; [exact H|]. apply IH, wf_remove, H. Qed.

Lemma wf_cleanup now c : wf c -> wf (cleanup now c).
Proof. apply wf_fold_remove. Qed.

Lemma touch_In k o k' : In k' (touch k o) <-> In k' o.
Proof.
  unfold touch. destruct (memk k o) eqn:M; [|tauto]. apply memk_In in M.
  rewrite in_app_iff, remove_key_In. cbn. split.
  - intros [[H _]|[<-|[]]]; assumption.
  - intros H. destruct (N.eq_dec k' k) as [->|Hne]; [right; left; reflexivity|left; tauto].
Qed.

Lemma NoDup_snoc (k : key) l : NoDup l -> ~ In k l -> NoDup (l ++ [k]).
Proof.
  intros H Hn.
  apply (Permutation_NoDup (Permutation_cons_append l k)).
  constructor; assumption.
Qed.

Lemma touch_NoDup k o : NoDup o -> NoDup (touch k o).
Proof.
  intros H. unfold touch. destruct (memk k o); [|exact H].
  apply NoDup_snoc; [apply remove_key_NoDup, H|rewrite remove_key_In; tauto].
Qed.

Lemma wf_set now k v ttl c : wf c -> wf (set now k v ttl c).
Proof.
  intros W. unfold set. destruct (lookup k (items c)) as [e0|] eqn:L.
  - destruct W as [H1 H2 H3]. split; cbn.
    + rewrite keys_update. exact H1.
    + apply touch_NoDup, H2.
    + intros k'. rewrite touch_In, keys_update. apply H3.
  - set (c' := if Nat.leb (cap c) (length (items c)) then evict now c else c).
    assert (W' : wf c') by (subst c'; destruct (Nat.leb _ _); [apply wf_evict, W|exact W]).
    assert (Lc' : lookup k (items c') = None).
    { subst c'. destruct (Nat.leb _ _); [|exact L].
      destruct (lookup k (items (evict now c))) eqn:E; [|reflexivity].
      apply lookup_evict_sub in E. congruence. }
    apply lookup_None_keys in Lc'. destruct W' as [H1 H2 H3]. split; cbn.
    + rewrite keys_app, keys_single. apply NoDup_snoc; assumption.
    + apply NoDup_snoc; [exact H2|]. rewrite H3. exact Lc'.
    + intros k'. rewrite keys_app, keys_single, !in_app_iff, H3. cbn. tauto.
Qed.

Lemma wf_get now k c : wf c -> wf (fst (get now k c)).
Proof.
  intros W. unfold get. destruct (lookup k (items c)) as [e|]; [|exact W].
  destruct (expired now e); cbn; [apply wf_remove, W|].
  destruct W as [H1 H2 H3]. split; cbn; [exact H1|apply touch_NoDup, H2|].
  intros k'. rewrite touch_In. apply H3.
Qed.

Lemma wf_step c ev : wf c -> wf (fst (step c ev)).
Proof.
  intros W. destruct ev as [now [k v ttl|k|k|]]; cbn.
  - apply wf_set, W.
  - apply wf_get, W.
  - apply wf_remove, W.
  - apply wf_cleanup, W.
Qed.

(* ------------------------------------------------------------ soundness (C12) *)

(* everything the cache holds is what the history says is the latest write *)
Definition agrees (c : cache) (rh : list (time * op)) : Prop :=
  forall k e, lookup k (items c) = Some e -> latest_rev rh k = Some (e_val e, e_exp e).

Lemma agrees_empty n : agrees (empty n) [].
Proof. intros k e H; discriminate. Qed.

Lemma agrees_step c rh ev :
  wf c -> agrees c rh -> agrees (fst (step c ev)) (ev :: rh).
Proof.
  intros W A. destruct ev as [now [k v ttl|k|k|]]; cbn [step fst]; intros k' e'.
  - (* set *)
    unfold set. cbn [latest_rev]. destruct (lookup k (items c)) as [e0|] eqn:L; cbn [items].
    + rewrite lookup_update, L. destruct (N.eqb_spec k' k) as [->|Hne].
      * intros H; inversion H; subst; reflexivity.
      * apply A.
    + set (c' := if Nat.leb (cap c) (length (items c)) then evict now c else c).
      rewrite lookup_app_new. destruct (lookup k' (items c')) as [x|] eqn:L'.
      * intros H; inversion H; subst x.
        assert (Lc : lookup k' (items c) = Some e').
        { subst c'. destruct (Nat.leb _ _); [apply lookup_evict_sub in L'|]; exact L'. }
        destruct (N.eqb_spec k' k) as [->|Hne]; [congruence|]. apply A, Lc.
      * destruct (N.eqb_spec k' k) as [->|Hne]; [|discriminate].
        intros H; inversion H; subst; reflexivity.
  - (* get *)
    cbn [latest_rev]. unfold get. destruct (lookup k (items c)) as [e|] eqn:L; [|apply A].
    destruct (expired now e); cbn [fst items].
    + rewrite lookup_remove. destruct (N.eqb k' k); [discriminate|apply A].
    + apply A.
  - (* delete *)
    cbn [latest_rev]. unfold delete. rewrite lookup_remove.
    destruct (N.eqb k' k); [discriminate|apply A].
  - (* cleanup *)
    cbn [latest_rev]. rewrite lookup_cleanup by apply W.
    destruct (lookup k' (items c)) as [e|] eqn:L; [|discriminate].
    destruct (expired now e); [discriminate|]. intros H; inversion H; subst. apply A, L.
Qed.

Lemma get_output now k c v :
  snd (get now k c) = Some v ->
  exists e, lookup k (items c) = Some e /\ e_val e = v /\ now <= e_exp e.
Proof.
  unfold get. destruct (lookup k (items c)) as [e|]; [|discriminate].
  unfold expired. destruct (Z.ltb_spec (e_exp e) now) as [Hx|Hx]; cbn; [discriminate|].
  intros H0; inversion H0; subst. eauto.
Qed.

(* ------------------------------------------------------------ completeness (C12) *)

(* every latest write that is still live at `tnow` is held, and the cache
   holds no key that was never stored *)
Record holds_live (c : cache) (rh : list (time * op)) (tnow : time) : Prop := {
  hl_live : forall k v e, latest_rev rh k = Some (v, e) -> tnow <= e ->
                          lookup k (items c) = Some (mkEntry v e);
  hl_keys : forall k, In k (keys (items c)) -> In k (stored_keys rh);
}.

Lemma stored_keys_cons_incl ev rh k : In k (stored_keys rh) -> In k (stored_keys (ev :: rh)).
Proof.
  unfold stored_keys. rewrite !nodup_In. cbn. rewrite in_app_iff. tauto.
Qed.

Lemma stored_keys_set t k v ttl rh : In k (stored_keys ((t, OSet k v ttl) :: rh)).
Proof. unfold stored_keys. rewrite nodup_In. cbn. tauto. Qed.

Lemma stored_keys_length_mono ev rh :
  (length (stored_keys rh) <= length (stored_keys (ev :: rh)))%nat.
Proof.
  apply NoDup_incl_length; [apply NoDup_nodup|].
  intros k. apply stored_keys_cons_incl.
Qed.

Lemma holds_live_step c rh t0 now o :
  wf c -> t0 <= now ->
  (length (stored_keys ((now, o) :: rh)) <= cap c)%nat ->
  holds_live c rh t0 -> holds_live (fst (step c (now, o))) ((now, o) :: rh) now.
Proof.
  intros W Ht Hcap [HL HK]. destruct o as [k v ttl|k|k|]; cbn [step fst].
  - (* set *)
    unfold set. destruct (lookup k (items c)) as [e0|] eqn:L; cbn [items].
    + split; cbn [items latest_rev].
      * intros k' v' e'. rewrite lookup_update, L.
        destruct (N.eqb_spec k' k) as [->|Hne].
        -- intros H _; inversion H; reflexivity.
        -- intros H Hle. apply HL; [exact H|lia].
      * intros k'. rewrite keys_update. intros H. apply stored_keys_cons_incl, HK, H.
    + (* a new key: the cache is not full, so nothing is evicted *)
      assert (Hlen : (length (items c) < cap c)%nat).
      { assert (ND : NoDup (k :: keys (items c))).
        { constructor; [apply lookup_None_keys, L|apply W]. }
        assert (I : incl (k :: keys (items c)) (stored_keys ((now, OSet k v ttl) :: rh))).
        { intros x [<-|Hx]; [apply stored_keys_set|apply stored_keys_cons_incl, HK, Hx]. }
        pose proof (NoDup_incl_length ND I) as Q. cbn [length] in Q. rewrite keys_length in Q. lia. }
      replace (Nat.leb (cap c) (length (items c))) with false
        by (symmetry; apply Nat.leb_gt; exact Hlen).
      split; cbn [items latest_rev].
      * intros k' v' e'. rewrite lookup_app_new.
        destruct (N.eqb_spec k' k) as [->|Hne].
        -- rewrite L. intros H _; inversion H; reflexivity.
        -- intros H Hle. rewrite (HL k' v' e' H) by lia. reflexivity.
      * intros k'. rewrite keys_app, keys_single, in_app_iff. cbn. intros [H|[<-|[]]].
        -- apply stored_keys_cons_incl, HK, H.
        -- apply stored_keys_set.
  - (* get *)
    assert (Hcap' : forall k', In k' (keys (items c)) -> In k' (stored_keys ((now, OGet k) :: rh))).
    { intros k' H. apply stored_keys_cons_incl, HK, H. }
    unfold get. destruct (lookup k (items c)) as [e|] eqn:L.
    + unfold expired. destruct (Z.ltb_spec (e_exp e) now) as [Hexp|Hlive]; cbn [fst].
      * split; cbn [items latest_rev].
        -- intros k' v' e' H Hle. rewrite lookup_remove.
           destruct (N.eqb_spec k' k) as [->|Hne]; [|apply HL; [exact H|lia]].
           rewrite (HL k v' e' H) in L by lia. inversion L; subst e. cbn in Hexp. lia.
        -- intros k'. rewrite remove_items, keys_remove_assoc, remove_key_In. intros [H _].
           apply Hcap', H.
      * split; cbn [items latest_rev]; [|exact Hcap'].
        intros k' v' e' H Hle. apply HL; [exact H|lia].
    + split; cbn [fst latest_rev]; [|exact Hcap'].
      intros k' v' e' H Hle. apply HL; [exact H|lia].
  - (* delete *)
    split; cbn [latest_rev].
    + intros k' v' e'. unfold delete. rewrite lookup_remove.
      destruct (N.eqb k' k); [discriminate|]. intros H Hle. apply HL; [exact H|lia].
    + intros k'. unfold delete. rewrite remove_items, keys_remove_assoc, remove_key_In.
      intros [H _]. apply stored_keys_cons_incl, HK, H.
  - (* cleanup *)
    split; cbn [latest_rev].
    + intros k' v' e' H Hle. rewrite lookup_cleanup by apply W.
      rewrite (HL k' v' e' H) by lia. unfold expired. cbn.
      destruct (Z.ltb_spec e' now); [lia|reflexivity].
    + intros k' H. apply stored_keys_cons_incl, HK.
      destruct (lookup k' (items (cleanup now c))) as [e|] eqn:L.
      * rewrite lookup_cleanup in L by apply W.
        destruct (lookup k' (items c)) eqn:L2; [|discriminate]. eapply lookup_In_keys, L2.
      * apply lookup_None_keys in L. tauto.
Qed.

Lemma cap_step c ev : cap (fst (step c ev)) = cap c.
Proof.
  destruct ev as [now [k v ttl|k|k|]]; cbn.
  - unfold set. destruct (lookup k (items c)); [reflexivity|].
    destruct (Nat.leb _ _); cbn; [apply evict_cap|reflexivity].
  - unfold get. destruct (lookup k (items c)) as [e|]; [|reflexivity].
    destruct (expired now e); reflexivity.
  - reflexivity.
  - apply fold_remove_cap.
Qed.

(* ------------------------------------------------------------ the history theorem *)

Lemma non_get_output c now o :
  (match o with OGet _ => False | _ => True end) -> snd (step c (now, o)) = None.
Proof. destruct o; cbn; tauto. Qed.

Lemma check_from_run c rh h t0 :
  wf c -> agrees c rh ->
  ((length (stored_keys rh) <= cap c)%nat -> holds_live c rh t0) ->
  times_from false t0 h = true ->
  check_from (cap c) rh h (snd (run c h)) = true.
Proof.
  revert c rh t0. induction h as [|[now o] h IH]; intros c rh t0 W A HL HT; [reflexivity|].
  cbn [run]. destruct (step c (now, o)) as [c1 out] eqn:S.
  destruct (run c1 h) as [c2 outs] eqn:R. cbn [snd check_from].
  cbn [times_from] in HT. apply andb_prop in HT. destruct HT as [Hle HT]. apply Z.leb_le in Hle.
  assert (Ec1 : c1 = fst (step c (now, o))) by (rewrite S; reflexivity).
  assert (Eout : out = snd (step c (now, o))) by (rewrite S; reflexivity).
  apply andb_true_intro. split.
  - destruct o as [k v ttl|k|k|]; try (rewrite Eout; reflexivity).
    (* get *)
    cbn in Eout. apply andb_true_intro. split.
    + unfold sound_get. destruct out as [v|]; [|reflexivity].
      symmetry in Eout. apply get_output in Eout. destruct Eout as [e [L [Hv Hl]]].
      rewrite (A k e L). subst v. apply andb_true_intro. split; [apply Z.eqb_refl|apply Z.leb_le, Hl].
    + unfold complete_get. destruct (latest_rev rh k) as [[v e]|] eqn:LT; [|reflexivity].
      destruct (Z.leb_spec now e) as [Hl|]; [|reflexivity].
      destruct (Nat.leb_spec (length (stored_keys rh)) (cap c)) as [Hc|]; [|reflexivity]. cbn.
      destruct (HL Hc) as [HLl HLk].
      assert (L : lookup k (items c) = Some (mkEntry v e)) by (apply HLl; [exact LT|lia]).
      unfold get in Eout. rewrite L in Eout. unfold expired in Eout. cbn in Eout.
      destruct (Z.ltb_spec e now); [lia|]. cbn in Eout. subst out. apply Z.eqb_refl.
  - replace outs with (snd (run c1 h)) by (rewrite R; reflexivity).
    replace (cap c) with (cap c1) by (rewrite Ec1; apply cap_step).
    apply (IH c1 ((now, o) :: rh) now).
    + rewrite Ec1. apply wf_step, W.
    + rewrite Ec1. apply agrees_step; assumption.
    + rewrite Ec1, cap_step. intros Hc. apply (holds_live_step c rh t0); try assumption.
      apply HL. pose proof (stored_keys_length_mono (now, o) rh). lia.
    + exact HT.
Qed.

Lemma holds_live_empty n t : holds_live (empty n) [] t.
Proof. split; [intros k v e H; discriminate|intros k []]. Qed.

(* Every history with non-decreasing instants, run from the empty cache of any
   capacity, satisfies the history specification. *)
Theorem run_check_history n h :
  monotone h = true -> check_history n h (snd (run (empty n) h)) = true.
Proof.
  intros M. unfold check_history. destruct h as [|[t o] r]; [reflexivity|].
  apply (check_from_run (empty n) [] ((t, o) :: r) t).
  - apply wf_empty.
  - apply agrees_empty.
  - intros _. apply holds_live_empty.
  - cbn [times_from]. rewrite Z.leb_refl. exact M.
Qed.

(* ------------------------------------------------------------ statements over whole runs *)

Lemma run_fst_cons c ev h : fst (run c (ev :: h)) = fst (run (fst (step c ev)) h).
Proof.
  cbn [run]. destruct (step c ev) as [c1 o]. cbn [fst]. destruct (run c1 h) as [c2 os]. reflexivity.
Qed.

Lemma run_fst_snoc c h ev :
  fst (run c (h ++ [ev])) = fst (step (fst (run c h)) ev).
Proof.
  revert c. induction h as [|a h IH]; intros c.
  - cbn [app]. rewrite run_fst_cons. reflexivity.
  - cbn [app]. rewrite !run_fst_cons. apply IH.
Qed.

Lemma wf_run n h : wf (fst (run (empty n) h)).
Proof.
  induction h as [|ev h IH] using rev_ind; [apply wf_empty|].
  rewrite run_fst_snoc. apply wf_step, IH.
Qed.

Lemma agrees_run n h : agrees (fst (run (empty n) h)) (rev h).
Proof.
  induction h as [|ev h IH] using rev_ind; [apply agrees_empty|].
  rewrite run_fst_snoc, rev_app_distr. cbn [rev app]. apply agrees_step; [apply wf_run|exact IH].
Qed.

Lemma latest_rev_origin rh k v e :
  latest_rev rh k = Some (v, e) -> exists t0 ttl, In (t0, OSet k v ttl) rh /\ e = t0 + ttl.
Proof.
  induction rh as [|[t o] rh IH]; cbn [latest_rev]; [discriminate|].
  destruct o as [k' v' ttl'|k'|k'|].
  - destruct (N.eqb_spec k k') as [->|Hne].
    + intros H; inversion H; subst. exists t, ttl'. split; [left; reflexivity|reflexivity].
    + intros H. destruct (IH H) as [t0 [ttl [Hin He]]]. exists t0, ttl. split; [right; exact Hin|exact He].
  - intros H. destruct (IH H) as [t0 [ttl [Hin He]]]. exists t0, ttl. split; [right; exact Hin|exact He].
  - destruct (N.eqb k k'); [discriminate|].
    intros H. destruct (IH H) as [t0 [ttl [Hin He]]]. exists t0, ttl. split; [right; exact Hin|exact He].
  - intros H. destruct (IH H) as [t0 [ttl [Hin He]]]. exists t0, ttl. split; [right; exact Hin|exact He].
Qed.

(* A lookup after any history returns only the latest stored value of that key,
   not deleted since, whose lifetime has not elapsed. *)
Theorem get_sound n h now k v :
  snd (get now k (fst (run (empty n) h))) = Some v ->
  exists e, latest_rev (rev h) k = Some (v, e) /\ now <= e.
Proof.
  intros H. apply get_output in H. destruct H as [e [L [Hv Hl]]].
  exists (e_exp e). split; [|exact Hl]. rewrite <- Hv. apply (agrees_run n h), L.
Qed.

(* Entries stored with a non-positive lifetime are never observable at a later instant. *)
Theorem get_positive_ttl n h now k v :
  (forall t o, In (t, o) h -> t < now) ->
  snd (get now k (fst (run (empty n) h))) = Some v ->
  exists t0 ttl, In (t0, OSet k v ttl) h /\ 0 < ttl /\ now <= t0 + ttl.
Proof.
  intros Hbefore H. apply get_sound in H. destruct H as [e [LT Hl]].
  apply latest_rev_origin in LT. destruct LT as [t0 [ttl [Hin He]]].
  apply in_rev in Hin. exists t0, ttl. split; [exact Hin|]. specialize (Hbefore _ _ Hin). lia.
Qed.

(* Cleanup removes exactly the entries whose lifetime has elapsed and changes nothing else. *)
Theorem cleanup_exact now c :
  wf c ->
  (forall k, lookup k (items (cleanup now c)) =
             match lookup k (items c) with
             | Some e => if Z.ltb (e_exp e) now then None else Some e
             | None => None
             end)
  /\ (forall k, In k (order (cleanup now c)) <->
                In k (order c) /\ exists e, lookup k (items c) = Some e /\ now <= e_exp e)
  /\ cap (cleanup now c) = cap c.
Proof.
  intros W. split; [|split].
  - intros k. apply lookup_cleanup, W.
  - intros k. unfold cleanup. rewrite order_fold_remove, cleanup_keys_In by apply W.
    split; intros [Ho H]; (split; [exact Ho|]).
    + destruct W as [_ _ Hs]. apply Hs in Ho. apply lookup_Some_keys in Ho. destruct Ho as [e L].
      exists e. split; [exact L|]. destruct (Z.ltb_spec (e_exp e) now) as [Hx|Hx]; [|exact Hx].
      exfalso. apply H. exists e. split; [exact L|]. unfold expired. apply Z.ltb_lt, Hx.
    + destruct H as [e [L Hl]]. intros [e' [L' X]]. rewrite L in L'. inversion L'; subst e'.
      unfold expired in X. apply Z.ltb_lt in X. lia.
  - apply fold_remove_cap.
Qed.

(* Cleanup absorbs an earlier cleanup: running Cleanup at an instant and again at the same or a later instant
   leaves exactly the lookups a single Cleanup at the later instant leaves (so Cleanup is idempotent). *)
Lemma cleanup_absorbs now now' c : wf c -> now <= now' ->
  forall k, lookup k (items (cleanup now' (cleanup now c))) = lookup k (items (cleanup now' c)).
Proof.
  intros Hwf Hle k.
  destruct (cleanup_exact now' (cleanup now c) (wf_cleanup now c Hwf)) as [H1 _].
  destruct (cleanup_exact now' c Hwf) as [H2 _].
  destruct (cleanup_exact now c Hwf) as [H3 _].
  rewrite H1, H2, H3.
  destruct (lookup k (items c)) as [e|]; [|reflexivity].
  destruct (Z.ltb_spec (e_exp e) now) as [Ha|Ha]; [|reflexivity].
  destruct (Z.ltb_spec (e_exp e) now') as [Hb|Hb]; [reflexivity|lia].
Qed.
Lemma cleanup_idempotent_lookup now c : wf c ->
  forall k, lookup k (items (cleanup now (cleanup now c))) = lookup k (items (cleanup now c)).
Proof. intros Hwf k. rewrite (cleanup_absorbs now now c Hwf (Z.le_refl now) k). reflexivity. Qed.
