(* Property C01 (step monitor): every response of Model/Middleware.serve
   satisfies c01_step = c01_gate && c01_issue (Spec/WorldSpec.v), for ALL
   environments, configurations, instance states, requests and provider answers:
     gate  : an excluded path is forwarded untouched; a protected path is
             forwarded only for a request carrying a valid session or after a
             successful refresh, otherwise answered by a login redirect or an
             error; callback / logout are never forwarded
     issue : an authenticated session (or a new ID token) is only ever stored at
             the end of a successful login or refresh, and the stored token is
             the one verified at that moment. *)
From VF Require Import Base.Prelude Model.Cache Model.Session Model.Middleware Corr.WorldCorr Spec.WorldSpec.
From VF Require Import Proofs.CacheProofs Proofs.WorldBase Proofs.ServeLemmas Proofs.VerifyProofs.
From Coq Require Import ZifyBool ZifyNat ZifyN.
Open Scope N_scope.

Section C01.
  Variable E : env.
  Variable cfg : config.
  Notation NCE := (nchunks E).

  (* ---------------------------------------------------------------- the gate, by kind of response *)

  Lemma gated_not_excluded rq : gated E cfg rq = true -> is_excluded E cfg rq = false.
  Proof. unfold gated. destruct (is_excluded E cfg rq); [discriminate|reflexivity]. Qed.

  Lemma gate_excluded a now rq ans :
    is_excluded E cfg rq = true -> c01_gate E cfg a now rq ans (excluded_resp rq) = true.
  Proof.
    intros He. unfold c01_gate. rewrite He. unfold client_headers_untouched, excluded_resp.
    cbn [r_fwd r_cookies]. rewrite hdrs_eqb_refl. reflexivity.
  Qed.

  Lemma gate_ungated a now rq ans r :
    is_excluded E cfg rq = false -> gated E cfg rq = false -> r_fwd r = None ->
    c01_gate E cfg a now rq ans r = true.
  Proof. intros He Hg Hf. unfold c01_gate, forwarded. rewrite He, Hg, Hf. reflexivity. Qed.

  Lemma gate_deny a now rq ans r :
    gated E cfg rq = true -> r_fwd r = None ->
    is_auth_redirect a r = true \/ (400 <= r_status r) ->
    c01_gate E cfg a now rq ans r = true.
  Proof.
    intros Hg Hf Hd. unfold c01_gate, forwarded. rewrite (gated_not_excluded rq Hg), Hg, Hf.
    destruct (carries_valid_session E cfg now rq || refreshed_ok E cfg now rq ans r); [reflexivity|].
    cbn [negb andb]. destruct Hd as [->|Hs]; [reflexivity|].
    apply orb_true_iff. right. apply N.leb_le, Hs.
  Qed.

  Lemma gate_valid a now rq ans r :
    gated E cfg rq = true -> carries_valid_session E cfg now rq = true ->
    c01_gate E cfg a now rq ans r = true.
  Proof. intros Hg Hv. unfold c01_gate. rewrite (gated_not_excluded rq Hg), Hg, Hv. reflexivity. Qed.

  Lemma gate_refreshed a now rq ans r :
    gated E cfg rq = true -> refreshed_ok E cfg now rq ans r = true ->
    c01_gate E cfg a now rq ans r = true.
  Proof.
    intros Hg Hv. unfold c01_gate. rewrite (gated_not_excluded rq Hg), Hg, Hv, orb_true_r. reflexivity.
  Qed.

  (* ---------------------------------------------------------------- the issue clause *)

  Lemma issue_quiet now rq ans r :
    establishes E cfg now rq r = false -> new_token E cfg now rq r = false ->
    c01_issue E cfg now rq ans r = true.
  Proof. intros He Hn. unfold c01_issue. rewrite He, Hn. reflexivity. Qed.

  Lemma issue_nil now rq ans r : r_cookies r = [] -> c01_issue E cfg now rq ans r = true.
  Proof. intros Hc. apply issue_quiet; [apply establishes_nil|apply new_token_nil]; exact Hc. Qed.

  Lemma issue_login now rq ans id rt r :
    ans = Some (AOk id rt) -> id <> 0 -> accept_at now (tok E id) = true ->
    emitted_id E r = Some (TTok id) ->
    (exists c s h v, r_calls r = [PExchange c s h v] /\ is_callback cfg rq = true)
    \/ (exists t, r_calls r = [PRefresh t] /\ refreshed_ok E cfg now rq ans r = true) ->
    c01_issue E cfg now rq ans r = true.
  Proof.
    intros Ha Hid Hacc Hem Hcalls. unfold c01_issue.
    destruct (establishes E cfg now rq r || new_token E cfg now rq r); [|reflexivity].
    destruct Hcalls as [(c & s & h & v & Hc & Hcb)|(t & Hc & Hr)].
    - rewrite Ha, Hem, Hc, Hacc, Hcb, N.eqb_refl.
      destruct (N.eqb_spec id 0); [contradiction|]. reflexivity.
    - rewrite Hr. rewrite Ha, Hem, Hc, Hacc, N.eqb_refl.
      destruct (N.eqb_spec id 0); [contradiction|]. reflexivity.
  Qed.

  Lemma refreshed_ok_intro now rq ans id rt r :
    ans = Some (AOk id rt) -> r_calls r = [PRefresh (session_refresh E cfg now rq)] ->
    id <> 0 -> accept_at now (tok E id) = true -> session_refresh E cfg now rq <> TEmpty ->
    refreshed_ok E cfg now rq ans r = true.
  Proof.
    intros Ha Hc Hid Hacc Hrt. unfold refreshed_ok. rewrite Ha, Hc, Hacc, tval_eqb_refl.
    destruct (N.eqb_spec id 0); [contradiction|].
    apply tval_eqb_empty_false in Hrt. rewrite Hrt. reflexivity.
  Qed.

  (* the empty string never verifies *)
  Lemma accepted_nonzero now id : env_ok E -> accept_at now (tok E id) = true -> id <> 0.
  Proof.
    intros He Ha ->. rewrite (eo_empty E He) in Ha. discriminate.
  Qed.

  (* ---------------------------------------------------------------- login redirects *)

  (* a login redirect emitted after nothing, or after one Save of the very session it clears *)
  Lemma step_initiate st now rq rnd ans st' sd pre calls :
    gated E cfg rq = true -> i_auth_url st' = i_auth_url st ->
    chunks_bounded CAccChunk (length (s_achunks sd)) pre ->
    c01_step E cfg (i_auth_url st) now rq ans (initiate cfg rq rnd st' sd pre calls) = true.
  Proof.
    intros Hg Hu Hb. unfold c01_step. apply andb_true_intro. split.
    - apply gate_deny; [exact Hg|apply initiate_fwd|]. left. rewrite <- Hu. apply initiate_redirect.
    - apply issue_quiet; [apply initiate_establishes|apply initiate_new_token, Hb].
  Qed.

  Lemma verify_state_url st now st' :
    (st' = st \/ exists id, st' = fst (verify_token E st now id)) -> i_auth_url st' = i_auth_url st.
  Proof. intros [->|[id ->]]; [reflexivity|]. apply verify_token_endpoints. Qed.

  (* ---------------------------------------------------------------- the theorem *)

  Theorem c01_serve st now rq rnd ans :
    env_ok E -> cfg_ok cfg -> inst_ok E st now -> i_ready st = true ->
    c01_step E cfg (i_auth_url st) now rq ans (snd (serve E cfg st now rq rnd ans)) = true.
  Proof.
    intros He _ Hok Hready.
    apply (serve_cases E cfg st now rq rnd ans
             (fun p => c01_step E cfg (i_auth_url st) now rq ans (snd p) = true)); [exact Hready|..];
      cbn [snd].
    - (* excluded *)
      intros Hex. unfold c01_step. rewrite gate_excluded by exact Hex. apply issue_nil. reflexivity.
    - (* logout *)
      intros Hex Hlo. destruct (handle_logout_eq E cfg rq st (carried cfg now rq)) as [loc ->].
      unfold c01_step. apply andb_true_intro. split.
      + apply gate_ungated; [exact Hex| |reflexivity]. unfold gated. rewrite Hlo, andb_false_r. reflexivity.
      + apply issue_quiet.
        * unfold establishes, emits_auth. erewrite emitted_main_save by reflexivity. reflexivity.
        * unfold new_token. erewrite emitted_id_save by reflexivity.
          rewrite get_access_cleared. reflexivity.
    - (* callback *)
      intros Hex Hlo Hcb.
      assert (Hng : gated E cfg rq = false).
      { unfold gated. rewrite Hcb. cbn [negb]. rewrite andb_false_r. reflexivity. }
      apply (cb_cases E cfg rq st now (carried cfg now rq) ans); cbn [snd];
        try (intros; unfold c01_step; apply andb_true_intro; split;
             [apply gate_ungated; [exact Hex|exact Hng|reflexivity]|apply issue_nil; reflexivity]).
      intros id rt loc Ha Hv Hcl.
      assert (Hacc : accept_at now (tok E id) = true) by (apply (verify_token_sound E st now id He Hok Hv)).
      assert (Hid : id <> 0) by (apply (accepted_nonzero now id He Hacc)).
      unfold c01_step. apply andb_true_intro. split.
      + apply gate_ungated; [exact Hex|exact Hng|reflexivity].
      + apply (issue_login now rq ans id rt); [exact Ha|exact Hid|exact Hacc| |].
        * erewrite emitted_id_save by reflexivity.
          rewrite get_access_callback_sd by (apply (eo_chunks E He)).
          destruct (N.eqb_spec id 0); [contradiction|reflexivity].
        * left. unfold cb_call. cbn [r_calls]. eauto 10.
    - (* expired *)
      intros Hg. rewrite handle_expired_eq. apply step_initiate; [exact Hg|reflexivity|].
      apply chunks_bounded_save_acc. rewrite achunks_after_save. lia.
    - (* valid session *)
      intros Hg Hv. apply (pa_cases E cfg rq rnd st (carried cfg now rq) [] []).
      + intros _. apply step_initiate; [exact Hg|reflexivity|apply chunks_bounded_nil].
      + intros m _. unfold c01_step. rewrite gate_valid by assumption. apply issue_nil. reflexivity.
      + intros _ _ _. unfold c01_step. rewrite gate_valid by assumption. apply issue_nil. reflexivity.
      + intros h cors _. unfold c01_step. rewrite gate_valid by assumption. apply issue_nil. reflexivity.
    - (* refresh failed, session untouched *)
      intros Hg Hrt st' Hst'. unfold refresh_failed_resp. destruct (q_json rq).
      + unfold c01_step. apply andb_true_intro. split.
        * apply gate_deny; [exact Hg|reflexivity|]. right. cbn [r_status]. lia.
        * apply issue_nil. reflexivity.
      + apply step_initiate; [exact Hg|apply (verify_state_url st now st' Hst')|apply chunks_bounded_nil].
    - (* refresh failed: invalid_grant, the refresh token is dropped *)
      intros Hg Hrt Ha. unfold refresh_failed_resp. destruct (q_json rq).
      + unfold c01_step. apply andb_true_intro. split.
        * apply gate_deny; [exact Hg|reflexivity|]. right. cbn [r_status]. lia.
        * apply issue_quiet.
          -- unfold establishes, main_rewritten, new_token.
             erewrite emitted_main_save by reflexivity. erewrite emitted_id_save by reflexivity.
             rewrite main_set_refresh, get_access_set_refresh.
             unfold session_token. change (NCm E) with NCE.
             rewrite payload_eqb_refl, tval_eqb_refl. cbn [negb]. rewrite andb_false_r.
             apply andb_false_r.
          -- unfold new_token. erewrite emitted_id_save by reflexivity.
             rewrite get_access_set_refresh. unfold session_token. change (NCm E) with NCE.
             rewrite tval_eqb_refl. apply andb_false_r.
      + apply step_initiate; [exact Hg|reflexivity|].
        apply chunks_bounded_save_acc. rewrite achunks_after_save. lia.
    - (* refresh succeeded *)
      intros Hg Hrt id newrt Ha Hid Hv Hcl Hem.
      assert (Hacc : accept_at now (tok E id) = true) by (apply (verify_token_sound E st now id He Hok Hv)).
      set (st1 := fst (verify_token E st now id)).
      assert (Hu : i_auth_url st1 = i_auth_url st) by apply verify_token_endpoints.
      set (sdr := refreshed_sd E now (carried cfg now rq) id newrt).
      assert (Hget : get_access NCE sdr = TTok id).
      { subst sdr. rewrite get_access_refreshed_sd by (apply (eo_chunks E He)).
        destruct (N.eqb_spec id 0); [contradiction|reflexivity]. }
      assert (Hstep : forall r, r_calls r = [PRefresh (session_refresh E cfg now rq)] ->
                                r_cookies r = save_cookies sdr ->
                                c01_step E cfg (i_auth_url st) now rq ans r = true).
      { intros r Hc Hck.
        assert (Hro : refreshed_ok E cfg now rq ans r = true)
          by (apply (refreshed_ok_intro now rq ans id newrt r); assumption).
        unfold c01_step. rewrite (gate_refreshed _ now rq ans r Hg Hro).
        apply (issue_login now rq ans id newrt); [exact Ha|exact Hid|exact Hacc| |].
        - rewrite (emitted_id_save E r sdr Hck), Hget. reflexivity.
        - right. eauto. }
      apply (pa_cases E cfg rq rnd st1 (after_save sdr) (save_cookies sdr)
                      [PRefresh (session_refresh E cfg now rq)]).
      + intros _. unfold c01_step. apply andb_true_intro. split.
        * apply gate_refreshed; [exact Hg|].
          apply (refreshed_ok_intro now rq ans id newrt); try assumption. apply initiate_calls.
        * apply issue_quiet; [apply initiate_establishes|]. apply initiate_new_token.
          apply chunks_bounded_save_acc. rewrite achunks_after_save. lia.
      + intros m _. apply Hstep; reflexivity.
      + intros _ _ _. apply Hstep; reflexivity.
      + intros h cors _. apply Hstep; reflexivity.
    - (* anything else: login redirect *)
      intros Hg. apply step_initiate; [exact Hg|reflexivity|apply chunks_bounded_nil].
  Qed.
End C01.
