(* Property C04 — no instance-local state is needed to serve an established
   session.
     C04_stateless : a gated request whose cookies hold an authenticated session
                     for an ID token that is more than the grace period (+2 s)
                     from expiry, with an allowed e-mail and allowed roles, gets
                     the SAME response from every ready instance state (warm or
                     empty caches, any blacklist, any endpoints), whatever random
                     values the step would draw and whatever the provider would
                     answer: forwarded (or the answered CORS preflight), no
                     provider call, no cookie.
     C04_steady    : along every honest-browser history of the model, each event
                     served by an arbitrary ready instance state, once a login
                     or refresh stored token t every gated request made while t
                     is comfortably valid is forwarded with no provider call
                     (Spec/WorldSpec.c04_browser).

   Premises of C04_steady beyond env_ok / cfg_ok / readiness, each necessary
   (counterexamples at the end of the file):
     no_timeout    : no request carries a session past the 24 h absolute timeout
                     (GetSession empties such a session — by design it is not
                     served, however long the token lives)
     nondecreasing : the instants of the history do not go backwards (a request
                     "before" the token's iat is answered by a new login, which
                     clears the session)
     inst_ok       : the verification cache of each serving instance is sound
                     (holds only tokens that were acceptable when cached; true
                     of a fresh instance and preserved by every step:
                     VerifyProofs.inst_ok_serve).  A cache poisoned with a
                     not-yet-valid token lets a login store a token the next
                     request rejects. *)
From VF Require Import Base.Prelude Model.Cache Model.Session Model.Middleware Model.World Corr.WorldCorr Spec.WorldSpec.
From VF Require Import Proofs.WorldBase Proofs.ServeLemmas Proofs.SessionProofs Proofs.VerifyProofs Proofs.W_BLemmas
     Proofs.W_Cookies Proofs.W_C07 Proofs.W_C11.
From Coq Require Import ZifyBool ZifyNat ZifyN.
Open Scope N_scope.

Section C04.
  Variable E : env.
  Variable cfg : config.
  Notation NCE := (nchunks E).
  Notation K := (c_key cfg).

  (* ---------------------------------------------------------------- a session that needs nothing *)

  (* the ID token is accepted now and not within the grace period of its expiry *)
  Definition fresh_at (now : time) (t : istr) : bool :=
    accept_at now (tok E t) && negb (Z.ltb (ti_exp (tok E t) * sec)%Z (now + c_grace cfg)%Z).

  Lemma c4_cv_fresh now t : comfortably_valid E cfg now t = true -> fresh_at now t = true.
  Proof. unfold comfortably_valid, fresh_at, sec. lia. Qed.

  (* what every instance answers to a gated request carrying such a session *)
  Definition steady_resp (rq : request) (sd : sdata) : response :=
    if negb (domain_ok E cfg (get_str 6 (s_main sd))) then send_error rq msg_domain_denied 403 [] []
    else if negb (roles_ok E cfg (get_access NCE sd)) then send_error rq msg_roles_denied 403 [] []
    else if negb (N.eqb (q_origin rq) 0) && q_options rq
         then mkResp 200 None [] BNone None true [] []
         else mkResp 200 None [] BNone (Some (b_headers E cfg rq sd)) (negb (N.eqb (q_origin rq) 0)) [] [].

  Lemma c4_steady_cookies rq sd : r_cookies (steady_resp rq sd) = [].
  Proof.
    unfold steady_resp. destruct (negb (domain_ok _ _ _)); [reflexivity|].
    destruct (negb (roles_ok _ _ _)); [reflexivity|]. destruct (_ && _); reflexivity.
  Qed.

  Lemma c4_steady_calls rq sd : r_calls (steady_resp rq sd) = [].
  Proof.
    unfold steady_resp. destruct (negb (domain_ok _ _ _)); [reflexivity|].
    destruct (negb (roles_ok _ _ _)); [reflexivity|]. destruct (_ && _); reflexivity.
  Qed.

  Lemma c4_gated_parts rq : gated E cfg rq = true ->
    excluded E cfg (q_path rq) = false /\ N.eqb (q_path rq) (c_callback cfg) = false
    /\ N.eqb (q_path rq) (c_logout cfg) = false.
  Proof.
    unfold gated, is_excluded, is_callback, is_logout.
    destruct (excluded E cfg (q_path rq)), (N.eqb (q_path rq) (c_callback cfg)), (N.eqb (q_path rq) (c_logout cfg));
      cbn; intros H; try discriminate; repeat split; reflexivity.
  Qed.

  (* the ladder on such a request: no branch reads the instance state, the random
     values or the provider's answer *)
  Lemma c4_serve_fresh st now rq rnd ans t :
    i_ready st = true -> gated E cfg rq = true ->
    authenticated now (carried cfg now rq) = true ->
    get_access NCE (carried cfg now rq) = TTok t ->
    fresh_at now t = true ->
    get_str 6 (s_main (carried cfg now rq)) <> 0 ->
    serve E cfg st now rq rnd ans = (st, steady_resp rq (carried cfg now rq)).
  Proof.
    intros Hready Hg Hau Hacc Hfr Hem.
    destruct (c4_gated_parts rq Hg) as (Hex & Hcb & Hlo).
    unfold serve. rewrite Hready, Hex, Hlo, Hcb. cbn [negb].
    fold (carried cfg now rq). set (sd := carried cfg now rq) in *.
    unfold fresh_at in Hfr. apply andb_prop in Hfr. destruct Hfr as [Ha Hgr].
    unfold is_user_authenticated. change (NC E) with NCE. rewrite Hau, Hacc, Ha. cbn [negb].
    apply negb_true_iff in Hgr. rewrite Hgr. cbn [andb negb].
    rewrite (b_pa_eq E cfg rq rnd st sd [] [] Hem). reflexivity.
  Qed.

  Theorem C04_stateless_thm now rq t :
    gated E cfg rq = true ->
    authenticated now (carried cfg now rq) = true ->
    get_access NCE (carried cfg now rq) = TTok t ->
    get_str 6 (s_main (carried cfg now rq)) <> 0 ->
    domain_ok E cfg (get_str 6 (s_main (carried cfg now rq))) = true ->
    roles_ok E cfg (TTok t) = true ->
    comfortably_valid E cfg now t = true ->
    forall st1 st2 rnd1 rnd2 ans1 ans2,
      i_ready st1 = true -> i_ready st2 = true ->
      let r1 := snd (serve E cfg st1 now rq rnd1 ans1) in
      let r2 := snd (serve E cfg st2 now rq rnd2 ans2) in
      r1 = r2 /\ r_calls r1 = [] /\ r_cookies r1 = []
      /\ N.eqb (r_status r1) 200 = true
      /\ (forwarded r1 = true \/ (q_options rq = true /\ q_origin rq <> 0 /\ r_cors r1 = true)).
  Proof.
    intros Hg Hau Hacc Hem Hdom Hroles Hcv st1 st2 rnd1 rnd2 ans1 ans2 Hr1 Hr2 r1 r2.
    pose proof (c4_cv_fresh now t Hcv) as Hfr.
    assert (E1 : r1 = steady_resp rq (carried cfg now rq))
      by (unfold r1; rewrite (c4_serve_fresh st1 now rq rnd1 ans1 t) by assumption; reflexivity).
    assert (E2 : r2 = steady_resp rq (carried cfg now rq))
      by (unfold r2; rewrite (c4_serve_fresh st2 now rq rnd2 ans2 t) by assumption; reflexivity).
    split; [congruence|]. rewrite E1. split; [apply c4_steady_calls|]. split; [apply c4_steady_cookies|].
    unfold steady_resp. rewrite Hdom, Hacc, Hroles. cbn [negb].
    destruct (N.eqb_spec (q_origin rq) 0) as [Ho|Ho]; cbn [negb andb].
    - split; [reflexivity|]. left. reflexivity.
    - destruct (q_options rq); split; try reflexivity; [right; repeat split; assumption|left; reflexivity].
  Qed.

  (* ---------------------------------------------------------------- the session a login / refresh leaves *)

  Hypothesis HE : env_ok E.
  Let Hpos : forall t, (1 <= NCE t)%nat := eo_chunks E HE.

  (* an authenticated session for ID token t, as handleCallback / refreshToken save it *)
  Definition sess_for (t : istr) (sv : sdata) : Prop :=
    get_bool 1 (s_main sv) = true
    /\ (exists c, getf 2 (s_main sv) = Some (VZ c))
    /\ get_access NCE sv = TTok t
    /\ get_str 6 (s_main sv) = ti_email (tok E t)
    /\ ti_email (tok E t) <> 0.

  Definition jar_for (t : istr) (j : jar) : Prop := exists sv, holds_session K j sv /\ sess_for t sv.

  Lemma c4_sess_callback now sd id rt :
    ti_nonce (tok E id) <> 0 -> ti_email (tok E id) <> 0 -> sess_for id (callback_sd E now sd id rt).
  Proof.
    intros Hn Hem.
    assert (Hid : id <> 0).
    { intros ->. rewrite (eo_empty E HE) in Hn. apply Hn. reflexivity. }
    assert (Hm : s_main (callback_sd E now sd id rt)
                 = setf 7 (VS 0) (setf 5 (VS 0) (setf 4 (VS 0) (setf 3 (VS 0)
                     (setf 6 (VS (ti_email (tok E id)))
                        (setf 1 (VB true) (setf 2 (VZ (now / 1000000000)) (s_main sd)))))))).
    { unfold callback_sd. rewrite !main_set_main, main_set_refresh, main_set_access, main_set_main. reflexivity. }
    split; [apply c_callback_sd_auth|]. split; [|split; [|split; [|exact Hem]]].
    - exists (now / 1000000000)%Z. rewrite Hm.
      rewrite !getf_setf_other by discriminate. apply getf_setf_same.
    - rewrite get_access_callback_sd by exact Hpos. destruct (N.eqb_spec id 0); [contradiction|reflexivity].
    - rewrite Hm. rewrite !get_str_set_other by discriminate. apply get_str_set_same.
  Qed.

  Lemma c4_sess_refreshed now sd id newrt :
    id <> 0 -> ti_email (tok E id) <> 0 -> sess_for id (refreshed_sd E now sd id newrt).
  Proof.
    intros Hid Hem. split; [apply c_refreshed_sd_auth|]. split; [|split; [|split; [|exact Hem]]].
    - exists (now / 1000000000)%Z. unfold refreshed_sd, set_authenticated. cbn [s_main].
      rewrite getf_setf_other by discriminate. apply getf_setf_same.
    - rewrite get_access_refreshed_sd by exact Hpos. destruct (N.eqb_spec id 0); [contradiction|reflexivity].
    - apply (b_refreshed_email E now id newrt sd).
  Qed.

  (* ---------------------------------------------------------------- one step *)

  Definition c4_step (now : time) (rq : request) (rnd : istr * istr * istr) (ans : option answer)
             (r : response) : wstep := mkStep 0 0 now rq rnd ans r 0.

  Lemma c4_stored_noauth now rq rnd ans r :
    emits_auth r = false -> stored_by E cfg (c4_step now rq rnd ans r) = None.
  Proof. intros H. unfold stored_by, written_by. cbn [w_obs c4_step]. rewrite H. reflexivity. Qed.

  Lemma c4_stored_nil now rq rnd ans r :
    r_cookies r = [] -> stored_by E cfg (c4_step now rq rnd ans r) = None.
  Proof. intros H. apply c4_stored_noauth, emits_auth_nil, H. Qed.

  Lemma c4_stored_initiate now rq rnd ans rq' rnd' st sd cookies calls :
    stored_by E cfg (c4_step now rq rnd ans (initiate cfg rq' rnd' st sd cookies calls)) = None.
  Proof. apply c4_stored_noauth, initiate_emits. Qed.

  (* what a step that stored a token leaves in the browser's jar *)
  Lemma c4_write st now rq rnd ans t' :
    i_ready st = true -> inst_ok E st now -> contiguous K (q_jar rq) ->
    let r := snd (serve E cfg st now rq rnd ans) in
    stored_by E cfg (c4_step now rq rnd ans r) = Some t' ->
    jar_for t' (apply_cookies K (q_jar rq) (r_cookies r)) /\ accept_at now (tok E t') = true.
  Proof.
    intros Hready Hok Hcont.
    apply (serve_cases E cfg st now rq rnd ans
             (fun x => stored_by E cfg (c4_step now rq rnd ans (snd x)) = Some t' ->
                       jar_for t' (apply_cookies K (q_jar rq) (r_cookies (snd x)))
                       /\ accept_at now (tok E t') = true) Hready); cbn [snd].
    - intros _ H. rewrite c4_stored_nil in H by reflexivity. discriminate.
    - intros _ _ H. destruct (handle_logout_eq E cfg rq st (carried cfg now rq)) as [loc Hl]. rewrite Hl in H.
      rewrite c4_stored_noauth in H; [discriminate|].
      unfold emits_auth. rewrite (emitted_main_save _ (ServeLemmas.cleared (carried cfg now rq))) by reflexivity.
      reflexivity.
    - intros _ _ _.
      apply (b_cb_cases E cfg rq st now (carried cfg now rq) ans
               (fun x => stored_by E cfg (c4_step now rq rnd ans (snd x)) = Some t' ->
                         jar_for t' (apply_cookies K (q_jar rq) (r_cookies (snd x)))
                         /\ accept_at now (tok E t') = true)); cbn [snd].
      + intros st' m code H. rewrite c4_stored_nil in H by reflexivity. discriminate.
      + intros st' m code _ _ _ _ H. rewrite c4_stored_nil in H by reflexivity. discriminate.
      + intros id rt tgt Hans _ _ _ _ Hv Hn0 _ Hem _.
        change (b_cb_final E now (carried cfg now rq) id rt) with (callback_sd E now (carried cfg now rq) id rt).
        unfold stored_by, written_by, emits_auth. cbn [w_obs w_ans c4_step r_cookies r_calls].
        rewrite (emitted_main_save _ (callback_sd E now (carried cfg now rq) id rt)) by reflexivity.
        rewrite c_callback_sd_auth, Hans. intros H. injection H as <-.
        split; [|exact (verify_token_sound E st now id HE Hok Hv)].
        exists (callback_sd E now (carried cfg now rq) id rt). split.
        * apply (c_emit_jar E cfg now _ (after_save (callback_sd E now (carried cfg now rq) id rt))); [exact Hcont|].
          apply emit_save, c_pre_callback. constructor.
        * apply c4_sess_callback; assumption.
    - intros _ H. rewrite handle_expired_eq, c4_stored_initiate in H. discriminate.
    - intros _ _. apply pa_cases.
      + intros _ H. rewrite c4_stored_initiate in H. discriminate.
      + intros m _ H. rewrite c4_stored_nil in H by reflexivity. discriminate.
      + intros _ _ _ H. rewrite c4_stored_nil in H by reflexivity. discriminate.
      + intros h cors _ H. rewrite c4_stored_nil in H by reflexivity. discriminate.
    - intros _ _ st' _ H. unfold refresh_failed_resp in H. destruct (q_json rq).
      + rewrite c4_stored_nil in H by reflexivity. discriminate.
      + rewrite c4_stored_initiate in H. discriminate.
    - intros _ _ Hans H. unfold refresh_failed_resp in H. destruct (q_json rq).
      + unfold stored_by, written_by in H. cbn [w_obs w_ans c4_step] in H. rewrite Hans in H.
        destruct (emits_auth _); discriminate.
      + rewrite c4_stored_initiate in H. discriminate.
    - intros _ _ id newrt Hans Hid Hv _ Hem.
      assert (Hwr : forall r, r_cookies r = save_cookies (refreshed_sd E now (carried cfg now rq) id newrt) ->
                    r_calls r = [PRefresh (session_refresh E cfg now rq)] ->
                    stored_by E cfg (c4_step now rq rnd ans r) = Some t' ->
                    jar_for t' (apply_cookies K (q_jar rq) (r_cookies r)) /\ accept_at now (tok E t') = true).
      { intros r Hc Hcalls. unfold stored_by, written_by, emits_auth. cbn [w_obs w_ans c4_step].
        rewrite (emitted_main_save r _ Hc), c_refreshed_sd_auth, Hans, Hcalls. intros H. injection H as <-.
        split; [|exact (verify_token_sound E st now id HE Hok Hv)].
        exists (refreshed_sd E now (carried cfg now rq) id newrt). split.
        - rewrite Hc.
          apply (c_emit_jar E cfg now _ (after_save (refreshed_sd E now (carried cfg now rq) id newrt))); [exact Hcont|].
          apply emit_save, c_pre_refreshed. constructor.
        - apply c4_sess_refreshed; assumption. }
      apply pa_cases.
      + intros _ H. rewrite c4_stored_initiate in H. discriminate.
      + intros m _. apply Hwr; reflexivity.
      + intros _ _ _. apply Hwr; reflexivity.
      + intros h cors _. apply Hwr; reflexivity.
    - intros _ H. rewrite c4_stored_initiate in H. discriminate.
  Qed.

  (* the carried session is the one the jar holds, unless past the absolute timeout *)
  Lemma c4_carried now rq sv t :
    holds_session K (q_jar rq) sv -> sess_for t sv -> session_too_old now (s_main sv) = false ->
    authenticated now (carried cfg now rq) = true
    /\ get_access NCE (carried cfg now rq) = TTok t
    /\ get_str 6 (s_main (carried cfg now rq)) = ti_email (tok E t).
  Proof.
    intros Hh (Hb & (c & Hc) & Ha & Hem & _) Hold.
    destruct (c_holds_reads E cfg _ _ now Hh Hold) as (Ra & _ & Rm). fold (carried cfg now rq) in Ra, Rm.
    split; [|split; [rewrite Ra; exact Ha|rewrite Rm; exact Hem]].
    unfold authenticated. rewrite Rm, Hb, Hc. unfold session_too_old in Hold. rewrite Hc in Hold.
    cbn [andb]. lia.
  Qed.

  (* a gated request with a fresh session is answered without touching anything *)
  Lemma c4_fresh_step st now rq rnd ans sv t :
    i_ready st = true -> holds_session K (q_jar rq) sv -> sess_for t sv ->
    session_too_old now (s_main sv) = false -> gated E cfg rq = true -> fresh_at now t = true ->
    snd (serve E cfg st now rq rnd ans) = steady_resp rq (carried cfg now rq).
  Proof.
    intros Hready Hh Hs Hold Hg Hfr. destruct (c4_carried now rq sv t Hh Hs Hold) as (Hau & Hacc & Hem).
    rewrite (c4_serve_fresh st now rq rnd ans t); try assumption; [reflexivity|].
    rewrite Hem. apply Hs.
  Qed.

  Lemma c4_here st now rq rnd ans sv t :
    i_ready st = true -> holds_session K (q_jar rq) sv -> sess_for t sv ->
    session_too_old now (s_main sv) = false -> gated E cfg rq = true ->
    comfortably_valid E cfg now t = true ->
    domain_ok E cfg (ti_email (tok E t)) = true -> roles_ok E cfg (TTok t) = true ->
    let r := snd (serve E cfg st now rq rnd ans) in
    (forwarded r || (q_options rq && negb (N.eqb (q_origin rq) 0) && N.eqb (r_status r) 200))
    && match r_calls r with [] => true | _ => false end = true.
  Proof.
    intros Hready Hh Hs Hold Hg Hcv Hdom Hroles r.
    destruct (c4_carried now rq sv t Hh Hs Hold) as (Hau & Hacc & Hem).
    unfold r. rewrite (c4_fresh_step st now rq rnd ans sv t) by (try assumption; apply c4_cv_fresh, Hcv).
    rewrite c4_steady_calls. unfold steady_resp. rewrite Hem, Hdom, Hacc, Hroles. cbn [negb].
    destruct (N.eqb (q_origin rq) 0); cbn [negb andb]; [reflexivity|].
    destruct (q_options rq); reflexivity.
  Qed.

  (* a step that is not a logout and stored nothing keeps the session, unless
     the token was no longer fresh *)
  Lemma c4_keep st now rq rnd ans sv t :
    i_ready st = true -> holds_session K (q_jar rq) sv -> sess_for t sv ->
    session_too_old now (s_main sv) = false -> is_logout cfg rq = false ->
    let r := snd (serve E cfg st now rq rnd ans) in
    stored_by E cfg (c4_step now rq rnd ans r) = None ->
    jar_for t (apply_cookies K (q_jar rq) (r_cookies r)) \/ fresh_at now t = false.
  Proof.
    intros Hready Hh Hs Hold Hlo r. destruct (fresh_at now t) eqn:Hfr; [|right; reflexivity].
    intros Hst. left.
    assert (Hsame : r_cookies r = [] -> jar_for t (apply_cookies K (q_jar rq) (r_cookies r))).
    { intros ->. exists sv. split; assumption. }
    destruct (gated E cfg rq) eqn:Hg.
    - apply Hsame. unfold r. rewrite (c4_fresh_step st now rq rnd ans sv t) by assumption. apply c4_steady_cookies.
    - revert Hst Hsame. unfold r.
      apply (serve_cases E cfg st now rq rnd ans
               (fun x => stored_by E cfg (c4_step now rq rnd ans (snd x)) = None ->
                         (r_cookies (snd x) = [] -> jar_for t (apply_cookies K (q_jar rq) (r_cookies (snd x)))) ->
                         jar_for t (apply_cookies K (q_jar rq) (r_cookies (snd x)))) Hready); cbn [snd];
        try (intros H; congruence).
      + intros _ _ Hsame. apply Hsame. reflexivity.
      + intros _ _ _. apply cb_cases; cbn [snd]; try (intros; match goal with H : _ -> jar_for _ _ |- _ => apply H; reflexivity end).
        intros id rt loc Hans _ _ Hst _. exfalso. revert Hst.
        unfold stored_by, written_by, emits_auth. cbn [w_obs w_ans c4_step r_cookies r_calls].
        rewrite (emitted_main_save _ (callback_sd E now (carried cfg now rq) id rt)) by reflexivity.
        rewrite c_callback_sd_auth, Hans. unfold cb_call. discriminate.
  Qed.

  (* ---------------------------------------------------------------- the history *)

  (* from t0 on the token is never comfortably valid again *)
  Definition dead (t : istr) (t0 : time) : Prop :=
    forall now, (t0 <= now)%Z -> comfortably_valid E cfg now t = false.

  Lemma c4_dead_mono t t0 t1 : (t0 <= t1)%Z -> dead t t0 -> dead t t1.
  Proof. intros Hle Hd now Hn. apply Hd. lia. Qed.

  (* a token that was accepted once and is no longer fresh stays unusable *)
  Lemma c4_unfresh_dead t T now :
    accept_at T (tok E t) = true -> (T <= now)%Z -> fresh_at now t = false -> dead t now.
  Proof.
    intros Ha Hle Hfr now' Hn. unfold comfortably_valid. unfold fresh_at in Hfr.
    unfold accept_at, skew_future_s, skew_past_s, sec in *.
    destruct (ti_static (tok E t)); [|reflexivity].
    destruct (ti_nbf (tok E t)) as [n|]; lia.
  Qed.

  Definition c04_inv (cur : option istr) (j : jar) (t0 : time) : Prop :=
    contiguous K j
    /\ match cur with
       | None => True
       | Some t => (exists T, (T <= t0)%Z /\ accept_at T (tok E t) = true) /\ (jar_for t j \/ dead t t0)
       end.

  (* every event is served by a ready instance whose verification cache is sound *)
  Definition events_sound (evs : list event) : Prop :=
    Forall (fun e => i_ready (ev_st e) = true /\ inst_ok E (ev_st e) (ev_now e)) evs.

  Lemma c04_run evs : events_sound evs -> forall j cur t0,
    c04_inv cur j t0 -> nondecreasing t0 evs = true ->
    no_timeout cfg (browser_run E cfg j evs) = true ->
    c04_browser E cfg cur (browser_run E cfg j evs) = true.
  Proof.
    intros Hs. induction Hs as [|e evs [Hready Hok] _ IH]; intros j cur t0 (Hcont & Hcur) Hnd Hnt; [reflexivity|].
    cbn [nondecreasing] in Hnd. apply andb_prop in Hnd. destruct Hnd as [Hle Hnd]. apply Z.leb_le in Hle.
    cbn [browser_run no_timeout forallb] in Hnt. apply andb_prop in Hnt. destruct Hnt as [Hw Hnt].
    cbn [browser_run c04_browser w_rq w_obs w_now].
    set (rq := with_jar (ev_rq e) j) in *.
    set (r := snd (serve E cfg (ev_st e) (ev_now e) rq (ev_rnd e) (ev_ans e))) in *.
    assert (Hj : q_jar rq = j) by reflexivity.
    unfold within_limit in Hw. cbn [w_now w_rq] in Hw. rewrite Hj in Hw. apply negb_true_iff in Hw.
    assert (Hcont' : contiguous K (apply_cookies K j (r_cookies r))).
    { unfold r. rewrite <- Hj at 1. apply c_serve_contiguous. rewrite Hj. exact Hcont. }
    assert (Hold : forall sv, holds_session K j sv -> session_too_old (ev_now e) (s_main sv) = false).
    { intros sv (_ & Hm & _). rewrite <- Hm. exact Hw. }
    fold (c4_step (ev_now e) rq (ev_rnd e) (ev_ans e) r).
    apply andb_true_intro. split.
    - (* the request itself *)
      destruct cur as [t|]; [|reflexivity].
      destruct (gated E cfg rq && comfortably_valid E cfg (ev_now e) t
                && domain_ok E cfg (ti_email (tok E t)) && roles_ok E cfg (TTok t)) eqn:Hc; [|reflexivity].
      apply andb_prop in Hc. destruct Hc as [Hc Hroles]. apply andb_prop in Hc. destruct Hc as [Hc Hdom].
      apply andb_prop in Hc. destruct Hc as [Hg Hcv].
      destruct Hcur as (_ & [(sv & Hh & Hsf)|Hd]); [|rewrite (Hd (ev_now e) Hle) in Hcv; discriminate].
      rewrite <- Hj in Hh.
      apply (c4_here (ev_st e) (ev_now e) rq (ev_rnd e) (ev_ans e) sv t); try assumption.
      apply Hold. rewrite <- Hj. exact Hh.
    - (* what the next request finds *)
      apply (IH _ _ (ev_now e)); [|exact Hnd|exact Hnt]. split; [exact Hcont'|].
      destruct (is_logout cfg rq) eqn:Hlo; [exact I|].
      destruct (stored_by E cfg (c4_step (ev_now e) rq (ev_rnd e) (ev_ans e) r)) as [t'|] eqn:Hst.
      + rewrite <- Hj in Hcont.
        destruct (c4_write (ev_st e) (ev_now e) rq (ev_rnd e) (ev_ans e) t' Hready Hok Hcont Hst) as [Hjf Hacc].
        fold r in Hjf. rewrite Hj in Hjf.
        split; [exists (ev_now e); split; [lia|exact Hacc]|left; exact Hjf].
      + destruct cur as [t|]; [|exact I]. destruct Hcur as ((T & HT & Hacc) & Hcase).
        split; [exists T; split; [lia|exact Hacc]|].
        destruct Hcase as [(sv & Hh & Hsf)|Hd]; [|right; exact (c4_dead_mono t t0 _ Hle Hd)].
        pose proof (Hold sv Hh) as Ho. rewrite <- Hj in Hh.
        destruct (c4_keep (ev_st e) (ev_now e) rq (ev_rnd e) (ev_ans e) sv t Hready Hh Hsf Ho Hlo Hst) as [Hjf|Hfr].
        * left. fold r in Hjf. rewrite Hj in Hjf. exact Hjf.
        * right. apply (c4_unfresh_dead t T); [exact Hacc|lia|exact Hfr].
  Qed.

End C04.

Theorem C04_steady_thm E cfg evs t0 :
  env_ok E -> cfg_ok cfg -> events_sound E evs ->
  nondecreasing t0 evs = true ->
  no_timeout cfg (browser_run E cfg [] evs) = true ->
  c04_browser E cfg None (browser_run E cfg [] evs) = true.
Proof.
  intros HE _ Hs Hnd Hnt. apply (c04_run E cfg HE evs Hs [] None t0); [|exact Hnd|exact Hnt].
  split; [apply contiguous_empty|exact I].
Qed.

(* ------------------------------------------------------------------ a concrete history; the premises are necessary *)

From VF Require Import Proofs.W_BExample Proofs.W_Example.

(* instances: a fresh one, one with other endpoints and warm (sound) caches, and
   one whose verification cache was poisoned with token 50 *)
Definition c4_inst_a : inst := fresh_inst true 40 41.
Definition c4_inst_b : inst :=
  mkInst true 44 45 (mkCache 500 [(50, mkEntry 1 (5000 * 1000000000)%Z)] [50])
         (mkCache 500 [(77, mkEntry 1 (9000 * 1000000000)%Z)] [77]).
Definition c4_inst_poisoned : inst :=
  mkInst true 40 41 (mkCache 500 [(50, mkEntry 1 (5000 * 1000000000)%Z)] [50]) (empty 500).

Definition c4_s (n : Z) : time := (n * 1000000000)%Z.

(* a login with token 50 (valid from 980 s to 5000 s, e-mail in the listed domain),
   then two gated requests served by two different instance states *)
Definition c4_ex_events (rt : istr) (t3 : Z) : list event :=
  [ mkEvent c4_inst_a (c4_s 1000) (b_ex_req 30 0 0 [] []) (60, 61, 62) None;
    mkEvent c4_inst_a (c4_s 1001) (b_ex_req 31 60 70 [] []) (0, 0, 0) (Some (AOk 50 rt));
    mkEvent c4_inst_a (c4_s t3) (b_ex_req 30 0 0 [] []) (63, 64, 65) None;
    mkEvent c4_inst_b (c4_s 1003) (b_ex_req 30 0 0 [] []) (66, 67, 68) None ].

Lemma c4_inst_b_ok now : (c4_s 980 <= now)%Z -> inst_ok b_ex_env c4_inst_b now.
Proof.
  intros Hn t e. cbn [c4_inst_b i_tcache items lookup].
  destruct (N.eqb_spec t 50) as [->|]; [|discriminate]. intros H. injection H as <-.
  unfold entry_sound, c4_s in *. vm_compute. vm_compute in Hn. repeat split; try discriminate. exact Hn.
Qed.

Lemma c4_ex_events_sound rt : events_sound b_ex_env (c4_ex_events rt 1002).
Proof.
  unfold events_sound, c4_ex_events.
  repeat (apply Forall_cons; [split; [reflexivity|cbn [ev_st ev_now]; first [apply inst_ok_fresh|apply c4_inst_b_ok; vm_compute; discriminate]]|]).
  apply Forall_nil.
Qed.

Example c4_ex_steady :
  let run := browser_run b_ex_env b_ex_cfg [] (c4_ex_events 80 1002) in
  nondecreasing 0%Z (c4_ex_events 80 1002) = true
  /\ no_timeout b_ex_cfg run = true
  /\ c04_browser b_ex_env b_ex_cfg None run = true
  /\ map (fun s => stored_by b_ex_env b_ex_cfg s) run = [None; Some 50; None; None]
  /\ map (fun s => (r_status (w_obs s), forwarded (w_obs s), r_calls (w_obs s), r_cookies (w_obs s)))
         (skipn 2 run) = [(200, true, [], []); (200, true, [], [])]
  /\ map (fun s => comfortably_valid b_ex_env b_ex_cfg (w_now s) 50) (skipn 2 run) = [true; true].
Proof. vm_compute. repeat split. Qed.

(* nondecreasing is necessary: the third request is stamped 500 s, "before" the
   token's iat; the token is rejected, the refresh fails, the login restarts and
   clears the session; the fourth request (1003 s, token comfortably valid) is
   redirected *)
Example C04_needs_nondecreasing :
  let run := browser_run b_ex_env b_ex_cfg [] (c4_ex_events 80 500) in
  nondecreasing 0%Z (c4_ex_events 80 500) = false
  /\ no_timeout b_ex_cfg run = true
  /\ c04_browser b_ex_env b_ex_cfg None run = false
  /\ map (fun s => r_status (w_obs s)) run = [302; 302; 302; 302].
Proof. vm_compute. repeat split. Qed.

(* inst_ok is necessary: at 500 s token 50 is not yet valid, but the poisoned
   cache lets the callback accept and store it; the next request rejects it and
   restarts the login; at 1000 s the token is comfortably valid and the browser
   has no session *)
Definition c4_poisoned_events : list event :=
  [ mkEvent c4_inst_a (c4_s 500) (b_ex_req 30 0 0 [] []) (60, 61, 62) None;
    mkEvent c4_inst_poisoned (c4_s 501) (b_ex_req 31 60 70 [] []) (0, 0, 0) (Some (AOk 50 0));
    mkEvent c4_inst_a (c4_s 502) (b_ex_req 30 0 0 [] []) (63, 64, 65) None;
    mkEvent c4_inst_a (c4_s 1000) (b_ex_req 30 0 0 [] []) (66, 67, 68) None ].

Example C04_needs_inst_ok :
  let run := browser_run b_ex_env b_ex_cfg [] c4_poisoned_events in
  nondecreasing 0%Z c4_poisoned_events = true
  /\ no_timeout b_ex_cfg run = true
  /\ forallb (fun e => i_ready (ev_st e)) c4_poisoned_events = true
  /\ ~ inst_ok b_ex_env c4_inst_poisoned (c4_s 501)
  /\ map (fun s => stored_by b_ex_env b_ex_cfg s) run = [None; Some 50; None; None]
  /\ c04_browser b_ex_env b_ex_cfg None run = false.
Proof.
  split; [vm_compute; reflexivity|]. split; [vm_compute; reflexivity|]. split; [vm_compute; reflexivity|].
  split; [|vm_compute; split; reflexivity].
  intros H. destruct (H 50 (mkEntry 1 (5000 * 1000000000)%Z) eq_refl) as (_ & Hiat & _).
  vm_compute in Hiat. apply Hiat. reflexivity.
Qed.

(* no_timeout is necessary: token 16 lives 48 h; 25 h after the login the
   session is past the absolute timeout and is not served *)
Definition c4_timeout_events (t4 : Z) : list event :=
  [ mkEvent ex_inst (c4_s 500) (ex_req 5 []) (13, 12, 15) None;
    mkEvent ex_inst (c4_s 501) (ex_callback []) (0, 0, 0) (Some (AOk 16 0));
    mkEvent ex_inst (c4_s 502) (ex_req 5 []) (17, 18, 19) None;
    mkEvent ex_inst (c4_s t4) (ex_req 5 []) (20, 21, 22) None ].

Example C04_needs_no_timeout :
  let run t4 := browser_run exE excfg [] (c4_timeout_events t4) in
  nondecreasing 0%Z (c4_timeout_events 90502) = true
  /\ no_timeout excfg (run 80000%Z) = true
  /\ c04_browser exE excfg None (run 80000%Z) = true
  /\ map (fun s => r_status (w_obs s)) (run 80000%Z) = [302; 302; 200; 200]
  /\ no_timeout excfg (run 90502%Z) = false
  /\ comfortably_valid exE excfg (c4_s 90502) 16 = true
  /\ c04_browser exE excfg None (run 90502%Z) = false
  /\ map (fun s => r_status (w_obs s)) (run 90502%Z) = [302; 302; 200; 302].
Proof. vm_compute. repeat split. Qed.
