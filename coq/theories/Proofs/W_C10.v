(* Property C10, per step: Model/Middleware.serve satisfies Spec/WorldSpec.c10_step
   for every input: every identity header the downstream handler sees is derived
   from the effective token / e-mail, and no client-supplied value survives
   under an identity name. *)
From VF Require Import Base.Prelude Model.Cache Model.Session Model.Middleware Corr.WorldCorr Spec.WorldSpec.
From VF Require Import Proofs.CacheProofs Proofs.WorldBase Proofs.W_BLemmas.
From Coq Require Import ZifyBool ZifyNat ZifyN.
Open Scope N_scope.

Section C10.
  Variable E : env.
  Variable cfg : config.
  Notation NCE := (nchunks E).

  (* header_ok with the effective token and e-mail made explicit *)
  Definition b_hok (t : tval) (e : istr) (cv : N * hval) : bool :=
    let '(c, v) := cv in
    if N.leb 1000 c then negb (identity_hdr cfg (c - 1000))
    else if N.eqb c 1 || N.eqb c 2 then hval_eqb v (HStr e)
    else if N.eqb c 3 then match t with TTok s => hval_eqb v (HStr s) | _ => false end
    else if N.eqb c 4 then
      match t with
      | TTok s => match ti_groups (tok E s) with
                  | ClArr l => claims_well_typed E t && hval_eqb v (HList (strings_of l))
                  | _ => false
                  end
      | _ => false
      end
    else if N.eqb c 5 then
      match t with
      | TTok s => match ti_roles (tok E s) with
                  | ClArr l => claims_well_typed E t && hval_eqb v (HList (strings_of l))
                  | _ => false
                  end
      | _ => false
      end
    else if N.leb 100 c && N.ltb c 1000 then
      match t with
      | TTok s => match tmpl E (c - 100) s with Some x => hval_eqb v (HStr x) | None => false end
      | _ => false
      end
    else true.

  Lemma b_header_ok_eq now rq ans r cv :
    header_ok E cfg now rq ans r cv
    = b_hok (effective_token E cfg now rq ans r) (effective_email E cfg now rq ans r) cv.
  Proof. destruct cv as [c v]. reflexivity. Qed.

  Lemma b_hok_surviving t e rq :
    forallb (b_hok t e) (surviving_client_headers cfg rq) = true.
  Proof.
    unfold surviving_client_headers. apply forallb_forall. intros x Hin.
    apply in_map_iff in Hin. destruct Hin as (c & <- & Hc). apply filter_In in Hc. destruct Hc as [_ Hc].
    unfold b_hok. destruct (N.leb_spec 1000 (1000 + c)) as [_|Hlt]; [|lia].
    replace (1000 + c - 1000) with c by lia. exact Hc.
  Qed.

  Lemma b_hok_template s e n v :
    n < 900 -> tmpl E n s = Some v -> b_hok (TTok s) e (100 + n, HStr v) = true.
  Proof.
    intros Hn Ht. unfold b_hok.
    destruct (N.leb_spec 1000 (100 + n)) as [Hge|_]; [lia|].
    destruct (N.eqb_spec (100 + n) 1); [lia|]. destruct (N.eqb_spec (100 + n) 2); [lia|].
    destruct (N.eqb_spec (100 + n) 3); [lia|]. destruct (N.eqb_spec (100 + n) 4); [lia|].
    destruct (N.eqb_spec (100 + n) 5); [lia|]. cbn [orb].
    destruct (N.leb_spec 100 (100 + n)) as [_|Hlt]; [|lia].
    destruct (N.ltb_spec (100 + n) 1000) as [_|Hge]; [|lia]. cbn [andb].
    replace (100 + n - 100) with n by lia. rewrite Ht. apply b_hval_eqb_refl.
  Qed.

  (* the groups / roles headers *)
  Lemma b_hok_groups_roles s e h0 :
    forallb (b_hok (TTok s) e) h0 = true ->
    forallb (b_hok (TTok s) e)
            match groups_roles E (TTok s) with
            | Some (g, r) =>
                let hg := match g with [] => h0 | _ => insert_hdr 4 (HList g) h0 end in
                match r with [] => hg | _ => insert_hdr 5 (HList r) hg end
            | None => h0
            end = true.
  Proof.
    intros H0. unfold groups_roles.
    destruct (ti_claims (tok E s)) eqn:Ecl; [|exact H0].
    assert (H4 : forall l, ti_groups (tok E s) = ClArr l -> ti_roles (tok E s) <> ClNotArray ->
                           b_hok (TTok s) e (4, HList (strings_of l)) = true).
    { intros l Hg Hr. unfold b_hok, claims_well_typed. cbn [N.leb N.eqb N.compare Pos.compare Pos.compare_cont Pos.eqb orb].
      rewrite Hg, Ecl. destruct (ti_roles (tok E s)); [|contradiction|]; apply b_hval_eqb_refl. }
    assert (H5 : forall l, ti_roles (tok E s) = ClArr l -> ti_groups (tok E s) <> ClNotArray ->
                           b_hok (TTok s) e (5, HList (strings_of l)) = true).
    { intros l Hr Hg. unfold b_hok, claims_well_typed. cbn [N.leb N.eqb N.compare Pos.compare Pos.compare_cont Pos.eqb orb].
      rewrite Hr, Ecl. destruct (ti_groups (tok E s)); [|contradiction|]; apply b_hval_eqb_refl. }
    destruct (ti_groups (tok E s)) as [| |lg] eqn:Eg; destruct (ti_roles (tok E s)) as [| |lr] eqn:Er;
      cbn [shape_strings]; try exact H0; cbv zeta.
    - destruct (strings_of lr) eqn:Es; [exact H0|]. rewrite <- Es.
      apply b_forallb_insert; [apply H5; [reflexivity|discriminate]|exact H0].
    - destruct (strings_of lg) eqn:Es; [exact H0|]. rewrite <- Es.
      apply b_forallb_insert; [apply H4; [reflexivity|discriminate]|exact H0].
    - assert (Hg : forallb (b_hok (TTok s) e)
                           match strings_of lg with [] => h0 | _ :: _ => insert_hdr 4 (HList (strings_of lg)) h0 end = true).
      { destruct (strings_of lg) eqn:Es; [exact H0|]. rewrite <- Es.
        apply b_forallb_insert; [apply H4; [reflexivity|discriminate]|exact H0]. }
      destruct (strings_of lr) eqn:Es; [exact Hg|]. rewrite <- Es.
      apply b_forallb_insert; [apply H5; [reflexivity|discriminate]|exact Hg].
  Qed.

  Lemma b_headers_ok rq sd s :
    cfg_ok cfg -> get_access NCE sd = TTok s ->
    forallb (b_hok (TTok s) (get_str 6 (s_main sd))) (b_headers E cfg rq sd) = true.
  Proof.
    intros Hcfg Ht. unfold b_headers. rewrite Ht. cbv zeta.
    apply b_forallb_templates.
    - intros s' n v Hs Hin Htm. injection Hs as <-.
      apply b_hok_template; [apply (co_templates cfg Hcfg), Hin|exact Htm].
    - apply b_forallb_insert; [unfold b_hok; cbn; apply N.eqb_refl|].
      apply b_forallb_insert; [reflexivity|].
      apply b_forallb_insert; [unfold b_hok; cbn; apply N.eqb_refl|].
      apply b_forallb_insert; [unfold b_hok; cbn; apply N.eqb_refl|].
      apply b_hok_groups_roles, b_hok_surviving.
  Qed.

  Lemma b_c10_nofwd now rq ans r : r_fwd r = None -> c10_step E cfg now rq ans r = true.
  Proof. intros H. unfold c10_step. rewrite H. destruct (gated E cfg rq); reflexivity. Qed.

  Lemma b_c10_not_gated now rq ans r : gated E cfg rq = false -> c10_step E cfg now rq ans r = true.
  Proof. intros H. unfold c10_step. rewrite H. reflexivity. Qed.

  Theorem c10_serve st now rq rnd ans :
    env_ok E -> cfg_ok cfg -> i_ready st = true ->
    c10_step E cfg now rq ans (snd (serve E cfg st now rq rnd ans)) = true.
  Proof.
    intros HE Hcfg Hready. pose proof (eo_chunks E HE) as Hpos.
    apply (b_serve_cases E cfg st now rq rnd ans
             (fun x => c10_step E cfg now rq ans (snd x) = true) Hready); cbn [snd].
    - intros Hex. apply b_c10_not_gated. unfold gated. rewrite Hex. reflexivity.
    - intros _ _. destruct (b_logout_shape E cfg rq st (carried cfg now rq)) as (loc & ->).
      apply b_c10_nofwd. reflexivity.
    - intros _ _ Hcb. apply b_c10_not_gated. unfold gated. rewrite Hcb. cbn [negb]. rewrite andb_false_r. reflexivity.
    - intros _. unfold handle_expired. apply b_c10_nofwd, b_initiate_fwd.
    - intros Hg t Ht.
      apply (b_pa_cases E cfg rq rnd st (carried cfg now rq) [] []
               (fun r => c10_step E cfg now rq ans r = true)).
      + intros _. apply b_c10_nofwd, b_initiate_fwd.
      + intros m _ _. apply b_c10_nofwd. reflexivity.
      + intros _ _ _ _ _. apply b_c10_nofwd. reflexivity.
      + intros cors _ _ _. unfold c10_step. rewrite Hg. cbn [r_fwd].
        set (r := mkResp _ _ _ _ _ _ _ _).
        assert (He : effective_email E cfg now rq ans r = get_str 6 (s_main (carried cfg now rq)))
          by (unfold effective_email; cbn [r_calls r]; destruct ans as [[?|? ?]|]; reflexivity).
        assert (Het : effective_token E cfg now rq ans r = TTok t)
          by (unfold effective_token, session_token, NCm; cbn [r_calls r]; destruct ans as [[?|? ?]|]; exact Ht).
        erewrite b_forallb_ext; [|intros cv; rewrite b_header_ok_eq, He, Het; reflexivity].
        apply b_headers_ok; assumption.
    - intros Hg Hrt. set (sd := carried cfg now rq) in *.
      unfold b_refresh_branch.
      destruct (b_refresh_okb E st now ans) eqn:Eok.
      + destruct (b_refresh_ok E st now sd ans Hrt Eok) as (id & newrt & Hans & Hid & Hem & Hv & ->).
        subst ans. cbn [snd].
        assert (Hmail : get_str 6 (s_main (after_save (b_refreshed E now id newrt sd))) = ti_email (tok E id))
          by (rewrite b_main_after_save; apply b_refreshed_email; exact Hpos).
        assert (Hacc : get_access NCE (after_save (b_refreshed E now id newrt sd)) = TTok id)
          by (rewrite b_get_access_after_save; apply b_refreshed_access; assumption).
        apply (b_pa_cases E cfg rq rnd _ (after_save (b_refreshed E now id newrt sd))
                 (save_cookies (b_refreshed E now id newrt sd)) [PRefresh (get_refresh NCE sd)]
                 (fun r => c10_step E cfg now rq (Some (AOk id newrt)) r = true)).
        * intros _. apply b_c10_nofwd, b_initiate_fwd.
        * intros m _ _. apply b_c10_nofwd. reflexivity.
        * intros _ _ _ _ _. apply b_c10_nofwd. reflexivity.
        * intros cors _ _ _. unfold c10_step. rewrite Hg. cbn [r_fwd].
          erewrite b_forallb_ext; [|intros cv; rewrite b_header_ok_eq; unfold effective_email, effective_token;
                                   cbn [r_calls]; rewrite <- Hmail; reflexivity].
          apply b_headers_ok; assumption.
      + destruct (b_refresh_fail E st now sd ans Hrt Eok) as (st1 & Hurl & ->).
        destruct (q_json rq); cbn [snd]; [apply b_c10_nofwd; reflexivity|apply b_c10_nofwd, b_initiate_fwd].
    - intros _. apply b_c10_nofwd, b_initiate_fwd.
  Qed.
End C10.
