(* Property C08, per step: Model/Middleware.serve satisfies Spec/WorldSpec.c08_step
   for every input: a due refresh makes exactly one refresh grant with the stored
   refresh token; a good answer is stored and served under the new identity, a
   bad one ends the session's use (401 / login redirect) and an invalid refresh
   token is removed. *)
From VF Require Import Base.Prelude Model.Cache Model.Session Model.Middleware Corr.WorldCorr Spec.WorldSpec.
From VF Require Import Proofs.CacheProofs Proofs.WorldBase Proofs.W_BLemmas.
From Coq Require Import ZifyBool ZifyNat ZifyN.
Open Scope N_scope.

Section C08.
  Variable E : env.
  Variable cfg : config.
  Notation NCE := (nchunks E).

  (* under the premises, refreshToken succeeds exactly on a good answer *)
  Lemma b_okb_good st now ans :
    env_ok E -> inst_ok E st now ->
    (forall id rt, ans = Some (AOk id rt) -> fresh_for E st id) ->
    b_refresh_okb E st now ans = refresh_answer_good E now ans.
  Proof.
    intros HE Hinst Hfresh. unfold b_refresh_okb, refresh_answer_good.
    destruct ans as [[ig|id rt]|]; try reflexivity.
    destruct (accept_at now (tok E id)) eqn:Eacc.
    - rewrite (b_verify_complete E st now id (Hfresh id rt eq_refl) Eacc).
      assert (Hst : ti_static (tok E id) = true).
      { unfold accept_at in Eacc. destruct (ti_static (tok E id)); [reflexivity|discriminate]. }
      rewrite (eo_claims E HE id Hst). rewrite !andb_true_r. reflexivity.
    - destruct (snd (verify_token E st now id)) eqn:Ev.
      + rewrite (b_verify_sound E st now id Hinst Ev) in Eacc. discriminate.
      + rewrite !andb_false_r. reflexivity.
  Qed.

  Lemma b_headers_lookup rq sd s :
    get_access NCE sd = TTok s ->
    hdr 1 (b_headers E cfg rq sd) = Some (HStr (get_str 6 (s_main sd)))
    /\ hdr 2 (b_headers E cfg rq sd) = Some (HStr (get_str 6 (s_main sd)))
    /\ hdr 3 (b_headers E cfg rq sd) = Some (HStr s).
  Proof.
    intros Ht. unfold hdr, b_headers. rewrite Ht. cbv zeta.
    rewrite !b_lookup_templates by lia.
    split; [|split].
    - rewrite (b_lookup_insert_other 3 1), (b_lookup_insert_other 6 1), (b_lookup_insert_other 2 1) by discriminate.
      apply b_lookup_insert_same.
    - rewrite (b_lookup_insert_other 3 2), (b_lookup_insert_other 6 2) by discriminate.
      apply b_lookup_insert_same.
    - apply b_lookup_insert_same.
  Qed.

  (* the login redirect issued right after a session was saved carries no refresh token *)
  Lemma b_initiate_rt rq rnd st sd calls :
    emitted_rt E (initiate cfg rq rnd st (after_save sd) (save_cookies sd) calls) = Some TEmpty.
  Proof.
    destruct (b_initiate_shape cfg rq rnd st (after_save sd) (save_cookies sd) calls)
      as (sd4 & -> & _ & Href & Hrch & _).
    unfold emitted_rt, emitted_token. cbn [r_cookies].
    rewrite !b_payload_of_app, b_po_save_ref, Href. f_equal.
    apply b_read_token_empty. apply b_chunk_payloads_all.
    intros j p. rewrite !b_payload_of_app, !b_po_save_ref_chunk, Hrch.
    cbn [b_cleared after_save s_rchunks].
    destruct (nth_error (empty_payloads (s_rchunks sd)) j) as [q|] eqn:En.
    - intros H; injection H as <-. eapply b_nth_error_empty_payloads, En.
    - apply nth_error_None in En. unfold empty_payloads in En. rewrite map_length in En.
      rewrite (proj2 (nth_error_None (s_rchunks sd) j) En). discriminate.
  Qed.

  Theorem c08_serve st now rq rnd ans :
    env_ok E -> cfg_ok cfg -> inst_ok E st now -> i_ready st = true ->
    (forall id rt, ans = Some (AOk id rt) -> fresh_for E st id) ->
    c08_step E cfg (i_auth_url st) now rq ans (snd (serve E cfg st now rq rnd ans)) = true.
  Proof.
    intros HE Hcfg Hinst Hready Hfresh. pose proof (eo_chunks E HE) as Hpos.
    unfold c08_step.
    destruct (gated E cfg rq && refresh_due E cfg now rq) eqn:Hgd; [|reflexivity].
    apply andb_prop in Hgd. destruct Hgd as [Hg Hdue].
    rewrite (b_serve_due E cfg st now rq rnd ans Hready Hg Hdue).
    unfold session_refresh, NCm. set (sd := carried cfg now rq) in *.
    assert (Hrt : get_refresh NCE sd <> TEmpty).
    { unfold refresh_due, session_refresh, NCm in Hdue. fold sd in Hdue.
      apply andb_prop in Hdue. destruct Hdue as [Hdue _]. apply andb_prop in Hdue. destruct Hdue as [_ Hdue].
      intros H0. rewrite H0 in Hdue. discriminate. }
    rewrite <- (b_okb_good st now ans HE Hinst Hfresh).
    unfold b_refresh_branch.
    destruct (b_refresh_okb E st now ans) eqn:Eok.
    - (* a good answer *)
      destruct (b_refresh_ok E st now sd ans Hrt Eok) as (id & newrt & Hans & Hid & Hem & Hv & ->).
      subst ans. cbn [snd].
      set (sdR := b_refreshed E now id newrt sd).
      assert (Hmail : get_str 6 (s_main (after_save sdR)) = ti_email (tok E id))
        by (rewrite b_main_after_save; apply b_refreshed_email; exact Hpos).
      assert (Hacc : get_access NCE (after_save sdR) = TTok id)
        by (rewrite b_get_access_after_save; apply b_refreshed_access; assumption).
      rewrite b_pa_eq by (rewrite Hmail; exact Hem). rewrite Hmail, Hacc.
      (* what every response of this branch has in common *)
      assert (Hcommon : forall r, r_cookies r = save_cookies sdR -> r_calls r = [PRefresh (get_refresh NCE sd)] ->
                match r_calls r with
                | [PRefresh rt] => tval_eqb rt (get_refresh NCE sd)
                | _ => false
                end
                && (emits_auth r
                    && match emitted_id E r with Some (TTok t) => N.eqb t id | _ => false end
                    && match emitted_rt E r with
                       | Some t => tval_eqb t (if N.eqb newrt 0 then get_refresh NCE sd else TTok newrt)
                       | None => false
                       end) = true).
      { intros r Hc Hcalls. rewrite Hcalls, b_tval_eqb_refl.
        unfold emits_auth. rewrite (b_emitted_main_save0 r sdR Hc).
        rewrite (b_emitted_id_save E r sdR Hc), (b_emitted_rt_save E r sdR Hc).
        unfold sdR. rewrite b_refreshed_auth, b_refreshed_access, b_refreshed_refresh by assumption.
        rewrite N.eqb_refl, b_tval_eqb_refl. reflexivity. }
      destruct (domain_ok E cfg (ti_email (tok E id))) eqn:Hd; cbn [negb andb].
      + destruct (roles_ok E cfg (TTok id)) eqn:Hr; cbn [negb].
        * destruct (negb (N.eqb (q_origin rq) 0) && q_options rq) eqn:Hpre.
          -- set (r := mkResp _ _ _ _ _ _ _ _).
             rewrite <- !andb_assoc. rewrite andb_assoc, andb_assoc, andb_assoc.
             rewrite <- (andb_assoc (match r_calls r with [PRefresh rt] => _ | _ => false end)).
             rewrite <- (andb_assoc (match r_calls r with [PRefresh rt] => _ | _ => false end)).
             rewrite (Hcommon r eq_refl eq_refl). cbn [r_fwd r andb].
             rewrite andb_comm. exact Hpre.
          -- set (r := mkResp _ _ _ _ _ _ _ _).
             rewrite <- !andb_assoc. rewrite andb_assoc, andb_assoc, andb_assoc.
             rewrite <- (andb_assoc (match r_calls r with [PRefresh rt] => _ | _ => false end)).
             rewrite <- (andb_assoc (match r_calls r with [PRefresh rt] => _ | _ => false end)).
             rewrite (Hcommon r eq_refl eq_refl). cbn [r_fwd r andb].
             destruct (b_headers_lookup rq (after_save sdR) id Hacc) as (H1 & H2 & H3).
             rewrite H1, H2, H3, Hmail, !N.eqb_refl. reflexivity.
        * set (r := send_error _ _ _ _ _).
          rewrite <- !andb_assoc. rewrite andb_assoc, andb_assoc, andb_assoc.
          rewrite <- (andb_assoc (match r_calls r with [PRefresh rt] => _ | _ => false end)).
          rewrite <- (andb_assoc (match r_calls r with [PRefresh rt] => _ | _ => false end)).
          rewrite (Hcommon r eq_refl eq_refl). reflexivity.
      + set (r := send_error _ _ _ _ _).
        rewrite <- !andb_assoc. rewrite andb_assoc, andb_assoc, andb_assoc.
        rewrite <- (andb_assoc (match r_calls r with [PRefresh rt] => _ | _ => false end)).
        rewrite <- (andb_assoc (match r_calls r with [PRefresh rt] => _ | _ => false end)).
        rewrite (Hcommon r eq_refl eq_refl). reflexivity.
    - (* anything else *)
      destruct (b_refresh_fail E st now sd ans Hrt Eok) as (st1 & Hurl & ->).
      destruct (q_json rq) eqn:Hjson; cbn [snd].
      + cbn [r_calls r_status forwarded r_fwd negb andb]. rewrite b_tval_eqb_refl. cbn [andb N.eqb Pos.eqb].
        assert (Hest : establishes E cfg now rq
                         (mkResp 401 None (b_fail_cs E ans sd) BJson401 None false [PRefresh (get_refresh NCE sd)] [])
                       = false).
        { unfold b_fail_cs. destruct ans as [[[|]|? ?]|];
            try (apply b_establishes_no_auth, b_emits_auth_nil; reflexivity).
          apply (b_establishes_same E cfg now rq _ sd Hpos eq_refl). reflexivity. }
        rewrite Hest. cbn [negb andb].
        destruct ans as [[[|]|? ?]|]; try reflexivity.
        cbn [b_fail_cs]. erewrite b_emitted_rt_save by reflexivity.
        rewrite b_get_refresh_set_refresh by exact Hpos. reflexivity.
      + rewrite b_initiate_calls, b_tval_eqb_refl. unfold forwarded. rewrite b_initiate_fwd.
        rewrite b_establishes_no_auth by apply b_initiate_emits.
        rewrite <- Hurl, b_initiate_redirect. cbn [negb andb].
        destruct ans as [[[|]|? ?]|]; try reflexivity.
        cbn [b_fail_sd b_fail_cs]. rewrite b_initiate_rt. reflexivity.
  Qed.
End C08.
