(* VerifyToken with its verification cache and blacklist (kernel of property
   C14), and the instance-state invariant along serve.
   Model: Model/Middleware.verify_token, Model/Cache.v.

   verify_token_sound      a `true` verdict (cache hit included) implies the token
                           is acceptable NOW
   verify_token_complete   a first presentation of an acceptable token is accepted
   inst_ok_verify / _mono / _serve   the invariant is preserved by every step and by time
   verify_token_endpoints / serve_endpoints   readiness and endpoints never change
   C14_ttl                 a cached verdict never outlives the token's own expiry
   C14_failed_not_cached   a rejected token is not cached *)
From VF Require Import Base.Prelude Model.Cache Model.Session Model.Middleware Corr.WorldCorr Spec.WorldSpec.
From VF Require Import Proofs.CacheProofs Proofs.WorldBase Proofs.ServeLemmas.
From Coq Require Import ZifyBool ZifyNat ZifyN.
Open Scope N_scope.

(* ================================================================== cache facts *)

Lemma get_miss now k c : lookup k (items c) = None -> get now k c = (c, None).
Proof. intros H. unfold get. rewrite H. reflexivity. Qed.

Lemma get_hit now k c c' v :
  get now k c = (c', Some v) -> exists e, lookup k (items c) = Some e /\ (now <= e_exp e)%Z.
Proof.
  unfold get. destruct (lookup k (items c)) as [e|]; [|discriminate].
  unfold expired. destruct (Z.ltb_spec (e_exp e) now); [discriminate|].
  intros _. exists e. split; [reflexivity|assumption].
Qed.

(* a lookup never adds anything *)
Lemma lookup_get_sub now k c k' e :
  lookup k' (items (fst (get now k c))) = Some e -> lookup k' (items c) = Some e.
Proof.
  unfold get. destruct (lookup k (items c)) as [e0|]; [|tauto].
  destruct (expired now e0); cbn [fst items]; [|tauto].
  rewrite lookup_remove. destruct (N.eqb k' k); [discriminate|tauto].
Qed.

(* after a miss the key is not held *)
Lemma lookup_get_none now k c :
  snd (get now k c) = None -> lookup k (items (fst (get now k c))) = None.
Proof.
  unfold get. destruct (lookup k (items c)) as [e0|] eqn:L; [|intros _; exact L].
  destruct (expired now e0); cbn [fst snd items]; [|discriminate].
  intros _. rewrite lookup_remove, N.eqb_refl. reflexivity.
Qed.

(* what a store leaves in the cache *)
Lemma lookup_set_cases now k v ttl c k' e :
  lookup k' (items (set now k v ttl c)) = Some e ->
  (k' = k /\ e = mkEntry v (now + ttl)%Z) \/ lookup k' (items c) = Some e.
Proof.
  unfold set. destruct (lookup k (items c)) as [e0|] eqn:L; cbn [items].
  - rewrite lookup_update, L. destruct (N.eqb_spec k' k) as [->|Hne]; [|tauto].
    intros H; injection H as <-. left. split; reflexivity.
  - set (c' := if Nat.leb (cap c) (length (items c)) then evict now c else c).
    assert (Hsub : forall x, lookup k' (items c') = Some x -> lookup k' (items c) = Some x).
    { intros x. subst c'. destruct (Nat.leb _ _); [apply lookup_evict_sub|tauto]. }
    rewrite lookup_app_new. destruct (lookup k' (items c')) as [x|] eqn:L'.
    + intros H; injection H as <-. right. apply Hsub. reflexivity.
    + destruct (N.eqb_spec k' k) as [->|Hne]; [|discriminate].
      intros H; injection H as <-. left. split; reflexivity.
Qed.

Lemma lookup_set_same now k v ttl c :
  lookup k (items (set now k v ttl c)) = Some (mkEntry v (now + ttl)%Z).
Proof.
  unfold set. destruct (lookup k (items c)) as [e0|] eqn:L; cbn [items].
  - rewrite lookup_update, L, N.eqb_refl. reflexivity.
  - set (c' := if Nat.leb (cap c) (length (items c)) then evict now c else c).
    assert (L' : lookup k (items c') = None).
    { subst c'. destruct (Nat.leb _ _); [|exact L].
      destruct (lookup k (items (evict now c))) eqn:Ev; [|reflexivity].
      apply lookup_evict_sub in Ev. congruence. }
    rewrite lookup_app_new, L', N.eqb_refl. reflexivity.
Qed.

(* ================================================================== verify_token *)

Section Verify.
  Variable E : env.

  (* the four ways VerifyToken ends *)
  Lemma verify_cases st now t (P : inst * bool -> Prop) :
    (* cache hit *)
    (forall v, snd (get now t (i_tcache st)) = Some v ->
       P (mkInst (i_ready st) (i_auth_url st) (i_end_session st) (fst (get now t (i_tcache st))) (i_black st), true)) ->
    (* rejected: blacklisted, replayed jti, or unacceptable *)
    (forall b, snd (get now t (i_tcache st)) = None ->
       P (mkInst (i_ready st) (i_auth_url st) (i_end_session st) (fst (get now t (i_tcache st))) b, false)) ->
    (* accepted and cached *)
    (forall b, snd (get now t (i_tcache st)) = None -> accept_at now (tok E t) = true ->
       P (mkInst (i_ready st) (i_auth_url st) (i_end_session st)
                 (set now t 1%Z (ti_exp (tok E t) * sec - now)%Z (fst (get now t (i_tcache st)))) b, true)) ->
    P (verify_token E st now t).
  Proof.
    intros Hhit Hrej Hacc. unfold verify_token.
    destruct (get now t (i_tcache st)) as [tc1 [v|]] eqn:Eg; cbn [fst snd] in *.
    - apply (Hhit v). reflexivity.
    - destruct (get now t (i_black st)) as [b1 [v|]]; [apply Hrej; reflexivity|].
      destruct (if N.eqb _ 0 then _ else _) as [b2 [v|]]; [apply Hrej; reflexivity|].
      destruct (accept_at now (tok E t)) eqn:Ha; [|apply Hrej; reflexivity].
      apply Hacc; reflexivity.
  Qed.

  Theorem verify_token_sound st now t :
    env_ok E -> inst_ok E st now -> snd (verify_token E st now t) = true -> accept_at now (tok E t) = true.
  Proof.
    intros _ Hok. apply (verify_cases st now t); cbn [snd].
    - intros v Hv _. destruct (get now t (i_tcache st)) as [tc1 o] eqn:Eg. cbn [snd] in Hv. subst o.
      apply get_hit in Eg. destruct Eg as (e & Hl & Hle).
      destruct (Hok _ _ Hl) as (Hs & Hiat & Hnbf & Hexp).
      unfold accept_at. rewrite Hs. unfold skew_future_s, skew_past_s, sec in *.
      destruct (ti_nbf (tok E t)) as [n|]; lia.
    - intros; discriminate.
    - intros b _ Ha _. exact Ha.
  Qed.

  Theorem verify_token_complete st now t :
    inst_ok E st now -> fresh_for E st t -> accept_at now (tok E t) = true ->
    snd (verify_token E st now t) = true.
  Proof.
    intros _ [Hraw Hjti] Hacc. unfold verify_token.
    destruct (get now t (i_tcache st)) as [tc1 [v|]]; [reflexivity|].
    rewrite (get_miss now t _ Hraw).
    set (jti := if ti_claims (tok E t) then ti_jti (tok E t) else 0).
    assert (Hg : (if N.eqb jti 0 then (i_black st, @None Z) else get now jti (i_black st)) = (i_black st, None)).
    { destruct (N.eqb_spec jti 0) as [|Hne]; [reflexivity|]. apply get_miss.
      subst jti. destruct (ti_claims (tok E t)); [|congruence].
      destruct Hjti as [H0|H]; [congruence|exact H]. }
    rewrite Hg, Hacc. reflexivity.
  Qed.

  (* the contrapositive, as used for the callback's 5xx answers *)
  Corollary verify_token_rejects st now t :
    inst_ok E st now -> fresh_for E st t -> snd (verify_token E st now t) = false ->
    accept_at now (tok E t) = false.
  Proof.
    intros Hok Hf Hv. destruct (accept_at now (tok E t)) eqn:Ha; [|reflexivity].
    rewrite (verify_token_complete st now t Hok Hf Ha) in Hv. discriminate.
  Qed.

  (* a freshly accepted token's cache entry satisfies the invariant *)
  Lemma entry_sound_new now t v :
    accept_at now (tok E t) = true ->
    entry_sound E now t (mkEntry v (now + (ti_exp (tok E t) * sec - now))%Z).
  Proof.
    unfold accept_at, entry_sound. intros Ha. cbn [e_exp].
    destruct (ti_static (tok E t)); [|discriminate]. cbn [andb] in Ha.
    unfold skew_future_s, skew_past_s, sec in *.
    destruct (ti_nbf (tok E t)) as [n|]; repeat split; lia.
  Qed.

  Theorem inst_ok_verify st now t :
    env_ok E -> inst_ok E st now -> inst_ok E (fst (verify_token E st now t)) now.
  Proof.
    intros _ Hok. apply (verify_cases st now t); cbn [fst].
    - intros v _ k e. cbn [i_tcache]. intros H. apply lookup_get_sub in H. apply Hok, H.
    - intros b _ k e. cbn [i_tcache]. intros H. apply lookup_get_sub in H. apply Hok, H.
    - intros b _ Ha k e. cbn [i_tcache]. intros H. apply lookup_set_cases in H.
      destruct H as [[-> ->]|H]; [apply entry_sound_new, Ha|].
      apply lookup_get_sub in H. apply Hok, H.
  Qed.

  Theorem inst_ok_mono st now now' :
    inst_ok E st now -> (now <= now')%Z -> inst_ok E st now'.
  Proof.
    intros Hok Hle k e H. destruct (Hok k e H) as (Hs & Hiat & Hnbf & Hexp).
    unfold entry_sound. repeat split; try assumption; [lia|].
    destruct (ti_nbf (tok E k)); [lia|exact I].
  Qed.

  Theorem verify_token_endpoints st now t :
    i_ready (fst (verify_token E st now t)) = i_ready st
    /\ i_auth_url (fst (verify_token E st now t)) = i_auth_url st
    /\ i_end_session (fst (verify_token E st now t)) = i_end_session st.
  Proof. apply (verify_cases st now t); intros; cbn; repeat split. Qed.

  (* every entry VerifyToken adds expires exactly at the token's own exp: an
     accept served from the cache never outlives the token *)
  Theorem C14_ttl st now t k e :
    lookup k (items (i_tcache (fst (verify_token E st now t)))) = Some e ->
    lookup k (items (i_tcache st)) = Some e
    \/ (k = t /\ e_exp e = (ti_exp (tok E t) * sec)%Z /\ accept_at now (tok E t) = true
        /\ snd (verify_token E st now t) = true).
  Proof.
    apply (verify_cases st now t); cbn [fst snd i_tcache].
    - intros v _ H. left. apply lookup_get_sub in H. exact H.
    - intros b _ H. left. apply lookup_get_sub in H. exact H.
    - intros b _ Ha H. apply lookup_set_cases in H. destruct H as [[-> ->]|H].
      + right. cbn [e_exp]. repeat split; [lia|exact Ha].
      + left. apply lookup_get_sub in H. exact H.
  Qed.

  (* a rejected token is not cached: the verification cache is what the
     initial lookup left of it, and holds nothing for t *)
  Theorem C14_failed_not_cached st now t :
    snd (verify_token E st now t) = false ->
    i_tcache (fst (verify_token E st now t)) = fst (get now t (i_tcache st))
    /\ lookup t (items (i_tcache (fst (verify_token E st now t)))) = None
    /\ (forall k e, lookup k (items (i_tcache (fst (verify_token E st now t)))) = Some e ->
                    lookup k (items (i_tcache st)) = Some e).
  Proof.
    apply (verify_cases st now t); cbn [fst snd i_tcache]; try (intros; discriminate).
    intros b Hmiss _. split; [reflexivity|]. split; [apply lookup_get_none, Hmiss|].
    intros k e H. apply lookup_get_sub in H. exact H.
  Qed.
End Verify.

(* ================================================================== serve *)

Section ServeState.
  Variable E : env.
  Variable cfg : config.

  (* the only thing serve ever does to the instance state is call VerifyToken *)
  Lemma serve_state st now rq rnd ans :
    fst (serve E cfg st now rq rnd ans) = st
    \/ exists id, fst (serve E cfg st now rq rnd ans) = fst (verify_token E st now id).
  Proof.
    destruct (i_ready st) eqn:Hr.
    - apply (serve_cases E cfg st now rq rnd ans); try exact Hr; try (intros; left; reflexivity).
      + intros _ _ _. apply (cb_cases E cfg rq st now (carried cfg now rq) ans);
          intros; cbn [fst]; solve [left; reflexivity | right; eexists; reflexivity].
      + intros _ _ st' [->|[id ->]]; cbn [fst]; [left; reflexivity|right; eexists; reflexivity].
      + intros _ _ id newrt _ _ _ _ _. right. exists id. reflexivity.
    - left. unfold serve. rewrite Hr. reflexivity.
  Qed.

  Theorem inst_ok_serve st now rq rnd ans :
    env_ok E -> inst_ok E st now -> inst_ok E (fst (serve E cfg st now rq rnd ans)) now.
  Proof.
    intros He Hok. destruct (serve_state st now rq rnd ans) as [->|[id ->]]; [exact Hok|].
    apply inst_ok_verify; assumption.
  Qed.

  Theorem serve_endpoints st now rq rnd ans :
    i_ready (fst (serve E cfg st now rq rnd ans)) = i_ready st
    /\ i_auth_url (fst (serve E cfg st now rq rnd ans)) = i_auth_url st
    /\ i_end_session (fst (serve E cfg st now rq rnd ans)) = i_end_session st.
  Proof.
    destruct (serve_state st now rq rnd ans) as [->|[id ->]]; [repeat split|].
    apply verify_token_endpoints.
  Qed.
End ServeState.

(* ================================================================== RevokeToken, histories *)

From VF Require Import Model.Revoke.

(* ---- more cache facts: sizes, and what survives a lookup / a store *)

Lemma remove_assoc_length {V} k (l : list (key * V)) : (length (remove_assoc k l) <= length l)%nat.
Proof. induction l as [|[a w] l IH]; cbn; [lia|]. destruct (N.eqb k a); cbn; lia. Qed.

Lemma update_length {V} k (v : V) l : length (update k v l) = length l.
Proof. induction l as [|[a w] l IH]; cbn; [reflexivity|]. destruct (N.eqb k a); cbn; congruence. Qed.

Lemma get_cap now k c : cap (fst (get now k c)) = cap c.
Proof. unfold get. destruct (lookup k (items c)) as [e|]; [|reflexivity]. destruct (expired now e); reflexivity. Qed.

Lemma get_length now k c : (length (items (fst (get now k c))) <= length (items c))%nat.
Proof.
  unfold get. destruct (lookup k (items c)) as [e|]; [|cbn; lia].
  destruct (expired now e); cbn [fst items remove]; [apply remove_assoc_length|lia].
Qed.

Lemma set_cap now k v ttl c : cap (set now k v ttl c) = cap c.
Proof.
  unfold set. destruct (lookup k (items c)); [reflexivity|].
  destruct (Nat.leb _ _); cbn [cap]; [apply evict_cap|reflexivity].
Qed.

Lemma evict_length now c : (length (items (evict now c)) <= length (items c))%nat.
Proof.
  destruct (evict_cases now c) as [->|[k [_ ->]]]; [lia|]. cbn [remove items]. apply remove_assoc_length.
Qed.

Lemma set_length now k v ttl c : (length (items (set now k v ttl c)) <= S (length (items c)))%nat.
Proof.
  unfold set. destruct (lookup k (items c)); cbn [items].
  - rewrite update_length. lia.
  - rewrite app_length. cbn [length]. destruct (Nat.leb _ _); [generalize (evict_length now c)|]; lia.
Qed.

(* a store into a cache that is not full evicts nothing *)
Lemma lookup_set_other_room now k v ttl c k' :
  (length (items c) < cap c)%nat -> k' <> k ->
  lookup k' (items (set now k v ttl c)) = lookup k' (items c).
Proof.
  intros Hroom Hne. unfold set. destruct (lookup k (items c)) as [e0|] eqn:L; cbn [items].
  - rewrite lookup_update. destruct (N.eqb_spec k' k); [contradiction|reflexivity].
  - replace (Nat.leb (cap c) (length (items c))) with false by (symmetry; apply Nat.leb_gt; exact Hroom).
    rewrite lookup_app_new. destruct (lookup k' (items c)); [reflexivity|].
    destruct (N.eqb_spec k' k); [contradiction|reflexivity].
Qed.

(* a lookup drops an entry only when it is the looked-up key and has expired *)
Lemma lookup_get_keep now k c k' e :
  lookup k' (items c) = Some e ->
  lookup k' (items (fst (get now k c))) = Some e \/ (k = k' /\ (e_exp e < now)%Z).
Proof.
  intros L. unfold get. destruct (lookup k (items c)) as [e0|] eqn:L0; [|left; exact L].
  unfold expired. destruct (Z.ltb_spec (e_exp e0) now) as [Hx|Hx]; cbn [fst items]; [|left; exact L].
  rewrite lookup_remove. destruct (N.eqb_spec k' k) as [->|Hne]; [|left; exact L].
  right. split; [reflexivity|]. congruence.
Qed.

Lemma get_none_expired now k c e :
  snd (get now k c) = None -> lookup k (items c) = Some e -> (e_exp e < now)%Z.
Proof.
  unfold get. intros H L. rewrite L in H. unfold expired in H.
  destruct (Z.ltb_spec (e_exp e) now); [assumption|discriminate].
Qed.

Section RevokeProofs.
  Variable E : env.

  Lemma revoke_endpoints st now t :
    i_ready (revoke E st now t) = i_ready st
    /\ i_auth_url (revoke E st now t) = i_auth_url st
    /\ i_end_session (revoke E st now t) = i_end_session st.
  Proof. repeat split. Qed.

  Lemma inst_ok_revoke st now now' t : inst_ok E st now' -> inst_ok E (revoke E st now t) now'.
  Proof.
    intros Hok k e. unfold revoke, delete. cbn [i_tcache]. rewrite lookup_remove.
    destruct (N.eqb k t); [discriminate|]. apply Hok.
  Qed.

  (* ---------------------------------------------------------------- soundness along histories *)

  (* along every history with non-decreasing time, from any state satisfying
     the invariant, a `true` verdict implies the token is acceptable at that instant *)
  Theorem vrun_sound h : forall st now,
    env_ok E -> inst_ok E st now -> waits_nonneg h = true ->
    forall now' t, In (now', t, true) (vrun E st now h) -> accept_at now' (tok E t) = true.
  Proof.
    induction h as [|s h IH]; intros st now He Hok Hw now' t Hin; [contradiction|].
    cbn [waits_nonneg forallb] in Hw. apply andb_prop in Hw. destruct Hw as [Hs Hw].
    destruct s as [u|u|d]; cbn [vrun] in Hin.
    - destruct Hin as [Heq|Hin].
      + injection Heq as <- <- Hv. apply (verify_token_sound E st now u He Hok Hv).
      + apply (IH _ now He (inst_ok_verify E st now u He Hok) Hw now' t Hin).
    - apply (IH _ now He (inst_ok_revoke st now now u Hok) Hw now' t Hin).
    - cbn [wait_ok] in Hs. apply Z.leb_le in Hs.
      apply (IH st (now + d)%Z He (inst_ok_mono E st now (now + d)%Z Hok ltac:(lia)) Hw now' t Hin).
  Qed.

  Corollary vrun_sound_fresh ready a e now h :
    env_ok E -> waits_nonneg h = true ->
    forall now' t, In (now', t, true) (vrun E (fresh_inst ready a e) now h) -> accept_at now' (tok E t) = true.
  Proof. intros He Hw. apply (vrun_sound h _ now He (inst_ok_fresh E ready a e now) Hw). Qed.

  (* ---------------------------------------------------------------- a revoked token *)

  (* what RevokeToken establishes and every later call keeps: the token is not
     in the verification cache, and (when it could ever be accepted at all) its
     blacklist entry outlives its acceptance window — or that window is over *)
  Definition covered (b : cache) (t : istr) (now : time) : Prop :=
    (exists e, lookup t (items b) = Some e /\ (dead_line E t <= e_exp e)%Z) \/ (dead_line E t < now)%Z.

  Definition banned (st : inst) (t : istr) (now : time) : Prop :=
    lookup t (items (i_tcache st)) = None
    /\ (ti_static (tok E t) = true -> covered (i_black st) t now).

  (* the blacklist has room for n more entries: nothing will be evicted *)
  Definition room (st : inst) (n : nat) : Prop :=
    (length (items (i_black st)) + n <= cap (i_black st))%nat.

  Lemma covered_mono b t now now' : (now <= now')%Z -> covered b t now -> covered b t now'.
  Proof. intros Hle [H|H]; [left; exact H|right; lia]. Qed.

  Lemma banned_mono st t now now' : (now <= now')%Z -> banned st t now -> banned st t now'.
  Proof.
    intros Hle [H1 H2]. split; [exact H1|]. intros Hs. apply (covered_mono _ t now now' Hle), H2, Hs.
  Qed.

  Lemma covered_get b t now k : covered b t now -> covered (fst (get now k b)) t now.
  Proof.
    intros [(e & L & Hd)|H]; [|right; exact H].
    destruct (lookup_get_keep now k b t e L) as [L'|[_ Hx]]; [left; eauto|right; lia].
  Qed.

  Lemma covered_miss b t now : covered b t now -> snd (get now t b) = None -> (dead_line E t < now)%Z.
  Proof.
    intros [(e & L & Hd)|H] Hm; [|exact H].
    generalize (get_none_expired now t b e Hm L). lia.
  Qed.

  Lemma covered_set_other b t now k v ttl :
    (length (items b) < cap b)%nat -> k <> t -> covered b t now -> covered (set now k v ttl b) t now.
  Proof.
    intros Hroom Hne [(e & L & Hd)|H]; [|right; exact H].
    left. exists e. rewrite lookup_set_other_room by (try exact Hroom; congruence). split; assumption.
  Qed.

  Lemma dead_not_accepted t now : (dead_line E t < now)%Z -> accept_at now (tok E t) = false.
  Proof.
    unfold dead_line, accept_at. intros H.
    destruct (Z.ltb_spec ((ti_exp (tok E t) + skew_future_s) * sec) now); [|lia].
    cbn [negb]. rewrite andb_false_r. reflexivity.
  Qed.

  Lemma banned_revoke st now t : banned (revoke E st now t) t now.
  Proof.
    split.
    - unfold revoke, delete. cbn [i_tcache]. rewrite lookup_remove, N.eqb_refl. reflexivity.
    - intros Hs. left. unfold revoke. cbn [i_black]. rewrite lookup_set_same.
      eexists. split; [reflexivity|]. cbn [e_exp]. unfold revoke_ttl. rewrite Hs. lia.
  Qed.

  (* a banned token is rejected, at that instant, whatever else the state holds *)
  Theorem banned_rejects st t now : banned st t now -> snd (verify_token E st now t) = false.
  Proof.
    intros [Hc Hb]. unfold verify_token. rewrite (get_miss now t _ Hc).
    destruct (get now t (i_black st)) as [b1 [v|]] eqn:Eg; [reflexivity|].
    destruct (if N.eqb _ 0 then _ else _) as [b2 [v|]]; [reflexivity|].
    replace (accept_at now (tok E t)) with false; [reflexivity|]. symmetry.
    destruct (ti_static (tok E t)) eqn:Hs.
    - apply dead_not_accepted. apply (covered_miss (i_black st) t now (Hb eq_refl)). rewrite Eg. reflexivity.
    - unfold accept_at. rewrite Hs. reflexivity.
  Qed.

  (* what VerifyToken of any token u does to the blacklist, seen from t: the
     cover of t survives, at most one entry is added, the capacity is kept —
     provided the blacklist is not full (otherwise the store may evict t) *)
  Lemma verify_black st t u now :
    env_ok E -> (ti_static (tok E t) = true -> covered (i_black st) t now) ->
    (length (items (i_black st)) < cap (i_black st))%nat ->
    (ti_static (tok E t) = true -> covered (i_black (fst (verify_token E st now u))) t now)
    /\ (length (items (i_black (fst (verify_token E st now u)))) <= S (length (items (i_black st))))%nat
    /\ cap (i_black (fst (verify_token E st now u))) = cap (i_black st).
  Proof.
    intros He Hb Hroom.
    set (b0 := i_black st) in *.
    set (G := fun b : cache => (ti_static (tok E t) = true -> covered b t now)
                               /\ (length (items b) <= length (items b0))%nat /\ cap b = cap b0).
    assert (G0 : G b0) by (subst G; cbn beta; repeat split; [exact Hb|lia]).
    assert (Gget : forall b k, G b -> G (fst (get now k b))).
    { intros b k (H1 & H2 & H3). subst G; cbn beta. split; [|split].
      - intros Hs. apply covered_get, H1, Hs.
      - generalize (get_length now k b). lia.
      - rewrite get_cap. exact H3. }
    assert (Gfin : forall b, G b ->
              (ti_static (tok E t) = true -> covered b t now)
              /\ (length (items b) <= S (length (items b0)))%nat /\ cap b = cap b0).
    { intros b (H1 & H2 & H3). repeat split; [exact H1|lia|exact H3]. }
    unfold verify_token. cbv zeta. fold b0.
    destruct (get now u (i_tcache st)) as [tc1 [v|]]; cbn [fst i_black]; [apply Gfin, G0|].
    destruct (get now u b0) as [b1 raw] eqn:Eg1.
    assert (G1 : G b1) by (replace b1 with (fst (get now u b0)) by (rewrite Eg1; reflexivity); apply Gget, G0).
    destruct raw as [v|]; cbn [fst i_black]; [apply Gfin, G1|].
    destruct (accept_at now (tok E u)) eqn:Ha.
    - (* accepted: the claims were extracted, so the jti looked up is the jti stored *)
      assert (Hcl : ti_claims (tok E u) = true).
      { apply (eo_claims E He). unfold accept_at in Ha. destruct (ti_static (tok E u)); [reflexivity|discriminate]. }
      rewrite Hcl. destruct (N.eqb_spec (ti_jti (tok E u)) 0) as [Hj0|Hj0]; cbn [fst i_black]; [apply Gfin, G1|].
      destruct (get now (ti_jti (tok E u)) b1) as [b2 seen] eqn:Eg2.
      assert (G2 : G b2)
        by (replace b2 with (fst (get now (ti_jti (tok E u)) b1)) by (rewrite Eg2; reflexivity); apply Gget, G1).
      destruct seen as [v|]; cbn [fst i_black]; [apply Gfin, G2|].
      destruct G2 as (H1 & H2 & H3). split; [|split].
      + intros Hs. destruct (N.eq_dec (ti_jti (tok E u)) t) as [Heq|Hne].
        * (* the jti IS the revoked string: it was looked up and missed, so its cover had lapsed *)
          right. apply (covered_miss b1 t now (proj1 G1 Hs)). rewrite <- Heq, Eg2. reflexivity.
        * apply covered_set_other; [lia|exact Hne|exact (H1 Hs)].
      + generalize (set_length now (ti_jti (tok E u)) 1%Z day b2). lia.
      + rewrite set_cap. exact H3.
    - (* rejected: only lookups touched the blacklist *)
      match goal with |- context [if N.eqb ?j 0 then (b1, None) else _] => destruct (N.eqb j 0) end;
        cbn [fst i_black]; [apply Gfin, G1|].
      match goal with |- context [get now ?j b1] => destruct (get now j b1) as [b2 seen] eqn:Eg2 end.
      assert (G2 : G b2) by (apply (f_equal fst) in Eg2; cbn [fst] in Eg2; rewrite <- Eg2; apply Gget, G1).
      destruct seen as [v|]; cbn [fst i_black]; apply Gfin, G2.
  Qed.

  (* VerifyToken of any token keeps a banned token banned, as long as the
     blacklist has room for the entry it may add *)
  Lemma banned_verify st t u now n :
    env_ok E -> banned st t now -> room st (S n) ->
    banned (fst (verify_token E st now u)) t now /\ room (fst (verify_token E st now u)) n.
  Proof.
    intros He Hban Hroom. unfold room in *.
    destruct (verify_black st t u now He (proj2 Hban) ltac:(lia)) as (Hcov & Hlen & Hcap).
    split; [split|].
    - (* the verification cache gains nothing for t *)
      destruct (lookup t (items (i_tcache (fst (verify_token E st now u))))) as [e|] eqn:L; [|reflexivity].
      destruct (C14_ttl E st now u t e L) as [Hold|(Heq & _ & _ & Hv)].
      + destruct Hban as [Hc _]. congruence.
      + subst u. rewrite (banned_rejects st t now Hban) in Hv. discriminate.
    - exact Hcov.
    - rewrite Hcap. lia.
  Qed.

  (* RevokeToken of any token keeps a banned token banned, likewise *)
  Lemma banned_revoke_step st t u now n :
    banned st t now -> room st (S n) ->
    banned (revoke E st now u) t now /\ room (revoke E st now u) n.
  Proof.
    intros [Hc Hb] Hroom. unfold room in *. split; [split|].
    - unfold revoke, delete. cbn [i_tcache]. rewrite lookup_remove. destruct (N.eqb t u); [reflexivity|exact Hc].
    - intros Hs. destruct (N.eq_dec u t) as [->|Hne]; [apply (banned_revoke st now t), Hs|].
      unfold revoke. cbn [i_black]. apply covered_set_other; [lia|exact Hne|exact (Hb Hs)].
    - unfold revoke. cbn [i_black]. rewrite set_cap.
      generalize (set_length now u 1%Z (revoke_ttl E now u) (i_black st)). lia.
  Qed.

  (* along any history that the blacklist has room for, a banned token stays
     banned up to the final state ... *)
  Theorem banned_vstate t h : forall st now n,
    env_ok E -> waits_nonneg h = true -> banned st t now -> room st (inserts h + n) ->
    banned (fst (vstate E st now h)) t (snd (vstate E st now h)) /\ room (fst (vstate E st now h)) n.
  Proof.
    induction h as [|s h IH]; intros st now n He Hw Hban Hroom; [split; assumption|].
    cbn [waits_nonneg forallb] in Hw. apply andb_prop in Hw. destruct Hw as [Hs Hw].
    destruct s as [u|u|d]; cbn [vstate inserts] in *.
    - destruct (banned_verify st t u now (inserts h + n) He Hban Hroom) as [Hb' Hr'].
      apply (IH _ now n He Hw Hb' Hr').
    - destruct (banned_revoke_step st t u now (inserts h + n) Hban Hroom) as [Hb' Hr'].
      apply (IH _ now n He Hw Hb' Hr').
    - cbn [wait_ok] in Hs. apply Z.leb_le in Hs.
      apply (IH st (now + d)%Z n He Hw (banned_mono st t now (now + d)%Z ltac:(lia) Hban) Hroom).
  Qed.

  (* ... and none of its verdicts on the way is `true` *)
  Theorem banned_vrun t h : forall st now,
    env_ok E -> waits_nonneg h = true -> banned st t now -> room st (inserts h) ->
    forall now', ~ In (now', t, true) (vrun E st now h).
  Proof.
    induction h as [|s h IH]; intros st now He Hw Hban Hroom now' Hin; [contradiction|].
    cbn [waits_nonneg forallb] in Hw. apply andb_prop in Hw. destruct Hw as [Hs Hw].
    destruct s as [u|u|d]; cbn [vrun inserts] in *.
    - destruct (banned_verify st t u now (inserts h) He Hban Hroom) as [Hb' Hr'].
      destruct Hin as [Heq|Hin]; [|exact (IH _ now He Hw Hb' Hr' now' Hin)].
      injection Heq as _ -> Hv. rewrite (banned_rejects st t now Hban) in Hv. discriminate.
    - destruct (banned_revoke_step st t u now (inserts h) Hban Hroom) as [Hb' Hr'].
      exact (IH _ now He Hw Hb' Hr' now' Hin).
    - cbn [wait_ok] in Hs. apply Z.leb_le in Hs.
      exact (IH st (now + d)%Z He Hw (banned_mono st t now (now + d)%Z ltac:(lia) Hban) Hroom now' Hin).
  Qed.

  (* ---------------------------------------------------------------- RevokeToken *)

  (* the very next VerifyToken of a revoked token answers false, from any state *)
  Theorem revoke_next st now t : snd (verify_token E (revoke E st now t) now t) = false.
  Proof. apply banned_rejects, banned_revoke. Qed.

  (* a revoked token is never accepted again: for every history of calls (on
     any tokens) and passages of time after the revocation that the blacklist
     has room for — the entries present after the revocation plus one per call
     do not exceed its capacity, so nothing is evicted — every verdict on the
     token along the way is false, and so is a verification in the final state:
     either the blacklist entry is still there, or it has lapsed and then the
     token's own acceptance window (exp + skew) has lapsed too *)
  Theorem revoked_never_accepted st now t h :
    env_ok E -> waits_nonneg h = true -> room (revoke E st now t) (inserts h) ->
    (forall now', ~ In (now', t, true) (vrun E (revoke E st now t) now h))
    /\ snd (verify_token E (fst (vstate E (revoke E st now t) now h))
                            (snd (vstate E (revoke E st now t) now h)) t) = false.
  Proof.
    intros He Hw Hroom. split.
    - apply (banned_vrun t h _ now He Hw (banned_revoke st now t) Hroom).
    - apply banned_rejects.
      apply (banned_vstate t h _ now 0%nat He Hw (banned_revoke st now t)).
      unfold room in *. lia.
  Qed.

  (* the same with the premise read on the state BEFORE the revocation: its
     blacklist has room for the revocation's entry and one entry per later call *)
  Theorem revoked_never_accepted_room st now t h :
    env_ok E -> waits_nonneg h = true ->
    (length (items (i_black st)) + S (inserts h) <= cap (i_black st))%nat ->
    (forall now', ~ In (now', t, true) (vrun E (revoke E st now t) now h))
    /\ snd (verify_token E (fst (vstate E (revoke E st now t) now h))
                            (snd (vstate E (revoke E st now t) now h)) t) = false.
  Proof.
    intros He Hw Hroom. apply revoked_never_accepted; [exact He|exact Hw|].
    unfold room, revoke. cbn [i_black]. rewrite set_cap.
    generalize (set_length now t 1%Z (revoke_ttl E now t) (i_black st)). lia.
  Qed.
End RevokeProofs.
