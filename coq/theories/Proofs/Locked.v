(* A generic theorem about objects guarded by ONE global lock (used by C13, and
   meant for the cache part of C05/C14).

   What is modelled.  A sequential object is a function `step : S -> Op -> S * Out`.
   Its implementation is a body per operation, `body op`, a finite deterministic
   program of micro-steps; one micro-step reads the shared state, writes it and
   chooses its continuation (`Act upd next`), the last one returns (`Ret r`).
   The only link required between the two is that a body run alone, without
   interruption, computes `step` (hypothesis body_step).
   Any number of threads (indexed by nat) each run their own list of operations;
   every operation is executed as
        Lock();  micro-steps of body op;  Unlock() and return
   A scheduler is an arbitrary list of thread ids; `sched cf i` lets thread i take
   its next transition: acquire the lock if it is free (otherwise the thread is
   blocked and nothing changes), one micro-step, or release.  By construction a
   thread takes micro-steps only between its Lock and its Unlock, i.e. only the
   lock holder touches the shared state: THAT is the lock discipline, and for the
   Go cache it is what tools/lockfacts reads off the source (ParamsLock.v).

   What is proved.  For every schedule (every interleaving, of any length):
   whenever the lock is free, the shared state and the list of returned values
   are exactly those of the sequential execution of the operations in
   lock-acquisition order; every thread has received exactly the return values
   the sequential execution gives to its operations; the acquisition order
   restricted to one thread is that thread's program order.  And there is no
   deadlock: while some thread still has work, some thread can move.

   What is NOT said about Go.  Mutual exclusion of sync.Mutex and the
   happens-before edge Unlock -> Lock of the Go memory model are the meaning of
   `holder`: they are assumed, not proved.  Bodies terminate because `prog` is an
   inductive type (the Go bodies contain loops bounded by the size of the cache).
   Fairness of the scheduler, panics while the lock is held and goroutines
   started from inside a body are outside this model. *)
From Coq Require Import List Arith Lia.
Import ListNotations.

Lemma combine_app_short {A B} (a x : list A) (r : list B) :
  length r <= length a -> combine (a ++ x) r = combine a r.
Proof.
  revert r. induction a as [|y a IH]; intros r H; cbn.
  - destruct r; cbn in H; [destruct x; reflexivity|lia].
  - destruct r as [|z r]; [reflexivity|]. cbn in H. rewrite IH by lia. reflexivity.
Qed.

Lemma combine_snoc {A B} (a : list A) (r : list B) x y :
  length a = length r -> combine (a ++ [x]) (r ++ [y]) = combine a r ++ [(x, y)].
Proof.
  revert r. induction a as [|z a IH]; intros r H; destruct r as [|w r]; cbn in *; try discriminate.
  - reflexivity.
  - rewrite IH by lia. reflexivity.
Qed.

Section Locked.
  Variables (S Op Out : Type).

  Inductive prog :=
  | Ret (r : Out)
  | Act (upd : S -> S) (next : S -> prog).

  (* a body run alone *)
  Fixpoint run_prog (p : prog) (s : S) : S * Out :=
    match p with
    | Ret r => (s, r)
    | Act upd next => run_prog (next s) (upd s)
    end.

  Variable step : S -> Op -> S * Out.
  Variable body : Op -> prog.
  Hypothesis body_step : forall op s, run_prog (body op) s = step s op.

  (* the sequential execution of a list of operations *)
  Fixpoint seq_run (s : S) (ops : list Op) : S * list Out :=
    match ops with
    | [] => (s, [])
    | op :: r => let '(s1, o) := step s op in
                 let '(s2, os) := seq_run s1 r in (s2, o :: os)
    end.

  Record thread := mkThread {
    todo : list Op;          (* operations not yet started *)
    cur : option prog;       (* Some p: between Lock and Unlock, p is what remains of the body *)
    outs : list Out;         (* values returned to this thread so far *)
  }.

  Record conf := mkConf {
    shared : S;
    holder : option nat;     (* who holds the lock *)
    threads : nat -> thread;
    acq : list (nat * Op);   (* ghost: operations in lock-acquisition order, with their thread *)
    rets : list Out;         (* ghost: their return values, appended at Unlock *)
  }.

  Definition upd_thread (ts : nat -> thread) (i : nat) (t : thread) : nat -> thread :=
    fun j => if Nat.eqb j i then t else ts j.

  (* thread i is scheduled for one transition *)
  Definition sched (cf : conf) (i : nat) : conf :=
    let t := threads cf i in
    match cur t with
    | None =>
        match todo t, holder cf with
        | op :: rest, None =>          (* Lock() succeeds *)
            mkConf (shared cf) (Some i)
                   (upd_thread (threads cf) i (mkThread rest (Some (body op)) (outs t)))
                   (acq cf ++ [(i, op)]) (rets cf)
        | _, _ => cf                   (* finished, or blocked in Lock() *)
        end
    | Some (Act upd next) =>           (* one micro-step, by the holder *)
        mkConf (upd (shared cf)) (holder cf)
               (upd_thread (threads cf) i (mkThread (todo t) (Some (next (shared cf))) (outs t)))
               (acq cf) (rets cf)
    | Some (Ret r) =>                  (* Unlock() and return *)
        mkConf (shared cf) None
               (upd_thread (threads cf) i (mkThread (todo t) None (outs t ++ [r])))
               (acq cf) (rets cf ++ [r])
    end.

  Definition init (s0 : S) (progs : nat -> list Op) : conf :=
    mkConf s0 None (fun i => mkThread (progs i) None []) [] [].

  Definition exec (cf : conf) (schedule : list nat) : conf := fold_left sched schedule cf.

  Definition mine (i : nat) (x : nat * Op) : bool := Nat.eqb (fst x) i.
  Definition mine_out (i : nat) (x : nat * Op * Out) : bool := Nat.eqb (fst (fst x)) i.

  Lemma seq_run_snoc s ops op :
    seq_run s (ops ++ [op]) =
    let '(s1, os) := seq_run s ops in let '(s2, o) := step s1 op in (s2, os ++ [o]).
  Proof.
    revert s. induction ops as [|a ops IH]; intros s; cbn [app seq_run].
    - destruct (step s op) as [s2 o]. reflexivity.
    - destruct (step s a) as [s1 o1]. rewrite IH. destruct (seq_run s1 ops) as [s2 os].
      destruct (step s2 op) as [s3 o]. reflexivity.
  Qed.

  Lemma seq_run_length s ops : length (snd (seq_run s ops)) = length ops.
  Proof.
    revert s. induction ops as [|a ops IH]; intros s; cbn [seq_run]; [reflexivity|].
    destruct (step s a) as [s1 o1]. specialize (IH s1). destruct (seq_run s1 ops) as [s2 os].
    cbn in *. rewrite IH. reflexivity.
  Qed.

  Record inv (s0 : S) (progs : nat -> list Op) (cf : conf) : Prop := {
    inv_lock :
      match holder cf with
      | None => (forall j, cur (threads cf j) = None)
                /\ seq_run s0 (map snd (acq cf)) = (shared cf, rets cf)
      | Some i => exists p a op s',
                    cur (threads cf i) = Some p
                    /\ (forall j, j <> i -> cur (threads cf j) = None)
                    /\ acq cf = a ++ [(i, op)]
                    /\ seq_run s0 (map snd a) = (s', rets cf)
                    /\ run_prog p (shared cf) = step s' op
      end;
    inv_outs : forall j, outs (threads cf j)
                         = map snd (filter (mine_out j) (combine (acq cf) (rets cf)));
    inv_prog : forall j, map snd (filter (mine j) (acq cf)) ++ todo (threads cf j) = progs j;
  }.

  Lemma inv_init s0 progs : inv s0 progs (init s0 progs).
  Proof.
    split; cbn.
    - split; reflexivity.
    - reflexivity.
    - reflexivity.
  Qed.

  Lemma upd_same ts i t : upd_thread ts i t i = t.
  Proof. unfold upd_thread. rewrite Nat.eqb_refl. reflexivity. Qed.
  Lemma upd_other ts i t j : j <> i -> upd_thread ts i t j = ts j.
  Proof. intros H. unfold upd_thread. apply Nat.eqb_neq in H. rewrite H. reflexivity. Qed.

  (* a thread that is inside a body is the lock holder *)
  Lemma in_body_holds s0 progs cf i p :
    inv s0 progs cf -> cur (threads cf i) = Some p ->
    holder cf = Some i /\
    exists a op s', (forall j, j <> i -> cur (threads cf j) = None)
                    /\ acq cf = a ++ [(i, op)]
                    /\ seq_run s0 (map snd a) = (s', rets cf)
                    /\ run_prog p (shared cf) = step s' op.
  Proof.
    intros [IL _ _] C. destruct (holder cf) as [i'|].
    - destruct IL as [p' [a [op [s' [C' [Ho [Ha [Hs Hr]]]]]]]].
      destruct (Nat.eq_dec i i') as [->|Hne].
      + rewrite C in C'. inversion C'; subst p'. split; [reflexivity|]. exists a, op, s'. tauto.
      + rewrite (Ho i Hne) in C. discriminate.
    - destruct IL as [Hn _]. rewrite Hn in C. discriminate.
  Qed.

  Lemma inv_sched s0 progs cf i : inv s0 progs cf -> inv s0 progs (sched cf i).
  Proof.
    intros I. unfold sched. destruct (cur (threads cf i)) as [p|] eqn:C.
    - destruct (in_body_holds s0 progs cf i p I C) as [Hh [a [op [s' [Ho [Ha [Hs Hr]]]]]]].
      pose proof (seq_run_length s0 (map snd a)) as Hlen. rewrite Hs, map_length in Hlen. cbn [snd] in Hlen.
      destruct I as [_ IO IP]. destruct p as [r|upd next].
      + (* Unlock *)
        cbn [run_prog] in Hr. split; cbn [holder threads shared acq rets].
        * split.
          -- intros j. destruct (Nat.eq_dec j i) as [->|Hne]; [rewrite upd_same; reflexivity|].
             rewrite upd_other by exact Hne. apply Ho, Hne.
          -- rewrite Ha, map_app. cbn [map snd]. rewrite seq_run_snoc, Hs, <- Hr. reflexivity.
        * intros j. rewrite Ha, combine_snoc, filter_app, map_app by (symmetry; exact Hlen).
          specialize (IO j). rewrite Ha, combine_app_short in IO by lia.
          destruct (Nat.eq_dec j i) as [->|Hne].
          -- rewrite upd_same. cbn [outs filter]. unfold mine_out at 2. cbn [fst]. rewrite Nat.eqb_refl.
             cbn [map snd]. rewrite IO. reflexivity.
          -- rewrite upd_other by exact Hne. cbn [filter]. unfold mine_out at 2. cbn [fst].
             replace (Nat.eqb i j) with false by (symmetry; apply Nat.eqb_neq; congruence).
             cbn [map]. rewrite app_nil_r. exact IO.
        * intros j. destruct (Nat.eq_dec j i) as [->|Hne]; [rewrite upd_same; apply IP|].
          rewrite upd_other by exact Hne. apply IP.
      + (* micro-step *)
        cbn [run_prog] in Hr. split; cbn [holder threads shared acq rets].
        * rewrite Hh. exists (next (shared cf)), a, op, s'. rewrite upd_same. cbn [cur].
          split; [reflexivity|]. split.
          -- intros j Hne. rewrite upd_other by exact Hne. apply Ho, Hne.
          -- tauto.
        * intros j. destruct (Nat.eq_dec j i) as [->|Hne]; [rewrite upd_same; apply IO|].
          rewrite upd_other by exact Hne. apply IO.
        * intros j. destruct (Nat.eq_dec j i) as [->|Hne]; [rewrite upd_same; apply IP|].
          rewrite upd_other by exact Hne. apply IP.
    - destruct (todo (threads cf i)) as [|op rest] eqn:T; [exact I|].
      destruct (holder cf) as [i'|] eqn:Hh; [exact I|].
      (* Lock *)
      destruct I as [IL IO IP]. rewrite Hh in IL. destruct IL as [Hn Hs].
      pose proof (seq_run_length s0 (map snd (acq cf))) as Hlen. rewrite Hs, map_length in Hlen.
      cbn [snd] in Hlen.
      split; cbn [holder threads shared acq rets].
      + exists (body op), (acq cf), op, (shared cf). rewrite upd_same. cbn [cur].
        split; [reflexivity|]. split.
        * intros j Hne. rewrite upd_other by exact Hne. apply Hn.
        * split; [reflexivity|]. split; [exact Hs|apply body_step].
      + intros j. rewrite combine_app_short by lia.
        destruct (Nat.eq_dec j i) as [->|Hne]; [rewrite upd_same; apply IO|].
        rewrite upd_other by exact Hne. apply IO.
      + intros j. rewrite filter_app, map_app. cbn [filter]. unfold mine at 2. cbn [fst].
        destruct (Nat.eq_dec j i) as [->|Hne].
        * rewrite upd_same, Nat.eqb_refl. cbn [todo map snd]. rewrite <- app_assoc. cbn [app].
          rewrite <- T. apply IP.
        * rewrite upd_other by exact Hne.
          replace (Nat.eqb i j) with false by (symmetry; apply Nat.eqb_neq; congruence).
          cbn [map]. rewrite app_nil_r. apply IP.
  Qed.

  Lemma inv_exec s0 progs cf schedule : inv s0 progs cf -> inv s0 progs (exec cf schedule).
  Proof.
    revert cf. induction schedule as [|i r IH]; intros cf I; cbn; [exact I|].
    apply IH, inv_sched, I.
  Qed.

  (* Every interleaving is equivalent to the sequential execution in
     lock-acquisition order: final state, all return values, what each thread
     was handed back, and program order inside each thread. *)
  Theorem locked_linearizable s0 progs schedule :
    let cf := exec (init s0 progs) schedule in
    holder cf = None ->
    seq_run s0 (map snd (acq cf)) = (shared cf, rets cf)
    /\ (forall i, outs (threads cf i) = map snd (filter (mine_out i) (combine (acq cf) (rets cf))))
    /\ (forall i, map snd (filter (mine i) (acq cf)) ++ todo (threads cf i) = progs i).
  Proof.
    intros cf Hh. destruct (inv_exec s0 progs (init s0 progs) schedule (inv_init s0 progs)) as [IL IO IP].
    fold cf in IL, IO, IP. rewrite Hh in IL. destruct IL as [_ Hs]. tauto.
  Qed.

  (* the same while an operation is in flight: everything completed so far is a
     sequential execution, and the operation in flight will, run to its end,
     produce exactly its sequential result *)
  Theorem locked_in_flight s0 progs schedule i :
    let cf := exec (init s0 progs) schedule in
    holder cf = Some i ->
    exists p a op s',
      cur (threads cf i) = Some p /\ acq cf = a ++ [(i, op)]
      /\ seq_run s0 (map snd a) = (s', rets cf)
      /\ run_prog p (shared cf) = step s' op
      /\ forall j, j <> i -> cur (threads cf j) = None.
  Proof.
    intros cf Hh. destruct (inv_exec s0 progs (init s0 progs) schedule (inv_init s0 progs)) as [IL _ _].
    fold cf in IL. rewrite Hh in IL. destruct IL as [p [a [op [s' [H1 [H2 [H3 [H4 H5]]]]]]]].
    exists p, a, op, s'. tauto.
  Qed.

  (* a thread can move: it is inside a body, or it has work and the lock is free *)
  Definition enabled (cf : conf) (i : nat) : Prop :=
    cur (threads cf i) <> None \/ (todo (threads cf i) <> [] /\ holder cf = None).

  (* no deadlock: in every reachable configuration in which some thread has not
     finished, some thread is enabled *)
  Theorem locked_no_deadlock s0 progs schedule :
    let cf := exec (init s0 progs) schedule in
    (exists i, todo (threads cf i) <> [] \/ cur (threads cf i) <> None) ->
    exists i, enabled cf i.
  Proof.
    intros cf [i Hi]. destruct (inv_exec s0 progs (init s0 progs) schedule (inv_init s0 progs)) as [IL _ _].
    fold cf in IL. destruct (holder cf) as [i'|] eqn:Hh.
    - destruct IL as [p [a [op [s' [C _]]]]]. exists i'. left. rewrite C. discriminate.
    - destruct IL as [Hn _]. destruct Hi as [Hi|Hi]; [|rewrite Hn in Hi; tauto].
      exists i. right. tauto.
  Qed.

  (* an enabled thread does change the configuration: it takes the lock, or
     consumes one micro-step of its body, or releases *)
  Lemma enabled_moves cf i :
    enabled cf i ->
    match cur (threads cf i) with
    | Some (Ret _) => holder (sched cf i) = None /\ cur (threads (sched cf i) i) = None
    | Some (Act upd next) => cur (threads (sched cf i) i) = Some (next (shared cf))
                             /\ shared (sched cf i) = upd (shared cf)
    | None => holder (sched cf i) = Some i /\ exists op, cur (threads (sched cf i) i) = Some (body op)
    end.
  Proof.
    intros [H|[H1 H2]]; unfold sched; destruct (cur (threads cf i)) as [[r|upd next]|] eqn:C;
      try tauto; cbn [holder threads shared]; rewrite ?upd_same; cbn [cur]; try tauto.
    - destruct (todo (threads cf i)) as [|op rest]; [tauto|]. rewrite H2. cbn [holder threads].
      rewrite upd_same. cbn [cur]. eauto.
  Qed.
End Locked.

Arguments Ret {S Out} r.
Arguments Act {S Out} upd next.
Arguments run_prog {S Out} p s.
Arguments seq_run {S Op Out} step s ops.
Arguments todo {S Op Out} t.
Arguments cur {S Op Out} t.
Arguments outs {S Op Out} t.
Arguments shared {S Op Out} c.
Arguments holder {S Op Out} c.
Arguments threads {S Op Out} c _.
Arguments acq {S Op Out} c.
Arguments rets {S Op Out} c.
Arguments sched {S Op Out} body cf i.
Arguments init {S Op Out} s0 progs.
Arguments exec {S Op Out} body cf schedule.
Arguments mine {Op} i x.
Arguments mine_out {Op Out} i x.
Arguments enabled {S Op Out} cf i.
