(* Property C06, per step: Model/Middleware.serve satisfies Spec/WorldSpec.c06_step
   for every input; byte-level characterisation of the e-mail domain check. *)
From VF Require Import Base.Prelude Model.Cache Model.Session Model.Middleware Corr.WorldCorr Spec.WorldSpec.
From VF Require Import Proofs.CacheProofs Proofs.WorldBase Proofs.W_BLemmas.
From Coq Require Import ZifyBool ZifyNat ZifyN.
Open Scope N_scope.

(* ------------------------------------------------------------------ isAllowedDomain, byte by byte *)

Lemma split_at_nonempty s : split_at s <> [].
Proof.
  induction s as [|x r IH]; cbn [split_at]; [discriminate|].
  destruct (N.eqb x 64); [discriminate|]. destruct (split_at r); [contradiction|discriminate].
Qed.

Lemma split_at_single s b : split_at s = [b] <-> s = b /\ ~ In 64 b.
Proof.
  revert b. induction s as [|x r IH]; intros b; cbn [split_at].
  - split; [intros H; injection H as <-; split; [reflexivity|intros []]|intros [<- _]; reflexivity].
  - destruct (N.eqb_spec x 64) as [->|Hx].
    + split.
      * intros H. injection H as <- H. exfalso. exact (split_at_nonempty r H).
      * intros [<- Hn]. exfalso. apply Hn. left. reflexivity.
    + destruct (split_at r) as [|h t] eqn:Es.
      * exfalso. exact (split_at_nonempty r Es).
      * split.
        -- intros H. injection H as <- ->. destruct (proj1 (IH h) eq_refl) as [-> Hn].
           split; [reflexivity|]. intros [Hin|Hin]; [congruence|contradiction].
        -- intros [<- Hn]. assert (Hr : r = r /\ ~ In 64 r) by (split; [reflexivity|intros Hin; apply Hn; right; exact Hin]).
           apply IH in Hr. injection Hr as -> ->. reflexivity.
Qed.

Lemma split_at_two s a b : split_at s = [a; b] <-> s = a ++ 64 :: b /\ ~ In 64 a /\ ~ In 64 b.
Proof.
  revert a b. induction s as [|x r IH]; intros a b; cbn [split_at].
  - split; [discriminate|]. intros [H _]. destruct a; discriminate.
  - destruct (N.eqb_spec x 64) as [->|Hx].
    + split.
      * intros H. injection H as <- H. apply split_at_single in H. destruct H as [-> Hn].
        split; [reflexivity|]. split; [intros []|exact Hn].
      * intros (Hs & Ha & Hb). destruct a as [|y a].
        -- cbn in Hs. injection Hs as ->. f_equal. apply split_at_single. split; [reflexivity|exact Hb].
        -- cbn in Hs. injection Hs as <- _. exfalso. apply Ha. left. reflexivity.
    + destruct (split_at r) as [|h t] eqn:Es; [exfalso; exact (split_at_nonempty r Es)|].
      split.
      * intros H. injection H as <- ->. destruct (proj1 (IH h b) eq_refl) as (-> & Hh & Hb).
        split; [reflexivity|]. split; [|exact Hb]. intros [Hin|Hin]; [congruence|contradiction].
      * intros (Hs & Ha & Hb). destruct a as [|y a].
        -- cbn in Hs. injection Hs as -> _. contradiction.
        -- cbn in Hs. injection Hs as <- ->.
           assert (Hr : h :: t = [a; b]).
           { apply IH. split; [reflexivity|]. split; [intros Hin; apply Ha; right; exact Hin|exact Hb]. }
           injection Hr as -> ->. reflexivity.
Qed.

Lemma b_bytes_eqb_eq a b : bytes_eqb a b = true <-> a = b.
Proof.
  revert b. induction a as [|x a IH]; intros [|y b]; cbn [bytes_eqb]; try (split; [discriminate|discriminate]).
  - split; reflexivity.
  - rewrite andb_true_iff, N.eqb_eq, IH. split; [intros [-> ->]; reflexivity|intros H; injection H; auto].
Qed.

Section C06.
  Variable E : env.
  Variable cfg : config.
  Notation NCE := (nchunks E).

  (* exactly one '@' (byte 64) and the part after it is, byte for byte, a listed domain *)
  Theorem allowed_domain_spec email :
    allowed_domain E cfg email = true <->
    (c_domains cfg = [] \/
     exists local dom,
       bytes_of E email = local ++ 64 :: dom /\ ~ In 64 local /\ ~ In 64 dom
       /\ exists d, In d (c_domains cfg) /\ bytes_of E d = dom).
  Proof.
    unfold allowed_domain. destruct (c_domains cfg) as [|d0 ds] eqn:Ed.
    - split; [intros _; left; reflexivity|reflexivity].
    - split.
      + intros H. right.
        destruct (split_at (bytes_of E email)) as [|a [|d [|x l]]] eqn:Es; try discriminate.
        apply split_at_two in Es. destruct Es as (Hs & Ha & Hd).
        apply existsb_exists in H. destruct H as (x & Hin & Hx).
        unfold domain_listed in Hx. apply b_bytes_eqb_eq in Hx.
        exists a, d. repeat split; try assumption. exists x. split; [exact Hin|symmetry; exact Hx].
      + intros [H|(a & d & Hs & Ha & Hd & x & Hin & Hx)]; [discriminate|].
        rewrite (proj2 (split_at_two _ a d)) by (repeat split; assumption).
        apply existsb_exists. exists x. split; [exact Hin|].
        unfold domain_listed. apply b_bytes_eqb_eq. symmetry. exact Hx.
  Qed.

  (* ---------------------------------------------------------------- the step monitor *)

  Lemma b_c06_plain now rq ans r :
    gated E cfg rq && forwarded r = false -> establishes E cfg now rq r = false ->
    c06_step E cfg now rq ans r = true.
  Proof. intros Hf He. unfold c06_step. rewrite Hf, He. reflexivity. Qed.

  Lemma b_c06_nofwd now rq ans r :
    r_fwd r = None -> emits_auth r = false -> c06_step E cfg now rq ans r = true.
  Proof.
    intros Hf He. apply b_c06_plain; [|apply b_establishes_no_auth, He].
    unfold forwarded. rewrite Hf. apply andb_false_r.
  Qed.

  (* the "establishes" clause for a response whose cookies are those of a successful refresh *)
  Lemma b_c06_refreshed now rq r sd id newrt :
    (forall t, (1 <= nchunks E t)%nat) ->
    is_callback cfg rq = false -> ti_email (tok E id) <> 0 ->
    r_cookies r = save_cookies (b_refreshed E now id newrt sd) ->
    (if establishes E cfg now rq r
     then match Some (AOk id newrt), emitted_main r with
          | Some (AOk id _), Some p =>
              negb (N.eqb (ti_email (tok E id)) 0)
              && (negb (is_callback cfg rq) || domain_ok E cfg (ti_email (tok E id)))
              && N.eqb (get_str 6 p) (ti_email (tok E id))
          | _, _ => false
          end
     else true) = true.
  Proof.
    intros Hpos Hcb Hem Hc. destruct (establishes E cfg now rq r); [|reflexivity].
    rewrite (b_emitted_main_save0 r _ Hc), b_refreshed_email, Hcb by exact Hpos.
    apply N.eqb_neq in Hem. rewrite Hem, N.eqb_refl. reflexivity.
  Qed.

  Theorem c06_serve st now rq rnd ans :
    env_ok E -> cfg_ok cfg -> i_ready st = true ->
    c06_step E cfg now rq ans (snd (serve E cfg st now rq rnd ans)) = true.
  Proof.
    intros HE Hcfg Hready. pose proof (eo_chunks E HE) as Hpos.
    apply (b_serve_cases E cfg st now rq rnd ans
             (fun x => c06_step E cfg now rq ans (snd x) = true) Hready); cbn [snd].
    - (* excluded *)
      intros Hex. apply b_c06_plain.
      + unfold gated. rewrite Hex. reflexivity.
      + apply b_establishes_no_auth, b_emits_auth_nil. reflexivity.
    - (* logout *)
      intros _ _. destruct (b_logout_shape E cfg rq st (carried cfg now rq)) as (loc & ->).
      apply b_c06_nofwd; [reflexivity|]. eapply b_emits_auth_cleared. reflexivity.
    - (* callback *)
      intros _ _ Hcb.
      apply (b_cb_cases E cfg rq st now (carried cfg now rq) ans
               (fun x => c06_step E cfg now rq ans (snd x) = true)); cbn [snd].
      + intros st' m code. apply b_c06_nofwd; [reflexivity|apply b_emits_auth_nil; reflexivity].
      + intros st' m code _ _ _ _. apply b_c06_nofwd; [reflexivity|apply b_emits_auth_nil; reflexivity].
      + intros id rt tgt Hans _ _ _ _ _ _ _ Hem Had.
        unfold c06_step. set (r := mkResp _ _ _ _ _ _ _ _).
        replace (gated E cfg rq && forwarded r) with false by (symmetry; apply andb_false_r).
        cbn [andb]. destruct (establishes E cfg now rq r); [|reflexivity].
        rewrite Hans, (b_emitted_main_save0 r (b_cb_final E now (carried cfg now rq) id rt)) by reflexivity.
        destruct (b_cb_final_main E now (carried cfg now rq) id rt) as (m & ->).
        rewrite (b_get_str_set_other 6 7), (b_get_str_set_other 6 5), (b_get_str_set_other 6 4),
          (b_get_str_set_other 6 3) by discriminate.
        rewrite b_get_str_set_same.
        change (domain_ok E cfg (ti_email (tok E id))) with (allowed_domain E cfg (ti_email (tok E id))).
        apply N.eqb_neq in Hem. rewrite Hem, Had, N.eqb_refl, orb_true_r. reflexivity.
    - (* expired *)
      intros _. unfold handle_expired.
      apply b_c06_nofwd; [apply b_initiate_fwd|apply b_initiate_emits].
    - (* authorised without refresh *)
      intros Hg t Ht.
      apply (b_pa_cases E cfg rq rnd st (carried cfg now rq) [] []
               (fun r => c06_step E cfg now rq ans r = true)).
      + intros _. apply b_c06_nofwd; [apply b_initiate_fwd|apply b_initiate_emits].
      + intros m _ _. apply b_c06_nofwd; [reflexivity|apply b_emits_auth_nil; reflexivity].
      + intros _ _ _ _ _. apply b_c06_nofwd; [reflexivity|apply b_emits_auth_nil; reflexivity].
      + intros cors Hem Hd Hr. unfold c06_step.
        set (r := mkResp _ _ _ _ _ _ _ _).
        rewrite (b_establishes_no_auth E cfg now rq r) by (apply b_emits_auth_nil; reflexivity).
        rewrite Hg. cbn [forwarded r_fwd r andb].
        assert (He : effective_email E cfg now rq ans r = get_str 6 (s_main (carried cfg now rq)))
          by (unfold effective_email; cbn [r_calls r]; destruct ans as [[?|? ?]|]; reflexivity).
        assert (Het : effective_token E cfg now rq ans r = get_access NCE (carried cfg now rq))
          by (unfold effective_token; cbn [r_calls r]; destruct ans as [[?|? ?]|]; reflexivity).
        rewrite He, Het, Hd, Hr. apply N.eqb_neq in Hem. rewrite Hem. reflexivity.
    - (* refresh *)
      intros Hg Hrt. set (sd := carried cfg now rq) in *.
      pose proof (b_gated_not_callback E cfg rq Hg) as Hcb.
      unfold b_refresh_branch.
      destruct (b_refresh_okb E st now ans) eqn:Eok.
      + destruct (b_refresh_ok E st now sd ans Hrt Eok) as (id & newrt & Hans & Hid & Hem & Hv & ->).
        subst ans. cbn [snd].
        assert (Hmail : get_str 6 (s_main (after_save (b_refreshed E now id newrt sd))) = ti_email (tok E id))
          by (rewrite b_main_after_save; apply b_refreshed_email; exact Hpos).
        assert (Hacc : get_access NCE (after_save (b_refreshed E now id newrt sd)) = TTok id)
          by (rewrite b_get_access_after_save; apply b_refreshed_access; assumption).
        apply (b_pa_cases E cfg rq rnd _ (after_save (b_refreshed E now id newrt sd))
                 (save_cookies (b_refreshed E now id newrt sd)) [PRefresh (get_refresh NCE sd)]
                 (fun r => c06_step E cfg now rq (Some (AOk id newrt)) r = true)).
        * intros H0. rewrite Hmail in H0. contradiction.
        * intros m _ _. unfold c06_step. set (r := send_error _ _ _ _ _).
          replace (gated E cfg rq && forwarded r) with false by (symmetry; apply andb_false_r).
          cbn [andb]. apply (b_c06_refreshed now rq r sd id newrt); try assumption. reflexivity.
        * intros _ _ _ _ _. unfold c06_step. set (r := mkResp _ _ _ _ _ _ _ _).
          replace (gated E cfg rq && forwarded r) with false by (symmetry; apply andb_false_r).
          cbn [andb]. apply (b_c06_refreshed now rq r sd id newrt); try assumption. reflexivity.
        * intros cors _ Hd Hr. rewrite Hmail in Hd. rewrite Hacc in Hr.
          unfold c06_step. set (r := mkResp _ _ _ _ _ _ _ _).
          rewrite (b_c06_refreshed now rq r sd id newrt) by (try assumption; reflexivity).
          rewrite Hg. cbn [forwarded r_fwd r andb].
          unfold effective_email, effective_token. cbn [r_calls r].
          rewrite Hd, Hr. apply N.eqb_neq in Hem. rewrite Hem. reflexivity.
      + destruct (b_refresh_fail E st now sd ans Hrt Eok) as (st1 & Hurl & ->).
        destruct (q_json rq); cbn [snd].
        * apply b_c06_plain; [apply andb_false_r|].
          unfold b_fail_cs. destruct ans as [[[|]|? ?]|];
            try (apply b_establishes_no_auth, b_emits_auth_nil; reflexivity).
          apply (b_establishes_same E cfg now rq _ sd Hpos eq_refl). reflexivity.
        * apply b_c06_nofwd; [apply b_initiate_fwd|apply b_initiate_emits].
    - (* login redirect *)
      intros _. apply b_c06_nofwd; [apply b_initiate_fwd|apply b_initiate_emits].
  Qed.
End C06.
