(* The bridge between the two models of token verification.

   (A) Model/Jwt.v       accept im cfg jw now t   the full ladder over a token record
   (B) Model/Middleware.v accept_at now ti         what the request ladder uses: a static
                                                   verdict and three time comparisons

   bridge_tol      for EVERY measured implementation whose tolerances are 120 s /
                   10 s (pinned or repaired switches, any instant), the ladder on
                   first presentation IS accept_at on the summary of the record
                   (Model/JwtSummary.summarize)
   bridge          the same under the premises of C02_iff (repaired im, sane_now);
                   sane_now is not used: the summary stores the seconds after the
                   ladder's own conversion, so both sides saturate alike
   bridge_raw      with the claim values taken as written (summarize_raw) the two
                   agree for a repaired tree and an instant within 2^61 s of 1970;
                   raw_needs_sane_now / raw_needs_saturation show both premises
                   are needed there
   accept_at_spec  accept_at on a summary equals the specification JwtSpec.spec
   c01_forward_meets_c02_spec, carried_session_meets_spec,
   forwarded_unrefreshed_carries, refreshed_meets_spec
                   the composition with the gate of property C01: what the gate
                   calls "an acceptable token" is a token satisfying JwtSpec.spec

   Both model files are required without import (they share names); the
   Middleware side is imported, the Jwt side is qualified. *)
From VF Require Import Base.Prelude Model.Cache Model.Session Model.Middleware Corr.WorldCorr Spec.WorldSpec.
From VF Require Import Proofs.WorldBase Proofs.VerifyProofs Proofs.W_C01.
From VF Require Model.Jwt Spec.JwtSpec Proofs.JwtProofs.
From VF Require Import Model.JwtSummary.
From Coq Require Import ZifyBool ZifyNat ZifyN Btauto.
Open Scope Z_scope.

(* ------------------------------------------------------------------ the static part *)

Lemma key_part_sig_part im jw t : key_part im jw t = JwtProofs.sig_part im jw t.
Proof.
  unfold key_part, JwtProofs.sig_part.
  destruct (Jwt.t_kid t) as [kid|]; [|reflexivity].
  destruct (Jwt.t_alg t) as [a|]; [|reflexivity].
  destruct (Jwt.find_key kid jw) as [k|]; [|reflexivity].
  destruct (Jwt.verify_signature im k a (Jwt.t_sig t)) eqn:Ev.
  - rewrite (JwtProofs.verify_signature_supported _ _ _ _ Ev). apply andb_true_r.
  - rewrite andb_false_r. reflexivity.
Qed.

(* ------------------------------------------------------------------ the time comparisons *)

Definition tol (im : Jwt.impl) : Prop :=
  Jwt.skew_future im = 120000000000 /\ Jwt.skew_past im = 10000000000.

Lemma repaired_tol im : JwtProofs.repaired im = true -> tol im.
Proof. intros Hr. apply JwtProofs.repaired_fields in Hr. split; tauto. Qed.

Lemma exp_ok_at im now v : Jwt.skew_future im = 120000000000 ->
  Jwt.exp_ok im now v = negb (Z.ltb ((Jwt.claim_sec im v + skew_future_s) * sec) now).
Proof.
  intros Hf. unfold Jwt.exp_ok, Jwt.ns_per_s, skew_future_s, sec. rewrite Hf.
  generalize (Jwt.claim_sec im v). intros c. f_equal. f_equal. lia.
Qed.

Lemma past_ok_at im now v : Jwt.skew_past im = 10000000000 ->
  Jwt.past_ok im now v = negb (Z.ltb now ((Jwt.claim_sec im v - skew_past_s) * sec)).
Proof.
  intros Hp. unfold Jwt.past_ok, Jwt.ns_per_s, skew_past_s, sec. rewrite Hp.
  generalize (Jwt.claim_sec im v). intros c. f_equal. f_equal. lia.
Qed.

(* each time claim of the ladder = its type check && the comparison on the summary *)
Lemma exp_claim_split im now n : Jwt.skew_future im = 120000000000 ->
  Jwt.exp_claim_ok im now n
  = is_num n && negb (Z.ltb ((secs_of im n + skew_future_s) * sec) now).
Proof. intros Hf. destruct n as [| |v]; cbn [Jwt.exp_claim_ok is_num secs_of andb]; [reflexivity..|apply exp_ok_at, Hf]. Qed.

Lemma iat_claim_split im now n : Jwt.skew_past im = 10000000000 ->
  Jwt.iat_claim_ok im now n
  = is_num n && negb (Z.ltb now ((secs_of im n - skew_past_s) * sec)).
Proof. intros Hp. destruct n as [| |v]; cbn [Jwt.iat_claim_ok is_num secs_of andb]; [reflexivity..|apply past_ok_at, Hp]. Qed.

Lemma nbf_claim_split im now n : Jwt.skew_past im = 10000000000 ->
  Jwt.nbf_claim_ok im now n
  = nbf_typed im n && match nbf_of im n with
                      | Some c => negb (Z.ltb now ((c - skew_past_s) * sec))
                      | None => true
                      end.
Proof.
  intros Hp. destruct n as [| |v]; cbn [Jwt.nbf_claim_ok nbf_typed nbf_of andb];
    [reflexivity|symmetry; apply andb_true_r|apply past_ok_at, Hp].
Qed.

(* ------------------------------------------------------------------ the bridge *)

Theorem bridge_tol im cfg jw now t : tol im ->
  Jwt.accept im cfg jw now t = accept_at now (summarize im cfg jw t).
Proof.
  intros [Hf Hp]. rewrite JwtProofs.accept_conj. unfold JwtProofs.claims_part.
  rewrite (exp_claim_split im now _ Hf), (iat_claim_split im now _ Hp), (nbf_claim_split im now _ Hp).
  rewrite <- key_part_sig_part.
  unfold accept_at, summarize, static_ok. cbn [ti_static ti_exp ti_iat ti_nbf].
  change (JwtSpec.iss_is cfg t) with (iss_ok cfg t).
  generalize (Jwt.parse_ok t) (key_part im jw t) (iss_ok cfg t) (Jwt.aud_ok (Jwt.c_client cfg) (Jwt.t_aud t))
             (is_num (Jwt.t_exp t)) (is_num (Jwt.t_iat t)) (nbf_typed im (Jwt.t_nbf t)) (Jwt.sub_ok (Jwt.t_sub t))
             (negb (Z.ltb ((secs_of im (Jwt.t_exp t) + skew_future_s) * sec) now))
             (negb (Z.ltb now ((secs_of im (Jwt.t_iat t) - skew_past_s) * sec)))
             (match nbf_of im (Jwt.t_nbf t) with
              | Some c => negb (Z.ltb now ((c - skew_past_s) * sec))
              | None => true
              end).
  intros b1 b2 b3 b4 b5 b6 b7 b8 b9 b10 b11. btauto.
Qed.

(* under the premises of C02_iff (sane_now is not needed, see the header) *)
Theorem bridge im cfg jw now t : JwtProofs.repaired im = true -> JwtSpec.sane_now now ->
  Jwt.accept im cfg jw now t = accept_at now (summarize im cfg jw t).
Proof. intros Hr _. apply bridge_tol, repaired_tol, Hr. Qed.

Corollary accept_at_spec im cfg jw now t : JwtProofs.repaired im = true -> JwtSpec.sane_now now ->
  accept_at now (summarize im cfg jw t) = JwtSpec.spec cfg jw now t.
Proof.
  intros Hr Hn. rewrite <- (bridge im cfg jw now t Hr Hn). apply JwtProofs.accept_spec; assumption.
Qed.

(* the summary satisfies the environment premise "a statically valid token has
   extractable claims" (WorldBase.eo_claims) *)
Lemma summarize_claims im cfg jw t :
  ti_static (summarize im cfg jw t) = true -> ti_claims (summarize im cfg jw t) = true.
Proof.
  unfold summarize, static_ok, claims_extractable, Jwt.parse_ok. cbn [ti_static ti_claims].
  destruct (Jwt.t_parts3 t), (Jwt.t_claims_ok t), (Jwt.t_hdr_ok t); cbn [andb]; congruence.
Qed.

(* ------------------------------------------------------------------ claim values as written *)

(* for a repaired tree and a sane instant the comparison on the written value
   is the comparison on the saturated one *)
Lemma clamp_exp now v : JwtSpec.sane_now now ->
  Z.ltb ((Jwt.clamp62 v + skew_future_s) * sec) now = Z.ltb ((v + skew_future_s) * sec) now.
Proof.
  intros Hn. unfold JwtSpec.sane_now, JwtSpec.two61, Jwt.ns_per_s in Hn. unfold skew_future_s, sec.
  destruct (JwtProofs.clamp62_cases v) as [[Hv ->]|[[Hv ->]|[Hv ->]]]; unfold Jwt.two62 in *; lia.
Qed.

Lemma clamp_past now v : JwtSpec.sane_now now ->
  Z.ltb now ((Jwt.clamp62 v - skew_past_s) * sec) = Z.ltb now ((v - skew_past_s) * sec).
Proof.
  intros Hn. unfold JwtSpec.sane_now, JwtSpec.two61, Jwt.ns_per_s in Hn. unfold skew_past_s, sec.
  destruct (JwtProofs.clamp62_cases v) as [[Hv ->]|[[Hv ->]|[Hv ->]]]; unfold Jwt.two62 in *; lia.
Qed.

Lemma accept_at_raw im cfg jw now t : Jwt.time_saturates im = true -> JwtSpec.sane_now now ->
  accept_at now (summarize_raw im cfg jw t) = accept_at now (summarize im cfg jw t).
Proof.
  intros Hs Hn. unfold accept_at, summarize, summarize_raw. cbn [ti_static ti_exp ti_iat ti_nbf].
  unfold static_ok.
  destruct (Jwt.t_exp t) as [| |e]; cbn [is_num]; rewrite ?andb_false_r; cbn [andb]; try reflexivity.
  destruct (Jwt.t_iat t) as [| |i]; cbn [is_num]; rewrite ?andb_false_r; cbn [andb]; try reflexivity.
  cbn [secs_of raw_secs]. unfold Jwt.claim_sec. rewrite Hs.
  rewrite (clamp_exp now e Hn), (clamp_past now i Hn).
  destruct (Jwt.t_nbf t) as [| |n]; cbn [nbf_of raw_nbf]; try reflexivity.
  unfold Jwt.claim_sec. rewrite Hs, (clamp_past now n Hn). reflexivity.
Qed.

Theorem bridge_raw im cfg jw now t : JwtProofs.repaired im = true -> JwtSpec.sane_now now ->
  Jwt.accept im cfg jw now t = accept_at now (summarize_raw im cfg jw t).
Proof.
  intros Hr Hn. rewrite (bridge im cfg jw now t Hr Hn). symmetry. apply accept_at_raw; [|exact Hn].
  apply JwtProofs.repaired_fields in Hr. tauto.
Qed.

Corollary accept_at_raw_spec im cfg jw now t : JwtProofs.repaired im = true -> JwtSpec.sane_now now ->
  accept_at now (summarize_raw im cfg jw t) = JwtSpec.spec cfg jw now t.
Proof.
  intros Hr Hn. rewrite <- (bridge_raw im cfg jw now t Hr Hn). apply JwtProofs.accept_spec; assumption.
Qed.

(* the corners of the RAW summary (none for `summarize`):
   - an instant beyond 2^62 s: "exp": 5e18 s is saturated to 2^62 s by the ladder
     and is then in the past, while the written value is still in the future;
   - the pinned conversion: "iat": 1e30 becomes the minimum int64 and passes,
     while the written value is far in the future. *)
Definition corner_tok (e i : Z) : Jwt.token :=
  Jwt.mkTok true true true true (Some (Jwt.AStd Jwt.FRS Jwt.H256)) (Some 10%N)
            (Jwt.mkSig 100 (Jwt.AStd Jwt.FRS Jwt.H256) true Jwt.SCanon)
            (Some 1%N) (Jwt.AudStr 2%N) (Jwt.Num e) (Jwt.Num i) Jwt.NumAbsent None (Jwt.SubStr true).

Example raw_needs_sane_now :
  let now := 4700000000000000000 * Jwt.ns_per_s in
  let t := corner_tok 5000000000000000000 0 in
  JwtProofs.repaired Jwt.repaired_impl = true
  /\ ~ JwtSpec.sane_now now
  /\ Jwt.accept Jwt.repaired_impl JwtProofs.ex_cfg JwtProofs.ex_jwks now t = false
  /\ accept_at now (summarize Jwt.repaired_impl JwtProofs.ex_cfg JwtProofs.ex_jwks t) = false
  /\ accept_at now (summarize_raw Jwt.repaired_impl JwtProofs.ex_cfg JwtProofs.ex_jwks t) = true.
Proof.
  split; [vm_compute; reflexivity|]. split; [|vm_compute; repeat split].
  unfold JwtSpec.sane_now. vm_compute. intros [_ H]. apply H. reflexivity.
Qed.

Example raw_needs_saturation :
  let im := Jwt.pinned_impl (- Jwt.two63) (- Jwt.two63) in
  let t := corner_tok 1790000300 1000000000000000019884624838656 in
  JwtSpec.sane_now JwtProofs.ex_now
  /\ tol im
  /\ Jwt.accept im JwtProofs.ex_cfg JwtProofs.ex_jwks JwtProofs.ex_now t = true
  /\ accept_at JwtProofs.ex_now (summarize im JwtProofs.ex_cfg JwtProofs.ex_jwks t) = true
  /\ accept_at JwtProofs.ex_now (summarize_raw im JwtProofs.ex_cfg JwtProofs.ex_jwks t) = false.
Proof.
  split; [unfold JwtSpec.sane_now; vm_compute; split; discriminate|].
  split; [split; reflexivity|]. vm_compute. repeat split.
Qed.

(* non-vacuity of the bridge: an acceptable token, the same one second after
   its acceptance window, and one signed by another key *)
Example bridge_nonvacuous :
  let t := corner_tok 1790000300 1789999990 in
  let late := (1790000300 + 120) * Jwt.ns_per_s + 1 in
  Jwt.accept Jwt.repaired_impl JwtProofs.ex_cfg JwtProofs.ex_jwks JwtProofs.ex_now t = true
  /\ summarize Jwt.repaired_impl JwtProofs.ex_cfg JwtProofs.ex_jwks t
     = mkTok true true 1790000300 1789999990 None 0%N 0%N 0%N ClAbsent ClAbsent
  /\ accept_at JwtProofs.ex_now (summarize Jwt.repaired_impl JwtProofs.ex_cfg JwtProofs.ex_jwks t) = true
  /\ accept_at (late - 1) (summarize Jwt.repaired_impl JwtProofs.ex_cfg JwtProofs.ex_jwks t) = true
  /\ accept_at late (summarize Jwt.repaired_impl JwtProofs.ex_cfg JwtProofs.ex_jwks t) = false
  /\ Jwt.accept Jwt.repaired_impl JwtProofs.ex_cfg JwtProofs.ex_jwks late t = false
  /\ ti_static (summarize Jwt.repaired_impl JwtProofs.ex_cfg [Jwt.mkJwk 10 101 Jwt.KRSA true] t) = false.
Proof. vm_compute. repeat split. Qed.

(* ------------------------------------------------------------------ the gate of C01 *)

Lemma accept_at_with_session_fields now v o :
  accept_at now (with_session_fields v o) = accept_at now v.
Proof. reflexivity. Qed.

Section Gate.
  Variable E : env.
  Variable cfg : config.
  Variable im : Jwt.impl.
  Variable jcfg : Jwt.config.
  Variable jw : list Jwt.jwk.
  Variable rec : istr -> Jwt.token.

  Hypothesis Hrep : JwtProofs.repaired im = true.
  Hypothesis Hsum : env_summarized E im jcfg jw rec.

  (* what the request ladder calls acceptable is what C02 specifies *)
  Lemma accept_at_tok_spec now s : JwtSpec.sane_now now ->
    accept_at now (tok E s) = JwtSpec.spec jcfg jw now (rec s).
  Proof.
    intros Hn. rewrite (Hsum s), accept_at_with_session_fields. apply accept_at_spec; assumption.
  Qed.

  Theorem carried_session_meets_spec now rq : JwtSpec.sane_now now ->
    carries_valid_session E cfg now rq = true ->
    exists t, session_token E cfg now rq = TTok t /\ JwtSpec.spec jcfg jw now (rec t) = true.
  Proof.
    intros Hn Hc. unfold carries_valid_session in Hc. apply andb_prop in Hc. destruct Hc as [_ Hc].
    destruct (session_token E cfg now rq) as [|t|]; [discriminate| |discriminate].
    exists t. split; [reflexivity|]. rewrite <- (accept_at_tok_spec now t Hn). exact Hc.
  Qed.

  Theorem refreshed_meets_spec now rq ans r : JwtSpec.sane_now now ->
    refreshed_ok E cfg now rq ans r = true ->
    exists id rt, ans = Some (AOk id rt) /\ JwtSpec.spec jcfg jw now (rec id) = true.
  Proof.
    intros Hn Hr. unfold refreshed_ok in Hr.
    destruct ans as [[g|id rt]|]; [discriminate| |discriminate].
    destruct (r_calls r) as [|[c s h v|rt0] [|c2 l]]; try discriminate.
    exists id, rt. split; [reflexivity|]. rewrite <- (accept_at_tok_spec now id Hn).
    destruct (accept_at now (tok E id)); [reflexivity|]. rewrite andb_false_r in Hr. discriminate.
  Qed.

  (* read off the gate monitor: a gated request that is forwarded without a
     refresh in this step carried a valid session *)
  Theorem forwarded_unrefreshed_carries a now rq ans r :
    c01_gate E cfg a now rq ans r = true -> gated E cfg rq = true -> forwarded r = true ->
    refreshed_ok E cfg now rq ans r = false -> carries_valid_session E cfg now rq = true.
  Proof.
    intros Hgate Hg Hf Hr. unfold c01_gate in Hgate.
    rewrite (gated_not_excluded E cfg rq Hg), Hg, Hr, Hf, orb_false_r in Hgate.
    destruct (carries_valid_session E cfg now rq); [reflexivity|discriminate].
  Qed.

  Theorem c01_forward_meets_c02_spec st now rq rnd ans :
    env_ok E -> cfg_ok cfg -> inst_ok E st now -> i_ready st = true -> JwtSpec.sane_now now ->
    let r := snd (serve E cfg st now rq rnd ans) in
    gated E cfg rq = true -> forwarded r = true -> refreshed_ok E cfg now rq ans r = false ->
    exists t, session_token E cfg now rq = TTok t /\ JwtSpec.spec jcfg jw now (rec t) = true.
  Proof.
    intros He Hc Hok Hready Hn r Hg Hf Hr. apply (carried_session_meets_spec now rq Hn).
    pose proof (c01_serve E cfg st now rq rnd ans He Hc Hok Hready) as Hstep.
    unfold c01_step in Hstep. apply andb_prop in Hstep. destruct Hstep as [Hgate _].
    exact (forwarded_unrefreshed_carries (i_auth_url st) now rq ans r Hgate Hg Hf Hr).
  Qed.

  (* both ways a protected resource is reached: the token the request is served
     under satisfies the specification of C02 *)
  Theorem c01_forward_token_meets_spec st now rq rnd ans :
    env_ok E -> cfg_ok cfg -> inst_ok E st now -> i_ready st = true -> JwtSpec.sane_now now ->
    let r := snd (serve E cfg st now rq rnd ans) in
    gated E cfg rq = true -> forwarded r = true ->
    (exists t, session_token E cfg now rq = TTok t /\ JwtSpec.spec jcfg jw now (rec t) = true)
    \/ (exists id rt, ans = Some (AOk id rt) /\ JwtSpec.spec jcfg jw now (rec id) = true).
  Proof.
    intros He Hc Hok Hready Hn r Hg Hf.
    destruct (refreshed_ok E cfg now rq ans r) eqn:Hr.
    - right. exact (refreshed_meets_spec now rq ans r Hn Hr).
    - left. exact (c01_forward_meets_c02_spec st now rq rnd ans He Hc Hok Hready Hn Hg Hf Hr).
  Qed.
End Gate.
