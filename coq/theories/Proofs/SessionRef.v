(* Refinement of the session model (Model/Session.v run over arbitrary sequences
   of session-API calls, Corr/SessionCorr.v `model_run`) by the reference "every
   request reads what was last written AND saved" (`ref_run`), for ALL request
   lists that satisfy the boolean well-formedness predicate `wf_reqs` below.

   History: with `after_save` leaving s_jar_a / s_jar_r as the request carried
   them, the statement was false for "setter, Save, setter, Save/Clear" in one
   request (a chunk cookie written by the first Save and no longer used by the
   second one stayed in the browser).  That was a defect of session.go; since its
   repair a Save counts the chunk cookies it wrote (Nat.max in `after_save`), and
   those sequences are covered by the theorem (`refinement_covers_save_setter_save`,
   `refinement_covers_save_setter_clear`). *)
From VF Require Import Base.Prelude Model.Cache Model.Session Model.Codec Corr.SessionCorr Proofs.SessionProofs.
Open Scope nat_scope.

(* ================================================================== well-formedness *)

Definition is_save (o : sop) : bool := match o with SSave | SClear => true | _ => false end.
Definition has_save (l : list sop) : bool := existsb is_save l.

(* Calls after the last Save/Clear of a request are unconstrained (they are
   lost).  Before it: main-cookie fields 1 (authenticated) and 2 (created_at)
   are not written through the string setters, and no token setter is called
   after a Clear (`cleared`: a Clear happened in this request; Clear hands the
   object back to the pool). *)
Fixpoint wf_ops (cleared : bool) (l : list sop) : bool :=
  match l with
  | [] => true
  | o :: r =>
      negb (has_save (o :: r)) ||
      match o with
      | SAuth _ => wf_ops cleared r
      | SMain f _ => negb (N.eqb f 1) && negb (N.eqb f 2) && wf_ops cleared r
      | SAcc _ | SRef _ => negb cleared && wf_ops cleared r
      | SSave => wf_ops cleared r
      | SClear => wf_ops true r
      end
  end.

Definition wf_req (rq : sreq) : bool :=
  Z.leb 0 (sr_now rq) && Z.leb (sr_now rq) day_ns && wf_ops false (sr_ops rq).

Definition wf_reqs (l : list sreq) : bool := forallb wf_req l.

(* the hypothesis on the chunk counts: a non-empty token that is set and then
   saved has at least one chunk *)
Fixpoint tok_ops (nch : istr -> nat) (l : list sop) : bool :=
  match l with
  | [] => true
  | o :: r =>
      negb (has_save (o :: r)) ||
      (match o with
       | SAcc t | SRef t => N.eqb t 0 || Nat.leb 1 (nch t)
       | _ => true
       end && tok_ops nch r)
  end.

Definition nch_ok (nch : istr -> nat) (l : list sreq) : bool :=
  forallb (fun rq => tok_ops nch (sr_ops rq)) l.

(* ================================================================== projections of the setters *)

Section Proj.
  Variable nch : istr -> nat.

  Lemma auth_main now b sd : s_main (set_authenticated now b sd) =
    setf 1 (VB b) (if b then setf 2 (VZ (now / 1000000000)) (s_main sd) else s_main sd).
  Proof. reflexivity. Qed.
  Lemma auth_acc now b sd : s_acc (set_authenticated now b sd) = s_acc sd. Proof. reflexivity. Qed.
  Lemma auth_ref now b sd : s_ref (set_authenticated now b sd) = s_ref sd. Proof. reflexivity. Qed.
  Lemma auth_achunks now b sd : s_achunks (set_authenticated now b sd) = s_achunks sd. Proof. reflexivity. Qed.
  Lemma auth_rchunks now b sd : s_rchunks (set_authenticated now b sd) = s_rchunks sd. Proof. reflexivity. Qed.
  Lemma auth_jar_a now b sd : s_jar_a (set_authenticated now b sd) = s_jar_a sd. Proof. reflexivity. Qed.
  Lemma auth_jar_r now b sd : s_jar_r (set_authenticated now b sd) = s_jar_r sd. Proof. reflexivity. Qed.
  Lemma auth_marked_a now b sd : s_marked_a (set_authenticated now b sd) = s_marked_a sd. Proof. reflexivity. Qed.
  Lemma auth_marked_r now b sd : s_marked_r (set_authenticated now b sd) = s_marked_r sd. Proof. reflexivity. Qed.
  Lemma auth_live now b sd : s_live (set_authenticated now b sd) = s_live sd. Proof. reflexivity. Qed.

  Lemma main_main f s sd : s_main (set_main f s sd) = setf f (VS s) (s_main sd). Proof. reflexivity. Qed.
  Lemma main_acc f s sd : s_acc (set_main f s sd) = s_acc sd. Proof. reflexivity. Qed.
  Lemma main_ref f s sd : s_ref (set_main f s sd) = s_ref sd. Proof. reflexivity. Qed.
  Lemma main_achunks f s sd : s_achunks (set_main f s sd) = s_achunks sd. Proof. reflexivity. Qed.
  Lemma main_rchunks f s sd : s_rchunks (set_main f s sd) = s_rchunks sd. Proof. reflexivity. Qed.
  Lemma main_jar_a f s sd : s_jar_a (set_main f s sd) = s_jar_a sd. Proof. reflexivity. Qed.
  Lemma main_jar_r f s sd : s_jar_r (set_main f s sd) = s_jar_r sd. Proof. reflexivity. Qed.
  Lemma main_marked_a f s sd : s_marked_a (set_main f s sd) = s_marked_a sd. Proof. reflexivity. Qed.
  Lemma main_marked_r f s sd : s_marked_r (set_main f s sd) = s_marked_r sd. Proof. reflexivity. Qed.
  Lemma main_live f s sd : s_live (set_main f s sd) = s_live sd. Proof. reflexivity. Qed.

  Ltac sa sd t := unfold set_access; destruct (store_token nch t (s_acc sd)); reflexivity.
  Lemma acc_main t sd : s_main (set_access nch t sd) = s_main sd. Proof. sa sd t. Qed.
  Lemma acc_acc t sd : s_acc (set_access nch t sd) = fst (store_token nch t (s_acc sd)). Proof. sa sd t. Qed.
  Lemma acc_ref t sd : s_ref (set_access nch t sd) = s_ref sd. Proof. sa sd t. Qed.
  Lemma acc_achunks t sd : s_achunks (set_access nch t sd) = snd (store_token nch t (s_acc sd)). Proof. sa sd t. Qed.
  Lemma acc_rchunks t sd : s_rchunks (set_access nch t sd) = s_rchunks sd. Proof. sa sd t. Qed.
  Lemma acc_jar_a t sd : s_jar_a (set_access nch t sd) = s_jar_a sd. Proof. sa sd t. Qed.
  Lemma acc_jar_r t sd : s_jar_r (set_access nch t sd) = s_jar_r sd. Proof. sa sd t. Qed.
  Lemma acc_marked_a t sd : s_marked_a (set_access nch t sd) = s_marked_a sd || s_live sd. Proof. sa sd t. Qed.
  Lemma acc_marked_r t sd : s_marked_r (set_access nch t sd) = s_marked_r sd. Proof. sa sd t. Qed.
  Lemma acc_live t sd : s_live (set_access nch t sd) = s_live sd. Proof. sa sd t. Qed.

  Ltac sr sd t := unfold set_refresh; destruct (store_token nch t (s_ref sd)); reflexivity.
  Lemma ref_main t sd : s_main (set_refresh nch t sd) = s_main sd. Proof. sr sd t. Qed.
  Lemma ref_acc t sd : s_acc (set_refresh nch t sd) = s_acc sd. Proof. sr sd t. Qed.
  Lemma ref_ref t sd : s_ref (set_refresh nch t sd) = fst (store_token nch t (s_ref sd)). Proof. sr sd t. Qed.
  Lemma ref_achunks t sd : s_achunks (set_refresh nch t sd) = s_achunks sd. Proof. sr sd t. Qed.
  Lemma ref_rchunks t sd : s_rchunks (set_refresh nch t sd) = snd (store_token nch t (s_ref sd)). Proof. sr sd t. Qed.
  Lemma ref_jar_a t sd : s_jar_a (set_refresh nch t sd) = s_jar_a sd. Proof. sr sd t. Qed.
  Lemma ref_jar_r t sd : s_jar_r (set_refresh nch t sd) = s_jar_r sd. Proof. sr sd t. Qed.
  Lemma ref_marked_a t sd : s_marked_a (set_refresh nch t sd) = s_marked_a sd. Proof. sr sd t. Qed.
  Lemma ref_marked_r t sd : s_marked_r (set_refresh nch t sd) = s_marked_r sd || s_live sd. Proof. sr sd t. Qed.
  Lemma ref_live t sd : s_live (set_refresh nch t sd) = s_live sd. Proof. sr sd t. Qed.

  Lemma clear_eq sd : clear sd =
    (mkSd [] [] [] (empty_payloads (s_achunks sd)) (empty_payloads (s_rchunks sd))
          (s_jar_a sd) (s_jar_r sd) false false false, save_cookies (cleared sd)).
  Proof. reflexivity. Qed.

  (* a token setter followed by the getter, also for the empty text with no chunk at all *)
  Lemma read_store_gen t old : (N.eqb t 0 || Nat.leb 1 (nch t)) = true ->
    read_token nch (fst (store_token nch t old)) (snd (store_token nch t old)) = tval_of t.
  Proof.
    intros H. destruct (Nat.leb 1 (nch t)) eqn:E.
    - apply Nat.leb_le in E. pose proof (read_store nch t old E) as R.
      destruct (store_token nch t old) as [tk ch]. exact R.
    - rewrite orb_false_r in H. apply N.eqb_eq in H. subst t. apply Nat.leb_gt in E.
      assert (E0 : nch 0%N = 0) by lia. unfold store_token, whole. rewrite E0.
      cbn [Nat.leb seq map fst snd]. unfold read_token. rewrite get_text_setf_same. reflexivity.
  Qed.
End Proj.

(* ================================================================== the representation invariant *)

Section Ref.
  Variable nch : istr -> nat.
  Variable k : N.

  (* the main cookie's payload carries the main values of the reference record *)
  Definition main_ok (m : payload) (s : sref) : Prop :=
    get_bool 1 m = rf_auth s
    /\ match getf 2 m with
       | Some (VZ c) => c = rf_created s /\ (0 <= c)%Z
       | None => rf_auth s = false
       | _ => False
       end
    /\ get_str 6 m = rf_email s /\ get_str 3 m = rf_csrf s /\ get_str 4 m = rf_nonce s
    /\ get_str 5 m = rf_verifier s /\ get_str 7 m = rf_incoming s.

  (* a SessionData (bookkeeping fields ignored) carries the values of a reference record *)
  Definition sd_ok (sd : sdata) (s : sref) : Prop :=
    main_ok (s_main sd) s
    /\ read_token nch (s_acc sd) (s_achunks sd) = rf_acc s
    /\ read_token nch (s_ref sd) (s_rchunks sd) = rf_ref s.

  (* the browser's jar is contiguous and holds a session that carries the stored values *)
  Definition Rep (j : jar) (s : sref) : Prop :=
    exists sv, holds_session k j sv /\ sd_ok sv s.

  Lemma main_ok_empty : main_ok [] ref_empty.
  Proof. unfold main_ok. cbn. repeat split; reflexivity. Qed.

  Theorem Rep_empty : Rep [] ref_empty.
  Proof.
    exists (mkSd [] [] [] [] [] 0 0 false false true). split.
    - unfold holds_session, jar_holds. cbn [s_main s_acc s_ref s_achunks s_rchunks length].
      repeat split; try reflexivity; try constructor; cbn; try tauto; lia.
    - unfold sd_ok. cbn [s_main s_acc s_ref s_achunks s_rchunks].
      split; [exact main_ok_empty|split; reflexivity].
  Qed.

  Lemma main_ok_not_old now m s : (now <= day_ns)%Z -> main_ok m s -> session_too_old now m = false.
  Proof.
    intros Hn (_ & H2 & _). unfold session_too_old.
    destruct (getf 2 m) as [[b|c|x|x]|]; try reflexivity.
    destruct H2 as [_ Hc]. apply Z.ltb_ge. lia.
  Qed.

  Lemma main_ok_auth_read now m s : main_ok m s ->
    (get_bool 1 m && match getf 2 m with
                     | Some (VZ c) => Z.leb (now - c * 1000000000) day_ns
                     | _ => false
                     end)
    = (rf_auth s && Z.leb (now - rf_created s * 1000000000) day_ns_ref).
  Proof.
    intros (H1 & H2 & _). rewrite H1.
    destruct (getf 2 m) as [[b|c|x|x]|]; try (exfalso; exact H2).
    - destruct H2 as [-> _]. reflexivity.
    - rewrite H2. reflexivity.
  Qed.

  (* reads at the start of a request *)
  Lemma load_of_Rep now j sv s : (now <= day_ns)%Z -> holds_session k j sv -> sd_ok sv s ->
    load k now j = mkSd (s_main sv) (s_acc sv) (s_ref sv) (s_achunks sv) (s_rchunks sv)
                        (length (s_achunks sv)) (length (s_rchunks sv)) false false true.
  Proof.
    intros Hn Hh (Hm & _). apply (load_of_holds _ _ _ _ _ _ _ _ Hh).
    exact (main_ok_not_old _ _ _ Hn Hm).
  Qed.

  Lemma reads_of_Rep now j s : (now <= day_ns)%Z -> Rep j s ->
    model_reads nch now (load k now j) = ref_reads now s.
  Proof.
    intros Hn (sv & Hh & Hok). rewrite (load_of_Rep now j sv s Hn Hh Hok).
    destruct Hok as (Hm & Ha & Hr).
    unfold model_reads, ref_reads, authenticated, get_access, get_refresh.
    cbn [s_main s_acc s_ref s_achunks s_rchunks].
    rewrite (main_ok_auth_read now _ _ Hm), Ha, Hr.
    destruct Hm as (_ & _ & H6 & H3 & H4 & H5 & H7). rewrite H6, H3, H4, H5, H7. reflexivity.
  Qed.

  (* ---------------------------------------------------------------- the setters on the main payload *)

  Lemma main_ok_auth now b m s : (0 <= now)%Z -> main_ok m s ->
    main_ok (setf 1 (VB b) (if b then setf 2 (VZ (now / 1000000000)) m else m))
            (mkRef b (if b then (now / 1000000000)%Z else rf_created s) (rf_email s) (rf_csrf s) (rf_nonce s)
                   (rf_verifier s) (rf_incoming s) (rf_acc s) (rf_ref s)).
  Proof.
    intros Hn (H1 & H2 & H6 & H3 & H4 & H5 & H7). unfold main_ok.
    cbn [rf_auth rf_created rf_email rf_csrf rf_nonce rf_verifier rf_incoming].
    split; [apply get_bool_setf_same|].
    split.
    - rewrite getf_setf_other by discriminate. destruct b.
      + rewrite getf_setf_same. split; [reflexivity|]. apply Z.div_pos; lia.
      + destruct (getf 2 m) as [[x|c|x|x]|]; try exact H2. reflexivity.
    - rewrite !(get_str_setf_other _ 1%N) by discriminate.
      destruct b; [rewrite !(get_str_setf_other _ 2%N) by discriminate|]; auto.
  Qed.

  Lemma get_str_setf g f s m : get_str g (setf f (VS s) m) = if N.eqb f g then s else get_str g m.
  Proof.
    destruct (N.eqb_spec f g) as [->|Hne]; [apply get_str_setf_same|].
    apply get_str_setf_other. congruence.
  Qed.

  Lemma main_ok_set f s m r : f <> 1%N -> f <> 2%N -> main_ok m r ->
    main_ok (setf f (VS s) m)
            (mkRef (rf_auth r) (rf_created r)
                   (if N.eqb f 6 then s else rf_email r) (if N.eqb f 3 then s else rf_csrf r)
                   (if N.eqb f 4 then s else rf_nonce r) (if N.eqb f 5 then s else rf_verifier r)
                   (if N.eqb f 7 then s else rf_incoming r) (rf_acc r) (rf_ref r)).
  Proof.
    intros Hf1 Hf2 (H1 & H2 & H6 & H3 & H4 & H5 & H7). unfold main_ok.
    cbn [rf_auth rf_created rf_email rf_csrf rf_nonce rf_verifier rf_incoming].
    rewrite get_bool_setf_other by congruence. rewrite getf_setf_other by congruence.
    rewrite !get_str_setf, H6, H3, H4, H5, H7. auto 10.
  Qed.

  (* main_ok only looks at the main values *)
  Lemma main_ok_tokens m s a r : main_ok m s ->
    main_ok m (mkRef (rf_auth s) (rf_created s) (rf_email s) (rf_csrf s) (rf_nonce s) (rf_verifier s)
                     (rf_incoming s) a r).
  Proof. intros H. exact H. Qed.

  (* ---------------------------------------------------------------- inside one request *)

  (* bookkeeping of one token family against the number c of its chunk cookies
     in the browser's jar after the Set-Cookie headers emitted so far *)
  Definition fam_inv (cleared live : bool) (in_jar : nat) (marked : bool) (len c : nat) : Prop :=
    if cleared then len = c
    else live = true /\ c <= in_jar /\ (marked = true \/ len = c).

  Lemma fam_inv_cov cl live in_jar marked len c : fam_inv cl live in_jar marked len c -> cov c len marked in_jar.
  Proof.
    unfold cov, fam_inv. destruct cl.
    - intros H. left. lia.
    - intros (_ & H & [Hm|Hl]); [right; split; assumption|left; lia].
  Qed.

  (* j0: the jar of the request; sd, cs: the session object and the Set-Cookie
     headers so far; cur, stored: the reference's current and stored values *)
  Definition Inv (j0 : jar) (cl : bool) (sd : sdata) (cs : list setcookie) (cur stored : sref) : Prop :=
    exists sv, holds_session k (apply_cookies k j0 cs) sv /\ sd_ok sv stored
      /\ sd_ok sd cur
      /\ fam_inv cl (s_live sd) (s_jar_a sd) (s_marked_a sd) (length (s_achunks sd)) (length (s_achunks sv))
      /\ fam_inv cl (s_live sd) (s_jar_r sd) (s_marked_r sd) (length (s_rchunks sd)) (length (s_rchunks sv)).

  Definition InvP (j0 : jar) (cl : bool) (st : sdata * list setcookie) (rs : sref * sref) : Prop :=
    Inv j0 cl (fst st) (snd st) (fst rs) (snd rs).

  Lemma Inv_Rep j0 cl sd cs cur stored : Inv j0 cl sd cs cur stored -> Rep (apply_cookies k j0 cs) stored.
  Proof. intros (sv & Hh & Hok & _). exists sv. split; assumption. Qed.

  Lemma Inv_start now j s : (now <= day_ns)%Z -> Rep j s -> Inv j false (load k now j) [] s s.
  Proof.
    intros Hn (sv & Hh & Hok). rewrite (load_of_Rep now j sv s Hn Hh Hok).
    exists sv. split; [exact Hh|]. split; [exact Hok|].
    split; [exact Hok|]. cbn [fam_inv s_live s_jar_a s_jar_r s_marked_a s_marked_r s_achunks s_rchunks]. auto 10.
  Qed.

  Lemma wf_ops_cons cl o r : has_save (o :: r) = true -> wf_ops cl (o :: r) = true ->
    match o with
    | SAuth _ => wf_ops cl r
    | SMain f _ => negb (N.eqb f 1) && negb (N.eqb f 2) && wf_ops cl r
    | SAcc _ | SRef _ => negb cl && wf_ops cl r
    | SSave => wf_ops cl r
    | SClear => wf_ops true r
    end = true.
  Proof. intros Hs H. cbn [wf_ops] in H. rewrite Hs in H. exact H. Qed.

  Lemma tok_ops_cons o r : has_save (o :: r) = true -> tok_ops nch (o :: r) = true ->
    match o with
    | SAcc t | SRef t => N.eqb t 0 || Nat.leb 1 (nch t)
    | _ => true
    end = true /\ tok_ops nch r = true.
  Proof. intros Hs H. cbn [tok_ops] in H. rewrite Hs in H. apply andb_true_iff in H. exact H. Qed.

  Lemma cleared_ok sd : sd_ok (cleared sd) ref_empty.
  Proof.
    unfold sd_ok, cleared. cbn [s_main s_acc s_ref s_achunks s_rchunks].
    split; [exact main_ok_empty|]. split; apply read_token_empty.
  Qed.

  (* one call, while a Save or Clear is still to come in the request *)
  Lemma step now j0 o r cl sd cs cur stored :
    (0 <= now)%Z -> has_save (o :: r) = true ->
    wf_ops cl (o :: r) = true -> tok_ops nch (o :: r) = true ->
    Inv j0 cl sd cs cur stored ->
    exists cl', wf_ops cl' r = true /\ tok_ops nch r = true
      /\ InvP j0 cl' (model_op nch now (sd, cs) o) (ref_op now (cur, stored) o).
  Proof.
    intros Hn Hs Hwf Htok (sv & Hh & Hsv & (Hm & Ha & Hr) & Hfa & Hfr).
    pose proof (wf_ops_cons _ _ _ Hs Hwf) as W. destruct (tok_ops_cons _ _ Hs Htok) as [T Tr].
    unfold InvP. destruct o as [b|f s|t|t| |]; cbn [model_op ref_op fst snd].
    - (* SetAuthenticated *)
      exists cl. split; [exact W|]. split; [exact Tr|].
      exists sv. split; [exact Hh|]. split; [exact Hsv|]. split.
      + unfold sd_ok. rewrite auth_main, auth_acc, auth_ref, auth_achunks, auth_rchunks.
        cbn [rf_acc rf_ref]. split; [apply main_ok_auth; assumption|]. split; assumption.
      + rewrite auth_live, auth_jar_a, auth_jar_r, auth_marked_a, auth_marked_r, auth_achunks, auth_rchunks.
        split; assumption.
    - (* a string setter of the main cookie *)
      apply andb_true_iff in W as [W W3]. apply andb_true_iff in W as [W1 W2].
      apply negb_true_iff, N.eqb_neq in W1. apply negb_true_iff, N.eqb_neq in W2.
      exists cl. split; [exact W3|]. split; [exact Tr|].
      exists sv. split; [exact Hh|]. split; [exact Hsv|]. split.
      + unfold sd_ok. rewrite main_main, main_acc, main_ref, main_achunks, main_rchunks.
        cbn [rf_acc rf_ref]. split; [apply main_ok_set; assumption|]. split; assumption.
      + rewrite main_live, main_jar_a, main_jar_r, main_marked_a, main_marked_r, main_achunks, main_rchunks.
        split; assumption.
    - (* SetAccessToken, not after a Clear *)
      apply andb_true_iff in W as [W1 W2]. apply negb_true_iff in W1. subst cl.
      exists false. split; [exact W2|]. split; [exact Tr|].
      exists sv. split; [exact Hh|]. split; [exact Hsv|]. split.
      + unfold sd_ok. rewrite acc_main, acc_acc, acc_ref, acc_achunks, acc_rchunks.
        cbn [rf_acc rf_ref]. split; [apply main_ok_tokens; exact Hm|].
        split; [apply read_store_gen; exact T|exact Hr].
      + rewrite acc_live, acc_jar_a, acc_jar_r, acc_marked_a, acc_marked_r, acc_achunks, acc_rchunks.
        split; [|exact Hfr]. cbn [fam_inv] in *.
        destruct Hfa as (Hl & Hj & _). rewrite Hl, orb_true_r. auto.
    - (* SetRefreshToken, not after a Clear *)
      apply andb_true_iff in W as [W1 W2]. apply negb_true_iff in W1. subst cl.
      exists false. split; [exact W2|]. split; [exact Tr|].
      exists sv. split; [exact Hh|]. split; [exact Hsv|]. split.
      + unfold sd_ok. rewrite ref_main, ref_acc, ref_ref, ref_achunks, ref_rchunks.
        cbn [rf_acc rf_ref]. split; [apply main_ok_tokens; exact Hm|].
        split; [exact Ha|apply read_store_gen; exact T].
      + rewrite ref_live, ref_jar_a, ref_jar_r, ref_marked_a, ref_marked_r, ref_achunks, ref_rchunks.
        split; [exact Hfa|]. cbn [fam_inv] in *.
        destruct Hfr as (Hl & Hj & _). rewrite Hl, orb_true_r. auto.
    - (* Clear *)
      rewrite clear_eq. cbn [fst snd].
      exists true. split; [exact W|]. split; [exact Tr|].
      exists (cleared sd). split.
      + rewrite apply_cookies_app. destruct Hh as (Hc & _).
        apply (save_holds k _ (cleared sd) _ _ Hc); unfold cleared;
          cbn [s_achunks s_rchunks s_marked_a s_marked_r s_jar_a s_jar_r]; rewrite empty_payloads_length;
          [exact (fam_inv_cov _ _ _ _ _ _ Hfa)|exact (fam_inv_cov _ _ _ _ _ _ Hfr)].
      + split; [apply cleared_ok|]. split; [apply (cleared_ok sd)|].
        unfold cleared. cbn [fam_inv s_achunks s_rchunks]. split; reflexivity.
    - (* Save: the chunk cookies it writes count from now on like the request's *)
      exists cl. split; [exact W|]. split; [exact Tr|].
      exists sd. split.
      + rewrite apply_cookies_app. destruct Hh as (Hc & _).
        apply (save_holds k _ sd _ _ Hc);
          [exact (fam_inv_cov _ _ _ _ _ _ Hfa)|exact (fam_inv_cov _ _ _ _ _ _ Hfr)].
      + split; [exact (conj Hm (conj Ha Hr))|]. split; [exact (conj Hm (conj Ha Hr))|].
        unfold after_save. cbn [s_live s_jar_a s_jar_r s_marked_a s_marked_r s_achunks s_rchunks].
        destruct cl; cbn [fam_inv] in *; [split; reflexivity|].
        destruct Hfa as (Hl & _ & _). split; (split; [exact Hl|split; [lia|right; reflexivity]]).
  Qed.

  (* calls after the last Save / Clear of a request emit nothing and store nothing *)
  Lemma nosave_model now ops : has_save ops = false -> forall st,
    snd (fold_left (model_op nch now) ops st) = snd st.
  Proof.
    induction ops as [|o r IH]; intros Hs st; [reflexivity|].
    cbn [has_save existsb] in Hs. apply orb_false_iff in Hs as [Ho Hr].
    cbn [fold_left]. rewrite (IH Hr). destruct st as [sd cs].
    destruct o; try discriminate Ho; reflexivity.
  Qed.

  Lemma nosave_ref now ops : has_save ops = false -> forall rs,
    snd (fold_left (ref_op now) ops rs) = snd rs.
  Proof.
    induction ops as [|o r IH]; intros Hs rs; [reflexivity|].
    cbn [has_save existsb] in Hs. apply orb_false_iff in Hs as [Ho Hr].
    cbn [fold_left]. rewrite (IH Hr). destruct rs as [cur stored].
    destruct o; try discriminate Ho; reflexivity.
  Qed.

  (* all calls of one request *)
  Lemma fold_inv now j0 : (0 <= now)%Z -> forall ops cl st rs,
    wf_ops cl ops = true -> tok_ops nch ops = true -> InvP j0 cl st rs ->
    Rep (apply_cookies k j0 (snd (fold_left (model_op nch now) ops st)))
        (snd (fold_left (ref_op now) ops rs)).
  Proof.
    intros Hn. induction ops as [|o r IH]; intros cl st rs Hwf Htok HI.
    - exact (Inv_Rep _ _ _ _ _ _ HI).
    - destruct (has_save (o :: r)) eqn:Hs.
      + destruct st as [sd cs], rs as [cur stored]. unfold InvP in HI. cbn [fst snd] in HI.
        destruct (step now j0 o r cl sd cs cur stored Hn Hs Hwf Htok HI) as (cl' & W & T & HI').
        cbn [fold_left]. exact (IH cl' _ _ W T HI').
      + rewrite (nosave_model now _ Hs), (nosave_ref now _ Hs). exact (Inv_Rep _ _ _ _ _ _ HI).
  Qed.

  Lemma model_request_eq j rq : model_request nch k j rq =
    (model_reads nch (sr_now rq) (load k (sr_now rq) j),
     apply_cookies k j (snd (fold_left (model_op nch (sr_now rq)) (sr_ops rq) (load k (sr_now rq) j, [])))).
  Proof.
    unfold model_request.
    destruct (fold_left (model_op nch (sr_now rq)) (sr_ops rq) (load k (sr_now rq) j, [])) as [sd cs].
    reflexivity.
  Qed.

  (* THE REQUEST STEP: the reads are those of the reference, and the browser's
     jar afterwards represents what the reference stored *)
  Theorem request_refines j s rq : wf_req rq = true -> tok_ops nch (sr_ops rq) = true -> Rep j s ->
    fst (model_request nch k j rq) = ref_reads (sr_now rq) s
    /\ Rep (snd (model_request nch k j rq)) (snd (fold_left (ref_op (sr_now rq)) (sr_ops rq) (s, s))).
  Proof.
    intros Hwf Htok HR. unfold wf_req in Hwf.
    apply andb_true_iff in Hwf as [Hwf Hops]. apply andb_true_iff in Hwf as [H0 H1].
    apply Z.leb_le in H0. apply Z.leb_le in H1.
    rewrite model_request_eq. cbn [fst snd]. split; [exact (reads_of_Rep _ _ _ H1 HR)|].
    apply (fold_inv (sr_now rq) j H0 (sr_ops rq) false); [exact Hops|exact Htok|].
    unfold InvP. cbn [fst snd]. exact (Inv_start _ _ _ H1 HR).
  Qed.

  Theorem run_refines : forall reqs j s,
    wf_reqs reqs = true -> nch_ok nch reqs = true -> Rep j s ->
    model_run nch k j reqs = ref_run s reqs.
  Proof.
    induction reqs as [|rq reqs IH]; intros j s Hwf Hn HR; [reflexivity|].
    cbn [wf_reqs forallb] in Hwf. apply andb_true_iff in Hwf as [Hrq Hwf].
    cbn [nch_ok forallb] in Hn. apply andb_true_iff in Hn as [Htok Hn].
    destruct (request_refines j s rq Hrq Htok HR) as [Hreads HR'].
    cbn [model_run ref_run].
    destruct (model_request nch k j rq) as [rd j'].
    destruct (fold_left (ref_op (sr_now rq)) (sr_ops rq) (s, s)) as [cur' stored'].
    cbn [fst snd] in *. rewrite Hreads. f_equal. exact (IH j' stored' Hwf Hn HR').
  Qed.
End Ref.

(* ================================================================== the refinement theorem *)

Theorem model_refines_ref : forall (nch : istr -> nat) (k : N) (reqs : list sreq),
  wf_reqs reqs = true -> nch_ok nch reqs = true ->
  model_run nch k [] reqs = ref_run ref_empty reqs.
Proof. intros nch k reqs Hwf Hn. exact (run_refines nch k reqs [] ref_empty Hwf Hn (Rep_empty nch k)). Qed.

(* the hypothesis on nch follows from: every non-empty token has at least one chunk *)
Lemma tok_ops_of_pos nch : (forall t, t <> 0%N -> 1 <= nch t) -> forall l, tok_ops nch l = true.
Proof.
  intros H. induction l as [|o r IH]; [reflexivity|]. cbn [tok_ops]. rewrite IH, andb_true_r.
  apply orb_true_iff. right.
  destruct o as [b|f s|t|t| |]; try reflexivity;
    (destruct (N.eqb_spec t 0) as [->|Hne]; [reflexivity|]; apply Nat.leb_le, H, Hne).
Qed.

Lemma nch_ok_of_pos nch : (forall t, t <> 0%N -> 1 <= nch t) -> forall reqs, nch_ok nch reqs = true.
Proof.
  intros H reqs. unfold nch_ok. apply forallb_forall. intros rq _. apply tok_ops_of_pos, H.
Qed.

Corollary model_refines_ref_pos : forall (nch : istr -> nat) (k : N) (reqs : list sreq),
  (forall t, t <> 0%N -> 1 <= nch t) ->
  wf_reqs reqs = true ->
  model_run nch k [] reqs = ref_run ref_empty reqs.
Proof. intros nch k reqs H Hwf. apply model_refines_ref; [exact Hwf|apply nch_ok_of_pos, H]. Qed.

(* ---------------------------------------------------------------- on the generated cases of Corr/SessionCorr.v *)

Lemma reads_eqb_refl a : reads_eqb a a = true.
Proof.
  unfold reads_eqb. rewrite Bool.eqb_reflx, !N.eqb_refl, !tval_eqb_refl. reflexivity.
Qed.

Lemma all_reads_eq_refl l : all_reads_eq l l = true.
Proof. induction l as [|a l IH]; [reflexivity|]. cbn [all_reads_eq]. rewrite reads_eqb_refl, IH. reflexivity. Qed.

(* on a well-formed case the model and the reference never differ, so "the
   implementation differs from the model" and "the implementation does not read
   back what was last written and saved" are the same verdict *)
Corollary model_vs_ref_false c :
  wf_reqs (sc_reqs c) = true -> nch_ok (nch_of (sc_nchunks c)) (sc_reqs c) = true -> model_vs_ref c = false.
Proof.
  intros Hwf Hn. unfold model_vs_ref. rewrite (model_refines_ref _ (sc_key c) _ Hwf Hn), all_reads_eq_refl. reflexivity.
Qed.

Corollary smismatch_is_violation c :
  wf_reqs (sc_reqs c) = true -> nch_ok (nch_of (sc_nchunks c)) (sc_reqs c) = true ->
  smismatch c = violates_c07s c.
Proof.
  intros Hwf Hn. unfold smismatch, violates_c07s. rewrite (model_refines_ref _ (sc_key c) _ Hwf Hn). reflexivity.
Qed.

(* ================================================================== non-vacuity *)

Open Scope N_scope.

Definition ex_obs : sreads := mkReads false 0 0 0 0 0 TEmpty TEmpty.

(* seven requests of one browser; token 1 takes 3 chunk cookies, token 2 takes 2,
   token 3 fits the token cookie (ex_nc of SessionProofs.v).  Saves with setters
   in between, unsaved calls after the last Save of a request, a chunked token
   overwritten by a smaller one, an emptied refresh token; in the fourth request
   "setter, Save, setter, Save, setter, Save" of both families with shrinking
   chunk counts; in the fifth "setter, Save, setter, Clear"; a login after the
   Clear. *)
Definition ex_reqs : list sreq :=
  [ mkSReq 1000000000%Z ex_obs [SAuth true; SMain 6 11; SMain 3 12; SAcc 1; SRef 2; SSave];
    mkSReq 2000000000%Z ex_obs [SAcc 3; SMain 4 13; SSave; SMain 5 14; SRef 1];
    mkSReq 3000000000%Z ex_obs [SSave; SRef 0; SAcc 2; SSave; SAuth false];
    mkSReq 4000000000%Z ex_obs [SAcc 1; SRef 1; SSave; SAcc 2; SRef 3; SSave; SAcc 3; SSave];
    mkSReq 5000000000%Z ex_obs [SMain 7 15; SAcc 1; SSave; SAcc 3; SClear];
    mkSReq 6000000000%Z ex_obs [SAcc 1; SSave];
    mkSReq 7000000000%Z ex_obs [] ].

Example refinement_example :
  wf_reqs ex_reqs = true
  /\ nch_ok ex_nc ex_reqs = true
  /\ model_run ex_nc 7 [] ex_reqs = ref_run ref_empty ex_reqs
  /\ ref_run ref_empty ex_reqs =
     [ mkReads false 0 0 0 0 0 TEmpty TEmpty;
       mkReads true 11 12 0 0 0 (TTok 1) (TTok 2);
       mkReads true 11 12 13 0 0 (TTok 3) (TTok 2);
       mkReads true 11 12 13 0 0 (TTok 2) TEmpty;
       mkReads true 11 12 13 0 0 (TTok 3) (TTok 3);
       mkReads false 0 0 0 0 0 TEmpty TEmpty;
       mkReads false 0 0 0 0 0 (TTok 1) TEmpty ].
Proof. vm_compute. repeat split. Qed.

(* ================================================================== the former counterexamples *)

(* A token setter between two Saves of one request, after a Save that wrote
   more chunk cookies than the request carried.  Before the repair the second
   Save computed its deletions from the request's chunk cookies only (none) and
   the third chunk cookie of token 1 stayed in the browser; now it is deleted
   and both sides read token 2. *)
Definition cex_save : list sreq :=
  [ mkSReq 1000000000%Z ex_obs [SAcc 1; SSave; SAcc 2; SSave]; mkSReq 2000000000%Z ex_obs [] ].

Example refinement_covers_save_setter_save :
  wf_reqs cex_save = true
  /\ nch_ok ex_nc cex_save = true
  /\ map rd_acc (model_run ex_nc 7 [] cex_save) = [TEmpty; TTok 2]
  /\ map rd_acc (ref_run ref_empty cex_save) = [TEmpty; TTok 2]
  /\ snd (model_request ex_nc 7 [] (mkSReq 1000000000%Z ex_obs [SAcc 1; SSave; SAcc 2; SSave])) =
     [ (CAccChunk 1, Sealed 7 (CAccChunk 1) [(1, VC [PSlice 2 1])]);
       (CAccChunk 0, Sealed 7 (CAccChunk 0) [(1, VC [PSlice 2 0])]);
       (CRef, Sealed 7 CRef []);
       (CAcc, Sealed 7 CAcc [(1, VC []); (2, VB true)]);
       (CMain, Sealed 7 CMain []) ].
Proof. vm_compute. repeat split. Qed.

(* the same with Clear as the second Save: the three chunk cookies of token 1 are deleted by the Clear *)
Definition cex_clear : list sreq :=
  [ mkSReq 1000000000%Z ex_obs [SAcc 1; SSave; SAcc 3; SClear]; mkSReq 2000000000%Z ex_obs [] ].

Example refinement_covers_save_setter_clear :
  wf_reqs cex_clear = true
  /\ nch_ok ex_nc cex_clear = true
  /\ map rd_acc (model_run ex_nc 7 [] cex_clear) = [TEmpty; TEmpty]
  /\ map rd_acc (ref_run ref_empty cex_clear) = [TEmpty; TEmpty]
  /\ snd (model_request ex_nc 7 [] (mkSReq 1000000000%Z ex_obs [SAcc 1; SSave; SAcc 3; SClear])) =
     [ (CRef, Sealed 7 CRef []); (CAcc, Sealed 7 CAcc []); (CMain, Sealed 7 CMain []) ].
Proof. vm_compute. repeat split. Qed.

Definition ok_save : list sreq :=
  [ mkSReq 1000000000%Z ex_obs [SSave; SAcc 1; SSave]; mkSReq 2000000000%Z ex_obs [SSave; SAcc 2; SSave];
    mkSReq 3000000000%Z ex_obs [] ].

Example refinement_covers_save_first :
  wf_reqs ok_save = true
  /\ map rd_acc (model_run ex_nc 7 [] ok_save) = [TEmpty; TTok 1; TTok 2]
  /\ map rd_acc (ref_run ref_empty ok_save) = [TEmpty; TTok 1; TTok 2].
Proof. vm_compute. repeat split. Qed.

(* ================================================================== the remaining side conditions are needed *)

(* a non-empty token with no chunk at all reads back as the empty text *)
Definition cex_nch : list sreq :=
  [ mkSReq 1000000000%Z ex_obs [SAcc 1; SSave]; mkSReq 2000000000%Z ex_obs [] ].

Example refinement_needs_nch :
  wf_reqs cex_nch = true
  /\ nch_ok (fun _ => 0%nat) cex_nch = false
  /\ map rd_acc (model_run (fun _ => 0%nat) 7 [] cex_nch) = [TEmpty; TEmpty]
  /\ map rd_acc (ref_run ref_empty cex_nch) = [TEmpty; TTok 1].
Proof. vm_compute. repeat split. Qed.

(* a string setter on field 1 (authenticated) of the main cookie: not among the harness's 3..7 *)
Definition cex_field : list sreq :=
  [ mkSReq 1000000000%Z ex_obs [SAuth true; SMain 1 5; SSave]; mkSReq 2000000000%Z ex_obs [] ].

Example refinement_needs_fields :
  wf_reqs cex_field = false
  /\ map rd_auth (model_run ex_nc 7 [] cex_field) = [false; false]
  /\ map rd_auth (ref_run ref_empty cex_field) = [false; true].
Proof. vm_compute. repeat split. Qed.

(* a request more than 24 h after the login: the model (GetSession's absolute
   timeout) drops every value, the reference only the authenticated flag *)
Definition cex_time : list sreq :=
  [ mkSReq 1000000000%Z ex_obs [SAuth true; SMain 6 11; SSave]; mkSReq 86402000000000%Z ex_obs [] ].

Example refinement_needs_time :
  wf_reqs cex_time = false
  /\ map rd_email (model_run ex_nc 7 [] cex_time) = [0; 0]
  /\ map rd_email (ref_run ref_empty cex_time) = [0; 11].
Proof. vm_compute. repeat split. Qed.

(* token setters and Saves on a session object AFTER its Clear (never done: Clear
   hands the object back to the pool, hypothesis (a) of the harness): the
   object has forgotten its request, the setters mark nothing, and the stale
   chunk cookie of the Save after the Clear stays *)
Definition cex_after_clear : list sreq :=
  [ mkSReq 1000000000%Z ex_obs [SClear; SAcc 1; SSave; SAcc 2; SSave]; mkSReq 2000000000%Z ex_obs [] ].

Example refinement_needs_no_setter_after_clear :
  wf_reqs cex_after_clear = false
  /\ map rd_acc (model_run ex_nc 7 [] cex_after_clear) = [TEmpty; TJunk]
  /\ map rd_acc (ref_run ref_empty cex_after_clear) = [TEmpty; TTok 2].
Proof. vm_compute. repeat split. Qed.

(* ================================================================== how tight wf_ops is (small shapes, exhaustively) *)

(* shapes of one request's calls: 0 = SetAccessToken ?, 3 = SetRefreshToken ?, 1 = Save, 2 = Clear *)
Fixpoint shapes (n : nat) : list (list N) :=
  match n with O => [[]] | S n' => flat_map (fun l => [0 :: l; 1 :: l; 2 :: l; 3 :: l]) (shapes n') end.
Fixpoint shapes_upto (n : nat) : list (list N) := match n with O => [[]] | S n' => shapes n ++ shapes_upto n' end.
Fixpoint clear_last (l : list N) : bool :=
  match l with [] => true | 2 :: (_ :: _) => false | _ :: r => clear_last r end.
(* all instantiations of a shape with the tokens 1 (3 chunks), 2 (2 chunks), 3 (1 chunk) *)
Fixpoint insts (l : list N) : list (list sop) :=
  match l with
  | [] => [[]]
  | 0 :: r => flat_map (fun t => map (cons (SAcc t)) (insts r)) [1; 2; 3]
  | 3 :: r => flat_map (fun t => map (cons (SRef t)) (insts r)) [1; 2; 3]
  | 1 :: r => map (cons SSave) (insts r)
  | _ :: r => map (cons SClear) (insts r)
  end.
Definition shape_ops (l : list N) : list sop := match insts l with x :: _ => x | [] => [] end.
Definition two_reqs (ops : list sop) : list sreq :=
  [mkSReq 1000000000%Z ex_obs ops; mkSReq 2000000000%Z ex_obs []].
Definition differs (ops : list sop) : bool :=
  negb (all_reads_eq (model_run ex_nc 7 [] (two_reqs ops)) (ref_run ref_empty (two_reqs ops))).
Definition rejected (sh : list N) : bool := negb (wf_reqs (two_reqs (shape_ops sh))).

(* Over all 1365 shapes of at most 5 token-setter / Save / Clear calls in the
   first request of a browser:
   - none of the 485 shapes with Clear (if any) as the last call is rejected:
     under the harness's guarantee (a) wf_ops puts NO condition on the order of
     token setters, Saves and Clear;
   - no accepted shape has an instantiation with the three tokens on which the
     model and the reference differ;
   - 356 shapes are rejected (a token setter after a Clear with a Save/Clear
     still to come); 4 of them have a differing instantiation, so the clause is
     needed but not tight (the chunk cookies a Clear leaves are empty and
     re-assemble to nothing). *)
Example wf_ops_tight_small :
  length (filter clear_last (shapes_upto 5)) = 485%nat
  /\ filter (fun sh => clear_last sh && rejected sh) (shapes_upto 5) = []
  /\ filter (fun sh => negb (rejected sh) && existsb differs (insts sh)) (shapes_upto 5) = []
  /\ length (filter rejected (shapes_upto 5)) = 356%nat
  /\ filter (fun sh => rejected sh && existsb differs (insts sh)) (shapes_upto 5)
     = [[2; 0; 1; 0; 1]; [2; 3; 1; 3; 1]; [2; 0; 1; 0; 2]; [2; 3; 1; 3; 2]].
Proof. vm_compute. repeat split. Qed.

Print Assumptions model_refines_ref.
