(* Proofs about Model/Limiter.v against Spec/LimiterSpec.v (C19), for arrival
   lists of every length.

   inv            : -rate < tokens <= burst*10^9 on every reachable state
   bucket_upper   : admissions in any window [t, t+1s) <= burst + rate - 1
   bucket_lower   : with rate >= n and burst >= n the model admits, on every
                    prefix, at least as many as the reference bucket (n/s, n)
   model_monitor  : (rate, burst) = (n, n), n >= 1  ==>  monitor holds
   pinned_lower_refuted : (rate, burst) = (1, n), as built by the pinned New(),
                    fails the lower clause on a concrete arrival list. *)
From VF Require Import Base.Prelude Model.Limiter Spec.LimiterSpec.
From Coq Require Import ZifyBool ZifyNat ZifyN.
Open Scope Z_scope.

(* ------------------------------------------------------------ arithmetic *)

Lemma quot_le0 a b : 0 <= a -> 0 < b -> (Z.quot a b <=? 0) = (a <? b).
Proof.
  intros Ha Hb. rewrite Z.quot_div_nonneg by lia.
  destruct (Z.ltb_spec a b) as [Hlt|Hge].
  - rewrite Z.div_small by lia. reflexivity.
  - assert (H1 : 1 <= a / b) by (apply Z.div_le_lower_bound; lia). lia.
Qed.

Lemma mul_nonneg a b : 0 <= a -> 0 <= b -> 0 <= a * b.
Proof. apply Z.mul_nonneg_nonneg. Qed.

(* ------------------------------------------------------------ one step *)

(* the level offered to an arrival, rate >= 1 *)
Definition filled (now : time) (s : lim) : Z :=
  Z.min (burst s * token) (tokens s + rate s * (now - Z.min now (last s))).

Lemma level_filled now s : 1 <= rate s -> level now s = filled now s - token.
Proof.
  intros Hr. unfold level, advance, filled, tokens_from_duration.
  destruct (Z.leb_spec (rate s) 0) as [H|H]; [lia|reflexivity].
Qed.

(* the decision, for rate >= 1: refused exactly when the deficit is worth at
   least one nanosecond of refill *)
Definition admits (now : time) (s : lim) : bool :=
  (1 <=? burst s) && (- rate s <? level now s).

Lemma allow_ok_admits now s : 1 <= rate s -> allow_ok now s = admits now s.
Proof.
  intros Hr. unfold allow_ok, admits, wait_duration, duration_from_tokens.
  destruct (Z.leb_spec (rate s) 0) as [H|_]; [lia|].
  destruct (Z.ltb_spec (level now s) 0) as [Hneg|Hpos].
  - rewrite quot_le0 by lia. f_equal.
    destruct (Z.ltb_spec (- level now s) (rate s)), (Z.ltb_spec (- rate s) (level now s)); lia.
  - f_equal. destruct (Z.ltb_spec (- rate s) (level now s)); lia.
Qed.

Lemma allow_spec now s : 1 <= rate s ->
  allow now s = if admits now s then (take now s, true) else (s, false).
Proof. intros Hr. unfold allow. rewrite allow_ok_admits by exact Hr. reflexivity. Qed.

Lemma allow_rate now s : rate (fst (allow now s)) = rate s.
Proof. unfold allow. destruct (allow_ok now s); reflexivity. Qed.
Lemma allow_burst now s : burst (fst (allow now s)) = burst s.
Proof. unfold allow. destruct (allow_ok now s); reflexivity. Qed.

(* ------------------------------------------------------------ invariant *)

Definition inv (s : lim) : Prop :=
  1 <= rate s /\ 0 <= burst s /\ - rate s < tokens s <= burst s * token.

Lemma inv_init r b : 1 <= r -> 0 <= b -> inv (init r b).
Proof. intros Hr Hb. unfold inv, init, token; cbn [rate burst tokens]. lia. Qed.

Lemma inv_allow now s : inv s -> inv (fst (allow now s)).
Proof.
  intros (Hr & Hb & Ht). rewrite allow_spec by exact Hr.
  destruct (admits now s) eqn:A; cbn [fst]; [|unfold inv; tauto].
  unfold admits in A. unfold inv, take; cbn [rate burst tokens].
  rewrite level_filled in * by exact Hr. unfold filled, token in *.
  assert (Hd : 0 <= rate s * (now - Z.min now (last s))) by (apply mul_nonneg; lia).
  lia.
Qed.

Lemma inv_final l : forall s, inv s -> inv (final s l).
Proof.
  induction l as [|x l IH]; intros s Hs; cbn [final]; [exact Hs|].
  apply IH, inv_allow, Hs.
Qed.

Lemma final_rate l : forall s, rate (final s l) = rate s.
Proof. induction l as [|x l IH]; intros s; cbn [final]; [reflexivity|]. rewrite IH. apply allow_rate. Qed.
Lemma final_burst l : forall s, burst (final s l) = burst s.
Proof. induction l as [|x l IH]; intros s; cbn [final]; [reflexivity|]. rewrite IH. apply allow_burst. Qed.

(* the invariant on every reachable state.  NB the lower end is -rate, not 0:
   reserveN admits when the wait truncates to 0 ns, i.e. with a deficit of less
   than one nanosecond of refill (rate * 10^-9 token). *)
Theorem tokens_bounds : forall (r b : Z) (l : list time), 1 <= r -> 0 <= b ->
  - r < tokens (final (init r b) l) <= b * token.
Proof.
  intros r b l Hr Hb. pose proof (inv_final l _ (inv_init r b Hr Hb)) as (H1 & H2 & H3).
  rewrite final_rate, final_burst in H3. exact H3.
Qed.

Lemma last_allow now s a : 1 <= rate s -> last s <= a -> a <= now -> last (fst (allow now s)) <= now.
Proof.
  intros Hr H1 H2. rewrite allow_spec by exact Hr.
  destruct (admits now s); cbn [fst take last]; lia.
Qed.

(* ------------------------------------------------------------ traces *)

Lemma trace_fst l : forall s, map fst (trace s l) = l.
Proof. induction l as [|x l IH]; intros s; cbn [trace map fst]; [reflexivity|]. rewrite IH. reflexivity. Qed.

Lemma trace_run l : forall s, trace s l = combine l (snd (run s l)) /\ final s l = fst (run s l).
Proof.
  induction l as [|x l IH]; intros s; cbn [trace run final combine]; [split; reflexivity|].
  destruct (allow x s) as [s1 ok] eqn:A. cbn [fst snd].
  destruct (IH s1) as [E1 E2]. destruct (run s1 l) as [s2 oks] eqn:R. cbn [fst snd combine] in *.
  rewrite E1, E2. split; reflexivity.
Qed.

Lemma sorted_from_weaken l : forall a b, a <= b -> sorted_from b l = true -> sorted_from a l = true.
Proof. destruct l as [|x l]; intros a b Hab H; cbn [sorted_from] in *; [reflexivity|]. lia. Qed.

(* ------------------------------------------------------------ upper bound *)

(* Potential argument.  With a = the previous arrival instant (last s <= a) and
   all further arrivals before `lim`, every admission costs one token and the
   refill until lim - 1 is at most rate * (lim - 1 - a); the level never drops
   to -rate. *)
Lemma count_until_bound l : forall s a lim,
  inv s -> last s <= a -> sorted_from a l = true -> a < lim ->
  count_until lim (trace s l) * token
  < Z.min (burst s * token) (tokens s + rate s * (a - last s)) + rate s * (lim - 1 - a) + rate s.
Proof.
  induction l as [|x l IH]; intros s a lim Hinv Hla Hs Halim.
  - destruct Hinv as (Hr & Hb & Ht). cbn [trace count_until]. unfold token in *.
    assert (H1 : 0 <= rate s * (a - last s)) by (apply mul_nonneg; lia).
    assert (H2 : 0 <= rate s * (lim - 1 - a)) by (apply mul_nonneg; lia).
    lia.
  - cbn [sorted_from] in Hs. apply andb_prop in Hs. destruct Hs as [Hax Hs]. apply Z.leb_le in Hax.
    pose proof Hinv as (Hr & Hb & Ht).
    assert (H1 : 0 <= rate s * (a - last s)) by (apply mul_nonneg; lia).
    assert (H2 : 0 <= rate s * (lim - 1 - a)) by (apply mul_nonneg; lia).
    cbn [trace count_until fst snd].
    destruct (Z.ltb_spec x lim) as [Hxl|Hxl]; [|unfold token in *; lia].
    assert (H3 : 0 <= rate s * (x - a)) by (apply mul_nonneg; lia).
    assert (H4 : 0 <= rate s * (lim - 1 - x)) by (apply mul_nonneg; lia).
    specialize (IH (fst (allow x s)) x lim (inv_allow x s Hinv)
                   (last_allow x s a Hr Hla Hax) Hs Hxl).
    rewrite allow_burst, allow_rate in IH. revert IH.
    rewrite allow_spec by exact Hr.
    destruct (admits x s) eqn:A; cbn [fst snd take tokens last b2z]; intros IH.
    + rewrite level_filled in IH by exact Hr. unfold filled in IH.
      replace (Z.min x (last s)) with (last s) in IH by lia.
      unfold token in *. lia.
    + unfold token in *. lia.
Qed.

Lemma count_until_le l s a t :
  inv s -> last s <= a -> sorted_from a l = true -> t <= a ->
  count_until (t + second) (trace s l) <= burst s + rate s - 1.
Proof.
  intros Hinv Hla Hs Hta. pose proof Hinv as (Hr & Hb & Ht).
  destruct (Z.ltb_spec a (t + second)) as [Hlt|Hge].
  - pose proof (count_until_bound l s a (t + second) Hinv Hla Hs Hlt) as H.
    assert (H1 : rate s * (t + second - 1 - a) <= rate s * (second - 1)) by (apply Z.mul_le_mono_nonneg_l; lia).
    unfold token, second in *. lia.
  - destruct l as [|x l]; cbn [trace count_until fst]; [lia|].
    cbn [sorted_from] in Hs. destruct (Z.ltb_spec x (t + second)); lia.
Qed.

(* windows that start at an arrival: the monitor's clause *)
Lemma upper_ok_trace n l : forall s a,
  inv s -> last s <= a -> sorted_from a l = true -> burst s + rate s <= n + n ->
  upper_ok n (trace s l) = true.
Proof.
  induction l as [|x l IH]; intros s a Hinv Hla Hs Hn; [reflexivity|].
  pose proof Hinv as (Hr & Hb & Ht).
  pose proof Hs as Hs'. cbn [sorted_from] in Hs'. apply andb_prop in Hs'. destruct Hs' as [Hax Hs']. apply Z.leb_le in Hax.
  change (trace s (x :: l)) with ((x, snd (allow x s)) :: trace (fst (allow x s)) l).
  cbn [upper_ok fst]. apply andb_true_intro. split.
  - change ((x, snd (allow x s)) :: trace (fst (allow x s)) l) with (trace s (x :: l)).
    assert (Hsx : sorted_from x (x :: l) = true) by (cbn [sorted_from]; rewrite Z.leb_refl; exact Hs').
    pose proof (count_until_le (x :: l) s x x Hinv ltac:(lia) Hsx ltac:(lia)). lia.
  - apply (IH _ x); [apply inv_allow, Hinv|apply (last_allow x s a); assumption|exact Hs'|].
    rewrite allow_burst, allow_rate. exact Hn.
Qed.

(* a window [t, t+1s) whose start is not after the first arrival *)
Lemma admitted_in_count os : forall a t,
  sorted_from a (map fst os) = true -> t <= a ->
  admitted_in t os = count_until (t + second) os.
Proof.
  induction os as [|[x b] os IH]; intros a t Hs Hta; [reflexivity|].
  cbn [map fst sorted_from] in Hs. apply andb_prop in Hs. destruct Hs as [Hax Hs]. apply Z.leb_le in Hax.
  cbn [admitted_in count_until fst snd]. unfold in_window; cbn [fst snd].
  destruct (Z.ltb_spec x (t + second)) as [Hlt|Hge].
  - rewrite (IH x t Hs) by lia. destruct b; cbn [andb b2z]; [|reflexivity].
    destruct (Z.leb_spec t x); [reflexivity|lia].
  - assert (E : forall os' a', sorted_from a' (map fst os') = true -> t + second <= a' -> admitted_in t os' = 0).
    { clear. induction os' as [|[y c] os' IH']; intros a' Hs' Ha'; [reflexivity|].
      cbn [map fst sorted_from] in Hs'. apply andb_prop in Hs'. destruct Hs' as [Hay Hs']. apply Z.leb_le in Hay.
      cbn [admitted_in]. unfold in_window; cbn [fst snd]. rewrite (IH' y Hs') by lia.
      destruct (Z.ltb_spec y (t + second)); [lia|]. rewrite andb_false_r. reflexivity. }
    rewrite (E os x Hs) by lia. rewrite andb_false_r. reflexivity.
Qed.

(* every window *)
Lemma admitted_in_trace l : forall s a t,
  inv s -> last s <= a -> sorted_from a l = true ->
  admitted_in t (trace s l) <= burst s + rate s - 1.
Proof.
  induction l as [|x l IH]; intros s a t Hinv Hla Hs.
  - destruct Hinv as (Hr & Hb & _). cbn [trace admitted_in]. lia.
  - pose proof Hinv as (Hr & Hb & Ht).
    pose proof Hs as Hs'. cbn [sorted_from] in Hs'. apply andb_prop in Hs'. destruct Hs' as [Hax Hs']. apply Z.leb_le in Hax.
    destruct (Z.ltb_spec x t) as [Hxt|Hxt].
    + change (trace s (x :: l)) with ((x, snd (allow x s)) :: trace (fst (allow x s)) l).
      cbn [admitted_in]. unfold in_window; cbn [fst snd].
      destruct (Z.leb_spec t x) as [Htx|Htx]; [lia|]. rewrite andb_false_r; cbn [andb b2z].
      pose proof (IH (fst (allow x s)) x t (inv_allow x s Hinv) (last_allow x s a Hr Hla Hax) Hs') as HI.
      rewrite allow_burst, allow_rate in HI. lia.
    + assert (Hsx : sorted_from x (x :: l) = true) by (cbn [sorted_from]; rewrite Z.leb_refl; exact Hs').
      rewrite (admitted_in_count (trace s (x :: l)) x t) by (rewrite ?trace_fst; first [exact Hsx|lia]).
      apply (count_until_le (x :: l) s x t Hinv); [lia|exact Hsx|lia].
Qed.

Theorem bucket_upper : forall (r b : Z) (l : list time) (t : time),
  1 <= r -> 0 <= b -> sorted_from 0 l = true ->
  admitted_in t (trace (init r b) l) <= b + r - 1.
Proof.
  intros r b l t Hr Hb Hs.
  apply (admitted_in_trace l (init r b) 0 t (inv_init r b Hr Hb)); [cbn [init last]; lia|exact Hs].
Qed.

(* ------------------------------------------------------------ lower bound *)

(* Simulation: k = #admitted by the model - #admitted by the reference.
   Invariant: (model level refreshed at the previous arrival a) + k tokens >=
   reference level, and k >= 0. *)
Lemma lower_from_trace n l : forall s rb k a,
  1 <= n -> inv s -> n <= rate s -> n <= burst s ->
  last s <= a -> rb_last rb = a -> sorted_from a l = true -> 0 <= k ->
  rb_tokens rb <= Z.min (burst s * token) (tokens s + rate s * (a - last s)) + k * token ->
  lower_from n rb k (trace s l) = true.
Proof.
  induction l as [|x l IH]; intros s rb k a Hn Hinv Hnr Hnb Hla Hrl Hs Hk HR; [reflexivity|].
  pose proof Hinv as (Hr & Hb & Ht).
  cbn [sorted_from] in Hs. apply andb_prop in Hs. destruct Hs as [Hax Hs]. apply Z.leb_le in Hax.
  cbn [trace lower_from fst snd].
  assert (H1 : 0 <= rate s * (a - last s)) by (apply mul_nonneg; lia).
  assert (H2 : 0 <= rate s * (x - a)) by (apply mul_nonneg; lia).
  assert (H3 : n * (x - a) <= rate s * (x - a)) by (apply Z.mul_le_mono_nonneg_r; lia).
  (* the two levels offered to this arrival *)
  set (Mx := Z.min (burst s * token) (tokens s + rate s * (x - last s))).
  assert (Hlv : ref_level n x rb <= Mx + k * token /\ ref_level n x rb <= n * whole).
  { unfold ref_level, Mx, token, whole in *. rewrite Hrl. lia. }
  destruct Hlv as [Hlv Hcap].
  assert (Hfill : filled x s = Mx) by (unfold filled, Mx; replace (Z.min x (last s)) with (last s) by lia; reflexivity).
  assert (Hlast' : last (fst (allow x s)) <= x) by (apply (last_allow x s a); assumption).
  assert (Hinv' : inv (fst (allow x s))) by (apply inv_allow, Hinv).
  assert (Ea : allow x s = if - rate s <? Mx - token then (take x s, true) else (s, false)).
  { rewrite allow_spec by exact Hr. unfold admits. rewrite level_filled, Hfill by exact Hr.
    destruct (Z.leb_spec 1 (burst s)) as [_|Hb1]; [reflexivity|lia]. }
  assert (Etake : tokens (take x s) = Mx - token).
  { cbn [take tokens]. rewrite level_filled, Hfill by exact Hr. reflexivity. }
  unfold ref_step. rewrite Ea in *. clear Ea.
  destruct (Z.ltb_spec (- rate s) (Mx - token)) as [Hok|Hno];
    destruct (Z.leb_spec whole (ref_level n x rb)) as [Hrok|Hrno]; cbn [fst snd b2z] in *.
  - (* both let it through *)
    apply andb_true_intro. split; [lia|].
    apply (IH _ _ _ x); try assumption; try reflexivity; rewrite ?Etake;
      cbn [take rate burst last rb_tokens rb_last]; try lia.
    all: unfold Mx, token, whole in *; lia.
  - (* model admits, reference refuses *)
    apply andb_true_intro. split; [lia|].
    apply (IH _ _ _ x); try assumption; try reflexivity; rewrite ?Etake;
      cbn [take rate burst last rb_tokens rb_last]; try lia.
    all: unfold Mx, token, whole in *; lia.
  - (* model refuses, reference admits: the model was ahead by at least one *)
    assert (Hk1 : 1 <= k) by (unfold Mx, token, whole in *; lia).
    apply andb_true_intro. split; [lia|].
    apply (IH _ _ _ x); try assumption; try reflexivity; cbn [rb_tokens rb_last]; try lia.
    all: unfold Mx, token, whole in *; lia.
  - (* both refuse *)
    apply andb_true_intro. split; [lia|].
    apply (IH _ _ _ x); try assumption; try reflexivity; cbn [rb_tokens rb_last]; try lia.
    all: unfold Mx, token, whole in *; lia.
Qed.

Theorem bucket_lower : forall (n r b : Z) (l : list time),
  1 <= n -> n <= r -> n <= b -> sorted_from 0 l = true ->
  lower_ok n (trace (init r b) l) = true.
Proof.
  intros n r b l Hn Hr Hb Hs. unfold lower_ok.
  apply (lower_from_trace n l (init r b) (ref_init n) 0 0); try assumption; try reflexivity;
    try (apply inv_init; lia); cbn [init ref_init rate burst tokens last rb_tokens rb_last]; try lia.
  unfold token, whole. lia.
Qed.

(* ------------------------------------------------------------ the monitor on the model *)

Theorem model_upper : forall (n r b : Z) (l : list time),
  1 <= r -> 0 <= b -> b + r <= n + n -> sorted_from 0 l = true ->
  upper_ok n (trace (init r b) l) = true.
Proof.
  intros n r b l Hr Hb Hn Hs.
  apply (upper_ok_trace n l (init r b) 0); [apply inv_init; assumption|cbn [init last]; lia|exact Hs|exact Hn].
Qed.

Theorem model_monitor : forall (n : Z) (l : list time),
  1 <= n -> sorted_from 0 l = true -> monitor n (trace (init n n) l) = true.
Proof.
  intros n l Hn Hs. unfold monitor, arrivals_ok. rewrite trace_fst, Hs.
  rewrite model_upper by (assumption || lia). rewrite bucket_lower by (assumption || lia). reflexivity.
Qed.

(* the tie to the construction: whatever list of measured samples
   (configured n, Limit(), Burst()) passes the boolean test, the model with the
   measured parameters satisfies the monitor for the configured n *)
Definition sample_ok (smp : Z * Z * Z) : bool :=
  let '(n, r, b) := smp in (r =? n) && (b =? n).

Theorem monitor_of_samples : forall (samples : list (Z * Z * Z)),
  forallb sample_ok samples = true ->
  forall n r b, In (n, r, b) samples -> 1 <= n ->
  forall l, sorted_from 0 l = true -> monitor n (trace (init r b) l) = true.
Proof.
  intros samples H n r b Hin Hn l Hs.
  rewrite forallb_forall in H. specialize (H _ Hin). unfold sample_ok in H.
  apply andb_prop in H. destruct H as [E1 E2]. apply Z.eqb_eq in E1, E2. subst r b.
  apply model_monitor; assumption.
Qed.

(* ------------------------------------------------------------ the pinned construction is refuted *)

(* n arrivals at instant 0 drain the burst (the reference's too), then `extra`
   arrivals follow spaced exactly 1/n s: the reference admits every one of them *)
Definition slot (n : Z) (i : nat) : time := Z.of_nat i * (second / n).

Definition drain_then_steady (n : Z) (extra : nat) : list time :=
  repeat 0 (Z.to_nat n) ++ map (slot n) (seq 1 extra).

Definition pinned_fails (n : Z) : bool :=
  let l := drain_then_steady n 15 in
  sorted_from 0 l
  && upper_ok n (trace (built_pinned n) l)
  && negb (lower_ok n (trace (built_pinned n) l))
  && monitor n (trace (built_repaired n) l).

Theorem pinned_lower_refuted : forallb pinned_fails [10; 25; 100; 1000] = true.
Proof. vm_compute. reflexivity. Qed.

(* the smallest of these written out: limit 10, ten arrivals at 0, then one every 100 ms *)
Theorem pinned_lower_refuted_10 :
  let l := [0;0;0;0;0;0;0;0;0;0; 100000000; 200000000; 300000000] in
  map snd (trace (built_pinned 10) l)
    = [true;true;true;true;true;true;true;true;true;true; false; false; false]
  /\ ref_trace 10 (ref_init 10) l
    = [true;true;true;true;true;true;true;true;true;true; true; true; true]
  /\ lower_ok 10 (trace (built_pinned 10) l) = false.
Proof. vm_compute. repeat split. Qed.
