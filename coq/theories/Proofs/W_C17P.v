(* C17, the premise of the healing theorem is an invariant of the browser's jar.
   `prefix j`: the numbered chunk cookies PRESENT in j are 0..a-1 / 0..r-1 for
   some a, r, whatever any cookie contains (SessionProofs.prefix_at).  Every
   response of the middleware maps a prefix jar to a prefix jar
   (c_serve_prefix), and so does a client that replaces cookie VALUES under the
   same names or drops a whole main / token cookie.  Hence every jar reachable
   from the empty jar by such steps satisfies the premise of
   W_C17H.h_serve_heals.
   Why it holds: a Save deletes chunk cookies only when the session is marked
   (a token setter ran on the live session), and then it deletes the whole range
   [written, s_jar) where s_jar is the number of chunk cookies present in the
   REQUEST's jar; the first Save of a response acts on exactly that jar, and it
   (like Clear) resets the marks, so the later Saves of the same response only
   write chunks 0..n-1 and delete nothing.
   Lemma names are prefixed p_ (the requested names are kept as asked). *)
From VF Require Import Base.Prelude Model.Cache Model.Session Model.Middleware Corr.WorldCorr Spec.WorldSpec.
From VF Require Import Proofs.WorldBase Proofs.ServeLemmas Proofs.SessionProofs Proofs.W_Cookies.
From Coq Require Import ZifyBool ZifyNat ZifyN.
Open Scope nat_scope.

Definition prefix (j : jar) : Prop := exists a r, prefix_at a r j.

(* ---------------------------------------------------------------- one Save, one chunk name *)

(* a chunk cookie is present after a Save iff the Save wrote it, or it was there
   and the Save did not schedule it for deletion *)
Lemma p_chunk_present k mk l marked ij i old :
  after_sc k (mk i) (saved_chunk l marked ij i) old <> None
  <-> i < length l \/ (old <> None /\ (marked && Nat.ltb i ij)%bool = false).
Proof.
  unfold saved_chunk. destruct (Nat.ltb i (length l)) eqn:E1.
  - apply Nat.ltb_lt in E1. cbn [after_sc]. split; [intros _; left; exact E1|discriminate].
  - apply Nat.ltb_ge in E1. destruct (marked && Nat.ltb i ij)%bool eqn:E2; cbn [after_sc].
    + split; [congruence|intros [H|[_ H]]; [lia|discriminate H]].
    + split; [intros H; right; split; [exact H|reflexivity]|intros [H|[H _]]; [lia|exact H]].
Qed.

(* number of chunk cookies after a Save of `len` chunks on a jar holding c of them *)
Definition p_count (len : nat) (marked : bool) (c : nat) : nat :=
  if marked then len else Nat.max len c.

Lemma p_chunk_prefix k mk l marked ij c i old :
  (marked = false \/ c <= ij) -> (old <> None <-> i < c) ->
  after_sc k (mk i) (saved_chunk l marked ij i) old <> None <-> i < p_count (length l) marked c.
Proof.
  intros Hm Hold. rewrite p_chunk_present, Hold. unfold p_count. destruct marked; cbn [andb].
  - destruct Hm as [Hm|Hm]; [discriminate Hm|].
    destruct (Nat.ltb i ij) eqn:E; [apply Nat.ltb_lt in E|apply Nat.ltb_ge in E].
    + split; [intros [H|[_ H]]; [exact H|discriminate H]|intros H; left; exact H].
    + split; [intros [H|[H _]]; [exact H|lia]|intros H; left; exact H].
  - split; [intros [H|[H _]]; lia|intros H].
    destruct (Nat.lt_ge_cases i (length l)) as [H1|H1]; [left; exact H1|right; split; [lia|reflexivity]].
Qed.

(* ---------------------------------------------------------------- one Save on a prefix jar *)

(* the general form: for each token either the session is not marked (the Save
   deletes nothing) or its request count covers the jar's chunk cookies (the
   Save deletes everything above what it writes) *)
Lemma save_prefix_at k j sd ca cr :
  prefix_at ca cr j ->
  (s_marked_a sd = false \/ ca <= s_jar_a sd) ->
  (s_marked_r sd = false \/ cr <= s_jar_r sd) ->
  prefix_at (p_count (length (s_achunks sd)) (s_marked_a sd) ca)
            (p_count (length (s_rchunks sd)) (s_marked_r sd) cr)
            (apply_cookies k j (save_cookies sd)).
Proof.
  intros (HN & Ha & Hr) Hma Hmr. split; [apply apply_cookies_NoDup, HN|split].
  - intros i. rewrite jar_get_Some_names, jar_get_after_save. cbn [saved].
    apply (p_chunk_prefix k CAccChunk); [exact Hma|]. rewrite <- jar_get_Some_names. apply Ha.
  - intros i. rewrite jar_get_Some_names, jar_get_after_save. cbn [saved].
    apply (p_chunk_prefix k CRefChunk); [exact Hmr|]. rewrite <- jar_get_Some_names. apply Hr.
Qed.

(* one Save on a prefix jar, for a session whose jar counts are the jar's *)
Lemma save_prefix k j sd ca cr :
  prefix_at ca cr j -> s_jar_a sd = ca -> s_jar_r sd = cr ->
  prefix (apply_cookies k j (save_cookies sd)).
Proof.
  intros Hpf Ea Er. eexists. eexists. apply (save_prefix_at k j sd ca cr Hpf); right; lia.
Qed.

(* a Save of an unmarked session deletes nothing: any prefix jar stays one *)
Lemma save_prefix_unmarked k j sd :
  prefix j -> s_marked_a sd = false -> s_marked_r sd = false ->
  prefix (apply_cookies k j (save_cookies sd)).
Proof.
  intros (ca & cr & Hpf) Ma Mr. eexists. eexists. apply (save_prefix_at k j sd ca cr Hpf); left; assumption.
Qed.

(* the side condition of save_prefix_at is needed: a MARKED session whose request
   count (2) is below the jar's count (3) and that writes no chunk deletes chunk
   cookies 0 and 1 and leaves chunk cookie 2 behind.  `emit` excludes this: see
   p_emit_inv. *)
Example p_marked_short_count_breaks_prefix :
  let j := [(CAccChunk 0, Junk); (CAccChunk 1, Junk); (CAccChunk 2, Junk)] in
  let sd := mkSd [] [] [] [] [] 2 0 true false true in
  prefix_at 3 0 j
  /\ map fst (apply_cookies 7%N j (save_cookies sd)) = [CRef; CAcc; CMain; CAccChunk 2]
  /\ ~ prefix (apply_cookies 7%N j (save_cookies sd)).
Proof.
  cbv zeta. split; [|split; [vm_compute; reflexivity|]].
  - split; [|split].
    + repeat constructor; cbn; intros H; repeat (destruct H as [H|H]; try discriminate H); exact H.
    + intros i. cbn. split.
      * intros [H|[H|[H|[]]]]; inversion H; lia.
      * intros H. destruct i as [|[|[|i]]]; [tauto|tauto|tauto|lia].
    + intros i. cbn. split; [intros [H|[H|[H|[]]]]; discriminate H|lia].
  - intros (a & r & _ & Ha & _).
    assert (H2 : 2 < a) by (apply Ha; vm_compute; tauto).
    assert (H0 : 0 < a) by lia. apply Ha in H0. vm_compute in H0.
    repeat (destruct H0 as [H0|H0]; try discriminate H0). exact H0.
Qed.

(* ---------------------------------------------------------------- all Saves of one response *)

Section Emit.
  Variable nchunks : istr -> nat.

  (* carried through the Saves of one response: the jar so far is a prefix jar
     and the current session is unmarked (after_save and clear reset the marks,
     the main-cookie setters keep them), so every later Save deletes nothing *)
  Lemma p_emit_inv k now j sd sv cs :
    prefix j -> emit nchunks k now j sd sv cs ->
    prefix (apply_cookies k j cs) /\ s_marked_a sd = false /\ s_marked_r sd = false.
  Proof.
    intros (ca & cr & Hpf) He.
    induction He as [sd Hp|sd Hp|f s sd sv cs He IH|t b sd sv cs He IH|sd sv cs He IH|sd sv cs He IH].
    - destruct (pre_counts nchunks _ _ _ _ _ _ Hpf Hp) as (_ & Ea & Er).
      split; [exact (save_prefix k j sd ca cr Hpf Ea Er)|split; reflexivity].
    - destruct (pre_counts nchunks _ _ _ _ _ _ Hpf Hp) as (_ & Ea & Er).
      split; [|split; reflexivity]. rewrite clear_snd.
      exact (save_prefix k j (cleared sd) ca cr Hpf Ea Er).
    - exact IH.
    - exact IH.
    - destruct IH as (Hj & Ma & Mr). split; [|split; reflexivity].
      rewrite apply_cookies_app. exact (save_prefix_unmarked k _ sd Hj Ma Mr).
    - destruct IH as (Hj & Ma & Mr). split; [|split; reflexivity].
      rewrite apply_cookies_app, clear_snd. exact (save_prefix_unmarked k _ (cleared sd) Hj Ma Mr).
  Qed.

  Theorem emit_prefix k now j sd sv cs :
    prefix j -> emit nchunks k now j sd sv cs -> prefix (apply_cookies k j cs).
  Proof. intros Hj He. exact (proj1 (p_emit_inv k now j sd sv cs Hj He)). Qed.

End Emit.

(* ---------------------------------------------------------------- every response of the middleware *)

Theorem c_serve_prefix E cfg st now rq rnd ans :
  prefix (q_jar rq) ->
  prefix (apply_cookies (c_key cfg) (q_jar rq) (r_cookies (snd (serve E cfg st now rq rnd ans)))).
Proof.
  intros Hj. destruct (c_serve_emits E cfg st now rq rnd ans) as [->|(sd & sv & He)]; [exact Hj|].
  exact (emit_prefix (nchunks E) (c_key cfg) now (q_jar rq) sd sv _ Hj He).
Qed.

(* ---------------------------------------------------------------- what a client can do to its jar *)

(* tampering with values keeps the names *)
Lemma prefix_same_names j j2 : map fst j2 = map fst j -> prefix j -> prefix j2.
Proof.
  intros E (a & r & H). exists a, r. unfold prefix_at, names in *. rewrite E. exact H.
Qed.

Lemma prefix_empty : prefix [].
Proof.
  exists 0, 0. split; [constructor|split]; intros i; cbn; split; try tauto; lia.
Qed.

(* dropping a whole main / token cookie *)
Lemma prefix_remove_base n j : (n = CMain \/ n = CAcc \/ n = CRef) -> prefix j -> prefix (jar_remove n j).
Proof.
  intros Hn (a & r & HN & Ha & Hr). exists a, r. split; [apply remove_NoDup, HN|split].
  - intros i. rewrite names_remove, Ha. split; [tauto|]. intros H. split; [exact H|].
    destruct Hn as [-> | [-> | ->]]; discriminate.
  - intros i. rewrite names_remove, Hr. split; [tauto|]. intros H. split; [exact H|].
    destruct Hn as [-> | [-> | ->]]; discriminate.
Qed.
