(* Property C03 over histories — a login completes only with the state, nonce
   and (with PKCE) verifier of THIS browser's most recent initiation, and a
   callback repeated after a successful one does nothing.

     C03_history_run : along every honest-browser history of the model (each
                       event served by an arbitrary ready instance state) whose
                       INITIATING steps drew pairwise distinct values (and a
                       non-empty verifier under PKCE), Spec/WorldSpec.c03_browser
                       holds.
     C03_history     : the same from a premise on the events' random triples,
                       together with Spec/WorldSpec.fresh_values of the run.

   The premise is on the random source, not on the code: `fresh_values` of a
   model run says exactly that the triples consumed by initiating steps are
   pairwise distinct with non-empty state and nonce, because a login redirect
   shows the values drawn for its step (W_C03.c03_serve_initiation).  Only
   initiating steps consume their triple, but which steps initiate is decided
   by the run, so C03_history asks it of all events; C03_history_run asks it of
   the initiating steps only.  Distinctness is necessary: see
   C03_needs_distinct_states at the end.

   Invariant of the induction: the main cookie of the browser's jar holds, as
   csrf / nonce / verifier, the values of the most recent login redirect since
   the last established session, or no csrf at all (after an established
   session they are cleared; a logout or an expired session drops them); no
   state of an already completed login is the jar's csrf or will be drawn
   again. *)
From VF Require Import Base.Prelude Model.Cache Model.Session Model.Middleware Model.World Corr.WorldCorr Spec.WorldSpec.
From VF Require Import Proofs.WorldBase Proofs.ServeLemmas Proofs.SessionProofs Proofs.W_BLemmas
     Proofs.W_Cookies Proofs.W_C03 Proofs.W_C11.
From Coq Require Import ZifyBool ZifyNat ZifyN.
Open Scope N_scope.

(* ------------------------------------------------------------------ pairwise_distinct *)

Lemma pd_cons x r : pairwise_distinct (x :: r) = true <-> (x = 0 \/ ~ In x r) /\ pairwise_distinct r = true.
Proof.
  cbn [pairwise_distinct]. rewrite andb_true_iff, orb_true_iff, N.eqb_eq, negb_true_iff, memk_false. tauto.
Qed.

(* l' is a subsequence of l in which some elements were replaced by 0 *)
Inductive subz : list istr -> list istr -> Prop :=
| subz_nil : subz [] []
| subz_skip x l' l : subz l' l -> subz l' (x :: l)
| subz_keep x l' l : subz l' l -> subz (x :: l') (x :: l)
| subz_zero x l' l : subz l' l -> subz (0 :: l') (x :: l).

Lemma subz_in l' l x : subz l' l -> In x l' -> x = 0 \/ In x l.
Proof.
  induction 1 as [|y l' l _ IH|y l' l _ IH|y l' l _ IH]; cbn [In]; intros Hin.
  - contradiction.
  - destruct (IH Hin); tauto.
  - destruct Hin as [->|Hin]; [tauto|]. destruct (IH Hin); tauto.
  - destruct Hin as [<-|Hin]; [tauto|]. destruct (IH Hin); tauto.
Qed.

Lemma pd_subz l' l : subz l' l -> pairwise_distinct l = true -> pairwise_distinct l' = true.
Proof.
  induction 1 as [|y l' l Hs IH|y l' l Hs IH|y l' l Hs IH]; intros Hp.
  - reflexivity.
  - apply pd_cons in Hp. apply IH, Hp.
  - apply pd_cons in Hp. destruct Hp as [Hy Hp]. apply pd_cons. split; [|apply IH, Hp].
    destruct Hy as [->|Hy]; [left; reflexivity|].
    destruct (N.eq_dec y 0) as [->|Hne]; [left; reflexivity|]. right. intros Hin.
    destruct (subz_in _ _ _ Hs Hin); [contradiction|]. apply Hy. assumption.
  - apply pd_cons in Hp. apply pd_cons. split; [left; reflexivity|apply IH, Hp].
Qed.

Section C03H.
  Variable E : env.
  Variable cfg : config.
  Notation NCE := (nchunks E).
  Notation K := (c_key cfg).

  (* ---------------------------------------------------------------- the jar's main cookie *)

  Definition jm (j : jar) : payload := fst (get_session K CMain j).

  (* csrf, nonce, code_verifier *)
  Definition pend (p : payload) : istr * istr * istr := (get_str 3 p, get_str 4 p, get_str 5 p).

  Lemma c3_carried_main now rq :
    s_main (carried cfg now rq) = if session_too_old now (jm (q_jar rq)) then [] else jm (q_jar rq).
  Proof. unfold carried, load, jm. destruct (session_too_old now _); reflexivity. Qed.

  Definition c3_step (now : time) (rq : request) (rnd : istr * istr * istr) (ans : option answer)
             (r : response) : wstep := mkStep 0 0 now rq rnd ans r 0.

  (* after the browser applied the response's cookies its main cookie is the emitted one, if any *)
  Lemma c3_jar_main st now rq rnd ans :
    contiguous K (q_jar rq) ->
    let r := snd (serve E cfg st now rq rnd ans) in
    jm (apply_cookies K (q_jar rq) (r_cookies r))
    = match emitted_main r with Some p => p | None => jm (q_jar rq) end.
  Proof.
    intros Hcont r. destruct (c_serve_emits E cfg st now rq rnd ans) as [Hn|(sd & sv & He)]; fold r in Hn || fold r in He.
    - rewrite (emitted_main_nil r Hn), Hn. reflexivity.
    - destruct (c_emit_monitors E cfg _ _ _ _ _ He) as (_ & _ & Hm). rewrite Hm.
      destruct (c_emit_jar E cfg _ _ _ _ _ Hcont He) as (_ & Hj & _). exact Hj.
  Qed.

  Lemma c3_auth_initiate now rq rnd ans rq' rnd' st sd cookies calls :
    auth_state (c3_step now rq rnd ans (initiate cfg rq' rnd' st sd cookies calls)) <> None.
  Proof. unfold auth_state. cbn [w_obs c3_step]. rewrite initiate_loc. discriminate. Qed.

  (* a step that is not a login redirect leaves csrf / nonce / verifier as the
     request carried them, or leaves no csrf *)
  Lemma c3_main_kept st now rq rnd ans :
    i_ready st = true ->
    let r := snd (serve E cfg st now rq rnd ans) in
    auth_state (c3_step now rq rnd ans r) = None ->
    forall p, emitted_main r = Some p ->
      get_str 3 p = 0 \/ pend p = pend (s_main (carried cfg now rq)).
  Proof.
    intros Hready.
    apply (serve_cases E cfg st now rq rnd ans
             (fun x => auth_state (c3_step now rq rnd ans (snd x)) = None ->
                       forall p, emitted_main (snd x) = Some p ->
                         get_str 3 p = 0 \/ pend p = pend (s_main (carried cfg now rq))) Hready); cbn [snd].
    - intros _ _ p H. discriminate.
    - intros _ _ _ p. destruct (handle_logout_eq E cfg rq st (carried cfg now rq)) as [loc ->].
      rewrite (emitted_main_save _ (ServeLemmas.cleared (carried cfg now rq))) by reflexivity.
      intros H. injection H as <-. left. reflexivity.
    - intros _ _ _. apply cb_cases; cbn [snd]; try (intros; discriminate).
      intros id rt loc _ _ _ _ p.
      rewrite (emitted_main_save _ (callback_sd E now (carried cfg now rq) id rt)) by reflexivity.
      intros H. replace p with (s_main (callback_sd E now (carried cfg now rq) id rt)) by congruence. left.
      unfold callback_sd. rewrite !main_set_main.
      rewrite !get_str_set_other by discriminate. apply get_str_set_same.
    - intros _ H. rewrite handle_expired_eq in H. apply c3_auth_initiate in H. contradiction.
    - intros _ _. apply pa_cases.
      + intros _ H. apply c3_auth_initiate in H. contradiction.
      + intros m _ _ p H. discriminate.
      + intros _ _ _ _ p H. discriminate.
      + intros h cors _ _ p H. discriminate.
    - intros _ _ st' _. unfold refresh_failed_resp. destruct (q_json rq).
      + intros _ p H. discriminate.
      + intros H. apply c3_auth_initiate in H. contradiction.
    - intros _ _ _. unfold refresh_failed_resp. destruct (q_json rq).
      + intros _ p. rewrite (emitted_main_save _ (set_refresh NCE 0 (carried cfg now rq))) by reflexivity.
        intros H. replace p with (s_main (set_refresh NCE 0 (carried cfg now rq))) by congruence.
        right. rewrite main_set_refresh. reflexivity.
      + intros H. apply c3_auth_initiate in H. contradiction.
    - intros _ _ id newrt _ _ _ _ _.
      assert (Hk : forall r, r_cookies r = save_cookies (refreshed_sd E now (carried cfg now rq) id newrt) ->
                   forall p, emitted_main r = Some p ->
                     get_str 3 p = 0 \/ pend p = pend (s_main (carried cfg now rq))).
      { intros r Hc p. rewrite (emitted_main_save r _ Hc). intros H.
        replace p with (s_main (refreshed_sd E now (carried cfg now rq) id newrt)) by congruence. right.
        destruct (b_refreshed_main E now id newrt (carried cfg now rq)) as (m & Hm).
        change (b_refreshed E now id newrt (carried cfg now rq))
          with (refreshed_sd E now (carried cfg now rq) id newrt) in Hm.
        rewrite Hm. unfold pend. rewrite !get_str_set_other by discriminate. reflexivity. }
      apply pa_cases.
      + intros _ H. apply c3_auth_initiate in H. contradiction.
      + intros m _ _. apply Hk. reflexivity.
      + intros _ _ _ _. apply Hk. reflexivity.
      + intros h cors _ _. apply Hk. reflexivity.
    - intros _ H. apply c3_auth_initiate in H. contradiction.
  Qed.

  (* on the callback path the token endpoint is contacted only with the csrf the request carried *)
  Lemma c3_callback_calls st now rq rnd ans :
    i_ready st = true -> is_callback cfg rq = true ->
    r_calls (snd (serve E cfg st now rq rnd ans)) <> [] ->
    q_state rq <> 0 /\ q_state rq = get_str 3 (s_main (carried cfg now rq)).
  Proof.
    intros Hready Hcb.
    assert (Hng : gated E cfg rq = true -> False).
    { intros Hg. rewrite (b_gated_not_callback E cfg rq Hg) in Hcb. discriminate. }
    apply (serve_cases E cfg st now rq rnd ans
             (fun x => r_calls (snd x) <> [] ->
                       q_state rq <> 0 /\ q_state rq = get_str 3 (s_main (carried cfg now rq))) Hready);
      cbn [snd]; try (intros Hg; exfalso; exact (Hng Hg)).
    - intros _ H. exfalso. apply H. reflexivity.
    - intros _ _ H. destruct (handle_logout_eq E cfg rq st (carried cfg now rq)) as [loc Hl]. rewrite Hl in H.
      exfalso. apply H. reflexivity.
    - intros _ _ _.
      apply (b_cb_cases E cfg rq st now (carried cfg now rq) ans
               (fun x => r_calls (snd x) <> [] ->
                         q_state rq <> 0 /\ q_state rq = get_str 3 (s_main (carried cfg now rq)))); cbn [snd].
      + intros st' m code H. exfalso. apply H. reflexivity.
      + intros st' m code _ Hs Hsc _ _. split; assumption.
      + intros id rt tgt _ _ Hs Hsc _ _ _ _ _ _ _. split; assumption.
  Qed.

  (* what the per-step monitor says of an establishing callback *)
  Lemma c3_est_facts now rq ans r :
    c03_step E cfg now rq ans r = true -> is_callback cfg rq = true ->
    establishes E cfg now rq r = true ->
    q_state rq <> 0 /\ q_state rq = get_str 3 (s_main (carried cfg now rq))
    /\ (exists id rt code sc h v,
          ans = Some (AOk id rt) /\ r_calls r = [PExchange code sc h v]
          /\ v = get_str 5 (s_main (carried cfg now rq))
          /\ ti_nonce (tok E id) = get_str 4 (s_main (carried cfg now rq)))
    /\ (exists p, emitted_main r = Some p /\ get_str 3 p = 0).
  Proof.
    unfold c03_step. intros H Hcb Hest. rewrite Hcb, Hest in H.
    apply andb_prop in H. destruct H as [H _]. apply andb_prop in H. destruct H as [H _].
    apply andb_prop in H. destruct H as [H Hmain]. apply andb_prop in H. destruct H as [H Hcalls].
    apply andb_prop in H. destruct H as [H _]. apply andb_prop in H. destruct H as [H _].
    apply andb_prop in H. destruct H as [Hs0 Hsc].
    apply negb_true_iff, N.eqb_neq in Hs0. apply N.eqb_eq in Hsc.
    split; [exact Hs0|]. split; [exact Hsc|]. split.
    - destruct ans as [[g|id rt]|]; try discriminate.
      destruct (r_calls r) as [|[code sc h v|rt'] [|c2 cs]]; try discriminate.
      apply andb_prop in Hcalls. destruct Hcalls as [Hcalls _].
      apply andb_prop in Hcalls. destruct Hcalls as [Hcalls Hn].
      apply andb_prop in Hcalls. destruct Hcalls as [Hcalls _].
      apply andb_prop in Hcalls. destruct Hcalls as [_ Hv].
      apply N.eqb_eq in Hv, Hn. exists id, rt, code, sc, h, v. repeat split; assumption.
    - destruct (emitted_main r) as [p|]; [|discriminate]. exists p. split; [reflexivity|].
      apply andb_prop in Hmain. destruct Hmain as [Hmain _]. apply andb_prop in Hmain. destruct Hmain as [H3 _].
      apply N.eqb_eq in H3. exact H3.
  Qed.

  (* ---------------------------------------------------------------- the history *)

  (* the values shown by the login redirects of a history, in order *)
  Definition vals_of (l : list wstep) : list istr :=
    flat_map (fun s => match auth_state s with Some (x, y, z) => [x; y; z] | None => [] end) l.

  Lemma c3_vals_cons s l :
    vals_of (s :: l) = match auth_state s with Some (x, y, z) => [x; y; z] | None => [] end ++ vals_of l.
  Proof. reflexivity. Qed.

  (* under PKCE every login redirect carries a non-empty verifier *)
  Definition verifier_ok (s : wstep) : bool :=
    match auth_state s with Some (_, _, z) => negb (c_pkce cfg) || negb (N.eqb z 0) | None => true end.
  Definition verifiers_set (l : list wstep) : bool := forallb verifier_ok l.

  Definition c3_inv (last : option (istr * istr * istr)) (done : list istr) (j : jar) (l : list wstep) : Prop :=
    contiguous K j
    /\ (get_str 3 (jm j) <> 0 ->
        last = Some (pend (jm j)) /\ (c_pkce cfg = true -> get_str 5 (jm j) <> 0))
    /\ (forall d, In d done -> d <> 0 /\ d <> get_str 3 (jm j) /\ ~ In d (vals_of l))
    /\ (forall x y z, last = Some (x, y, z) -> x = 0 \/ ~ In x (vals_of l)).

  (* a step that is no login redirect and changes neither `last` nor `done` *)
  Lemma c3_inv_keep last done j j' s l :
    c3_inv last done j (s :: l) -> auth_state s = None -> contiguous K j' ->
    (get_str 3 (jm j') = 0 \/ pend (jm j') = pend (jm j)) ->
    c3_inv last done j' l.
  Proof.
    intros (_ & Hb & Hc & Hd) Ha Hcont Hm. rewrite c3_vals_cons, Ha in Hc, Hd. cbn [app] in Hc, Hd.
    split; [exact Hcont|]. split; [|split; [|exact Hd]].
    - intros H3. destruct Hm as [H0|Hp]; [contradiction|]. unfold pend in Hp. injection Hp as E3 E4 E5.
      rewrite E3 in H3. destruct (Hb H3) as [Hl Hv]. unfold pend. rewrite E3, E4, E5. split; [exact Hl|exact Hv].
    - intros d Hin. destruct (Hc d Hin) as (Hd0 & Hdj & Hdv). split; [exact Hd0|]. split; [|exact Hdv].
      destruct Hm as [H0|Hp]; [rewrite H0; exact Hd0|]. unfold pend in Hp. injection Hp as E3 _ _.
      rewrite E3. exact Hdj.
  Qed.

  Lemma c3_next_main st now rq rnd ans :
    i_ready st = true -> contiguous K (q_jar rq) ->
    let r := snd (serve E cfg st now rq rnd ans) in
    auth_state (c3_step now rq rnd ans r) = None ->
    get_str 3 (jm (apply_cookies K (q_jar rq) (r_cookies r))) = 0
    \/ pend (jm (apply_cookies K (q_jar rq) (r_cookies r))) = pend (jm (q_jar rq)).
  Proof.
    intros Hready Hcont r Ha. unfold r. rewrite (c3_jar_main st now rq rnd ans Hcont). fold r.
    destruct (emitted_main r) as [p|] eqn:Ep; [|right; reflexivity].
    destruct (c3_main_kept st now rq rnd ans Hready Ha p Ep) as [H0|Hp]; [left; exact H0|].
    rewrite c3_carried_main in Hp. destruct (session_too_old now (jm (q_jar rq))).
    - left. unfold pend in Hp. injection Hp as E3 _ _. exact E3.
    - right. exact Hp.
  Qed.

  Lemma c03_run evs : env_ok E -> cfg_ok cfg -> events_ready evs -> forall j last done,
    c3_inv last done j (browser_run E cfg j evs) ->
    pairwise_distinct (vals_of (browser_run E cfg j evs)) = true ->
    verifiers_set (browser_run E cfg j evs) = true ->
    c03_browser E cfg last done (browser_run E cfg j evs) = true.
  Proof.
    intros HE Hcfg Hr. induction Hr as [|e evs Hready _ IH]; intros j last done Hinv Hpd Hvs; [reflexivity|].
    cbn [browser_run] in *.
    set (rq := with_jar (ev_rq e) j) in *.
    set (r := snd (serve E cfg (ev_st e) (ev_now e) rq (ev_rnd e) (ev_ans e))) in *.
    fold (c3_step (ev_now e) rq (ev_rnd e) (ev_ans e) r) in *.
    set (s := c3_step (ev_now e) rq (ev_rnd e) (ev_ans e) r) in *.
    set (j' := apply_cookies K j (r_cookies r)) in *.
    assert (Hj : q_jar rq = j) by reflexivity.
    assert (Hcont : contiguous K (q_jar rq)) by (rewrite Hj; apply Hinv).
    assert (Hcont' : contiguous K j').
    { unfold j', r. rewrite <- Hj at 1. apply c_serve_contiguous. exact Hcont. }
    assert (Hjm : jm j' = match emitted_main r with Some p => p | None => jm j end).
    { unfold j'. rewrite <- Hj. exact (c3_jar_main (ev_st e) (ev_now e) rq (ev_rnd e) (ev_ans e) Hcont). }
    cbn [verifiers_set forallb] in Hvs. apply andb_prop in Hvs. destruct Hvs as [Hv Hvs].
    rewrite c3_vals_cons in Hpd.
    cbn [c03_browser]. destruct (auth_state s) as [[[x y] z]|] eqn:Ha.
    - (* a login redirect: it shows and stores the values of this step *)
      cbn [app] in Hpd. apply pd_cons in Hpd. destruct Hpd as [Hx Hpd].
      apply pd_cons in Hpd. destruct Hpd as [_ Hpd]. apply pd_cons in Hpd. destruct Hpd as [_ Hpd].
      apply IH; [|exact Hpd|exact Hvs].
      destruct Hinv as (_ & _ & Hc & _). rewrite c3_vals_cons, Ha in Hc.
      assert (Hp : pend (jm j') = (x, y, z)).
      { unfold auth_state in Ha. cbn [w_obs s c3_step] in Ha.
        destruct (r_loc r) as [[b s0 n c sc h| | | |]|] eqn:El; try discriminate. injection Ha as -> -> ->.
        destruct (c03_serve_initiation E cfg (ev_st e) (ev_now e) rq (ev_rnd e) (ev_ans e) Hready b x y z sc h El)
          as (_ & _ & _ & _ & p & Hp & H3 & H4 & H5 & _).
        fold r in Hp. rewrite Hjm, Hp. unfold pend. rewrite H3, H4, H5. reflexivity. }
      unfold pend in Hp. injection Hp as E3 E4 E5.
      split; [exact Hcont'|]. split; [|split].
      + intros _. unfold pend. rewrite E3, E4, E5. split; [reflexivity|].
        intros Hpk. unfold verifier_ok in Hv. rewrite Ha, Hpk in Hv. cbn [negb orb] in Hv.
        apply negb_true_iff, N.eqb_neq in Hv. exact Hv.
      + intros d Hin. destruct (Hc d Hin) as (Hd0 & _ & Hdv). split; [exact Hd0|]. rewrite E3.
        split; [intros ->; apply Hdv; left; reflexivity|].
        intros Hin'. apply Hdv. cbn [app In]. tauto.
      + intros x' y' z' H. injection H as <- <- <-. destruct Hx as [Hx|Hx]; [left; exact Hx|right].
        intros Hin. apply Hx. cbn [In]. tauto.
    - cbn [app] in Hpd.
      pose proof (c3_next_main (ev_st e) (ev_now e) rq (ev_rnd e) (ev_ans e) Hready Hcont Ha) as Hnext.
      fold r in Hnext. rewrite Hj in Hnext. fold j' in Hnext.
      cbn [w_rq s c3_step w_now w_obs w_ans].
      destruct (N.eqb (q_path rq) (c_callback cfg)) eqn:Hcb;
        [|apply IH; [exact (c3_inv_keep _ _ _ _ _ _ Hinv Ha Hcont' Hnext)|exact Hpd|exact Hvs]].
      (* the callback path *)
      pose proof (c03_serve E cfg (ev_st e) (ev_now e) rq (ev_rnd e) (ev_ans e) HE Hcfg Hready) as Hstep. fold r in Hstep.
      destruct (establishes E cfg (ev_now e) rq r) eqn:Hest.
      + (* a session is established: with the jar's csrf, nonce and verifier *)
        destruct (c3_est_facts _ _ _ _ Hstep Hcb Hest)
          as (Hs0 & Hsc & (id & rt & code & sc & h & v & Hans & Hcalls & Hv5 & Hn4) & (p & Hp & Hp3)).
        rewrite c3_carried_main, Hj in Hsc, Hv5, Hn4.
        destruct (session_too_old (ev_now e) (jm j)); [exfalso; apply Hs0; exact Hsc|].
        destruct Hinv as (_ & Hb & Hc & Hd).
        assert (H3 : get_str 3 (jm j) <> 0) by (rewrite <- Hsc; exact Hs0).
        destruct (Hb H3) as [Hl Hvne].
        assert (Hnd : memk (q_state rq) done = false).
        { apply memk_false. intros Hin. destruct (Hc _ Hin) as (_ & Hne & _). apply Hne. exact Hsc. }
        rewrite Hnd, Hl, Hans, Hcalls. unfold pend.
        rewrite Hsc, Hn4, Hv5, !N.eqb_refl. cbn [andb].
        assert (Hpk : (if c_pkce cfg then negb (N.eqb (get_str 5 (jm j)) 0) else true) = true).
        { destruct (c_pkce cfg); [|reflexivity]. apply negb_true_iff, N.eqb_neq, Hvne. reflexivity. }
        rewrite Hpk. cbn [andb].
        apply IH; [|exact Hpd|exact Hvs].
        assert (H0 : get_str 3 (jm j') = 0) by (rewrite Hjm, Hp; exact Hp3).
        rewrite c3_vals_cons, Ha in Hc, Hd. cbn [app] in Hc, Hd.
        split; [exact Hcont'|]. split; [intros H; contradiction|]. split; [|intros x y z H; discriminate].
        intros d [<-|Hin].
        * split; [exact H3|]. split; [rewrite H0; exact H3|].
          destruct (Hd _ _ _ Hl) as [Hz|Hni]; [contradiction|exact Hni].
        * destruct (Hc d Hin) as (Hd0 & _ & Hdv). split; [exact Hd0|]. split; [rewrite H0; exact Hd0|exact Hdv].
      + (* nothing established *)
        cbn [andb].
        assert (Hrep : (if memk (q_state rq) done
                        then negb false && match r_calls r with [] => true | _ :: _ => false end
                        else true) = true).
        { destruct (memk (q_state rq) done) eqn:Hm; [|reflexivity]. apply memk_In in Hm.
          destruct (r_calls r) as [|c cs] eqn:Ecalls; [reflexivity|]. exfalso.
          destruct (c3_callback_calls (ev_st e) (ev_now e) rq (ev_rnd e) (ev_ans e) Hready Hcb) as [Hs0 Hsc].
          { fold r. rewrite Ecalls. discriminate. }
          rewrite c3_carried_main, Hj in Hsc.
          destruct (session_too_old (ev_now e) (jm j)); [apply Hs0; exact Hsc|].
          destruct Hinv as (_ & _ & Hc & _). destruct (Hc _ Hm) as (_ & Hne & _). apply Hne. exact Hsc. }
        rewrite Hrep. cbn [andb].
        apply IH; [exact (c3_inv_keep _ _ _ _ _ _ Hinv Ha Hcont' Hnext)|exact Hpd|exact Hvs].
  Qed.

  Theorem C03_history_run_thm evs :
    env_ok E -> cfg_ok cfg -> events_ready evs ->
    fresh_values (browser_run E cfg [] evs) = true ->
    verifiers_set (browser_run E cfg [] evs) = true ->
    c03_browser E cfg None [] (browser_run E cfg [] evs) = true.
  Proof.
    intros HE Hcfg Hr Hf Hv. unfold fresh_values in Hf. apply andb_prop in Hf. destruct Hf as [Hpd _].
    apply (c03_run evs HE Hcfg Hr [] None []); [|exact Hpd|exact Hv].
    split; [apply contiguous_empty|]. split; [intros H; exfalso; apply H; reflexivity|].
    split; [intros d []|intros x y z H; discriminate].
  Qed.

  (* ---------------------------------------------------------------- from the random triples of the events *)

  Definition rnd_vals (l : list (istr * istr * istr)) : list istr :=
    flat_map (fun t => [fst (fst t); snd (fst t); snd t]) l.

  Definition rnd_nonzero (t : istr * istr * istr) : bool :=
    negb (N.eqb (fst (fst t)) 0) && negb (N.eqb (snd (fst t)) 0) && negb (N.eqb (snd t) 0).

  (* the triples the events would draw are pairwise distinct, none of them empty *)
  Definition rnds_fresh (l : list (istr * istr * istr)) : bool :=
    pairwise_distinct (rnd_vals l) && forallb rnd_nonzero l.

  Lemma c3_run_rnds evs : events_ready evs -> forall j,
    forallb rnd_nonzero (map ev_rnd evs) = true ->
    subz (vals_of (browser_run E cfg j evs)) (rnd_vals (map ev_rnd evs))
    /\ forallb (fun s => match auth_state s with
                         | Some (x, y, _) => negb (N.eqb x 0) && negb (N.eqb y 0)
                         | None => true
                         end) (browser_run E cfg j evs) = true
    /\ verifiers_set (browser_run E cfg j evs) = true.
  Proof.
    intros Hr. induction Hr as [|e evs Hready _ IH]; intros j Hnz; [repeat split; constructor|].
    cbn [map forallb] in Hnz. apply andb_prop in Hnz. destruct Hnz as [Hn Hnz].
    cbn [browser_run map]. set (rq := with_jar (ev_rq e) j).
    set (r := snd (serve E cfg (ev_st e) (ev_now e) rq (ev_rnd e) (ev_ans e))).
    destruct (IH (apply_cookies K j (r_cookies r)) Hnz) as (Hs & Hf & Hv).
    rewrite c3_vals_cons. cbn [forallb verifiers_set]. fold (verifiers_set (browser_run E cfg (apply_cookies K j (r_cookies r)) evs)).
    rewrite Hf, Hv. unfold verifier_ok.
    change (rnd_vals (ev_rnd e :: map ev_rnd evs))
      with ([fst (fst (ev_rnd e)); snd (fst (ev_rnd e)); snd (ev_rnd e)] ++ rnd_vals (map ev_rnd evs)).
    unfold auth_state at 1 2 3. cbn [w_obs].
    destruct (r_loc r) as [[b x y z sc h| | | |]|] eqn:El;
      try (split; [cbn [app]; do 3 apply subz_skip; exact Hs|split; reflexivity]).
    destruct (c03_serve_initiation E cfg (ev_st e) (ev_now e) rq (ev_rnd e) (ev_ans e) Hready b x y z sc h El)
      as (-> & -> & -> & _).
    unfold rnd_nonzero in Hn. apply andb_prop in Hn. destruct Hn as [Hn Hn3]. apply andb_prop in Hn.
    destruct Hn as [Hn1 Hn2]. rewrite Hn1, Hn2. cbn [andb app].
    split; [|split; [reflexivity|]].
    - apply subz_keep, subz_keep. destruct (c_pkce cfg); [apply subz_keep|apply subz_zero]; exact Hs.
    - destruct (c_pkce cfg); cbn [negb orb andb]; [rewrite Hn3|]; reflexivity.
  Qed.

  Theorem C03_history_thm evs :
    env_ok E -> cfg_ok cfg -> events_ready evs ->
    rnds_fresh (map ev_rnd evs) = true ->
    c03_browser E cfg None [] (browser_run E cfg [] evs) = true
    /\ fresh_values (browser_run E cfg [] evs) = true.
  Proof.
    intros HE Hcfg Hr Hf. unfold rnds_fresh in Hf. apply andb_prop in Hf. destruct Hf as [Hpd Hnz].
    destruct (c3_run_rnds evs Hr [] Hnz) as (Hs & Hne & Hv).
    assert (Hfv : fresh_values (browser_run E cfg [] evs) = true).
    { unfold fresh_values. fold (vals_of (browser_run E cfg [] evs)).
      rewrite (pd_subz _ _ Hs Hpd), Hne. reflexivity. }
    split; [|exact Hfv]. apply C03_history_run_thm; assumption.
  Qed.

End C03H.

(* ------------------------------------------------------------------ a concrete history; distinctness is necessary *)

From VF Require Import Proofs.W_BExample.

Definition c3_s (n : Z) : time := (n * 1000000000)%Z.

Definition c3_ev (n : Z) (rq : request) (rnd : istr * istr * istr) (ans : option answer) : event :=
  mkEvent b_ex_inst (c3_s n) rq rnd ans.

(* login (state 60, nonce 61, verifier 62), the same callback replayed, a
   forwarded request, logout, a second initiation (63, 64, 65), and the OLD
   callback once more *)
Definition c3_ex_events : list event :=
  [ c3_ev 1000 (b_ex_req 30 0 0 [] []) (60, 61, 62) None;
    c3_ev 1001 (b_ex_req 31 60 70 [] []) (66, 67, 68) (Some (AOk 50 80));
    c3_ev 1002 (b_ex_req 31 60 70 [] []) (69, 70, 71) (Some (AOk 50 80));
    c3_ev 1003 (b_ex_req 30 0 0 [] []) (72, 73, 74) None;
    c3_ev 1004 (b_ex_req 32 0 0 [] []) (75, 76, 77) None;
    c3_ev 1005 (b_ex_req 30 0 0 [] []) (63, 64, 65) None;
    c3_ev 1006 (b_ex_req 31 60 70 [] []) (78, 79, 81) (Some (AOk 50 80)) ].

Lemma c3_ex_ready : events_ready c3_ex_events.
Proof. repeat constructor. Qed.

Example c3_ex_history :
  let run := browser_run b_ex_env b_ex_cfg [] c3_ex_events in
  rnds_fresh (map ev_rnd c3_ex_events) = true
  /\ c03_browser b_ex_env b_ex_cfg None [] run = true
  /\ fresh_values run = true
  /\ map (fun s => r_status (w_obs s)) run = [302; 302; 400; 200; 302; 302; 400]
  /\ map auth_state run = [Some (60, 61, 62); None; None; None; None; Some (63, 64, 65); None]
  /\ map (fun s => establishes b_ex_env b_ex_cfg (w_now s) (w_rq s) (w_obs s)) run
     = [false; true; false; false; false; false; false]
  /\ map (fun s => r_calls (w_obs s)) run = [[]; [PExchange 70 5 6 62]; []; []; []; []; []].
Proof. vm_compute. repeat split. Qed.

(* the random source repeats itself: after a logout the second initiation draws
   the triple of the first again.  The old callback (state 60) then matches the
   new pending login and completes it — the monitor, for which state 60 was
   consumed by the first login, reports it.  No implementation can do better
   without remembering consumed states: distinct draws are a premise. *)
Definition c3_repeat_events : list event :=
  [ c3_ev 1000 (b_ex_req 30 0 0 [] []) (60, 61, 62) None;
    c3_ev 1001 (b_ex_req 31 60 70 [] []) (66, 67, 68) (Some (AOk 50 80));
    c3_ev 1004 (b_ex_req 32 0 0 [] []) (75, 76, 77) None;
    c3_ev 1005 (b_ex_req 30 0 0 [] []) (60, 61, 62) None;
    c3_ev 1006 (b_ex_req 31 60 70 [] []) (78, 79, 81) (Some (AOk 50 80)) ].

Example C03_needs_distinct_states :
  let run := browser_run b_ex_env b_ex_cfg [] c3_repeat_events in
  rnds_fresh (map ev_rnd c3_repeat_events) = false
  /\ fresh_values run = false
  /\ verifiers_set b_ex_cfg run = true
  /\ c03_browser b_ex_env b_ex_cfg None [] run = false
  /\ map (fun s => establishes b_ex_env b_ex_cfg (w_now s) (w_rq s) (w_obs s)) run
     = [false; true; false; false; true].
Proof. vm_compute. repeat split. Qed.
