(* Property C15 — redirects stay where they should.
     local_path_same_origin : for ALL byte strings, what isLocalRedirectPath
                              accepts is a same-origin absolute path for a browser
     c15_serve              : every 3xx of the model points to the discovered
                              authorization / end-session endpoint, the configured
                              post-logout URI, or a same-origin absolute path;
                              every other response has no Location
     C15_refuted_without_check : the pinned behaviour (stored URI used without
                              the check) yields an off-site target such as //e *)
From VF Require Import Base.Prelude Model.Cache Model.Session Model.Middleware Corr.WorldCorr Spec.WorldSpec.
From VF Require Import Proofs.WorldBase Proofs.ServeLemmas Proofs.SessionProofs.
From Coq Require Import ZifyBool ZifyNat ZifyN.
Open Scope N_scope.

(* ================================================================== the string lemma *)

Lemma c_printable_not_tab_nl c : printable c = true -> not_tab_nl c = true.
Proof.
  unfold printable, not_tab_nl, is_tab_nl. intros H. apply andb_true_iff in H as [H _].
  apply N.leb_le in H.
  destruct (N.eqb_spec c 9); [lia|]. destruct (N.eqb_spec c 10); [lia|]. destruct (N.eqb_spec c 13); [lia|].
  reflexivity.
Qed.

Lemma c_filter_printable b : forallb printable b = true -> filter not_tab_nl b = b.
Proof.
  induction b as [|c b IH]; [reflexivity|]. cbn [forallb filter]. intros H.
  apply andb_true_iff in H as [Hc Hb]. rewrite (c_printable_not_tab_nl c Hc), (IH Hb). reflexivity.
Qed.

Lemma c_local_path_inv b : local_path_bytes b = true ->
  b = [47] \/ exists c r, b = 47 :: c :: r
                          /\ negb (N.eqb c 47 || N.eqb c 92) = true /\ forallb printable b = true.
Proof.
  destruct b as [|c0 b]; [discriminate|].
  destruct c0 as [|p]; [discriminate|].
  do 6 (destruct p as [p|p|]; try discriminate).
  destruct b as [|c r]; [left; reflexivity|]. intros H. right. exists c, r.
  unfold local_path_bytes in H. apply andb_true_iff in H as [H1 H2]. repeat split; assumption.
Qed.

Theorem local_path_same_origin b : local_path_bytes b = true -> same_origin_path b = true.
Proof.
  intros H. destruct (c_local_path_inv b H) as [->|(c & r & -> & Hc & Hp)]; [reflexivity|].
  unfold same_origin_path. change (strip_leading (47 :: c :: r)) with (47 :: c :: r).
  rewrite (c_filter_printable _ Hp). unfold is_slash. rewrite Hc. reflexivity.
Qed.

(* the pinned behaviour: "//e" (or "/\e") was used as the redirect target *)
Example C15_refuted_without_check :
  same_origin_path [47; 47; 101] = false /\ local_path_bytes [47; 47; 101] = false
  /\ same_origin_path [47; 92; 101] = false /\ local_path_bytes [47; 92; 101] = false
  /\ same_origin_path [47; 9; 47; 101] = false /\ local_path_bytes [47; 9; 47; 101] = false.
Proof. vm_compute. repeat split. Qed.

(* ================================================================== the step theorem *)

Section C15.
  Variable E : env.
  Variable cfg : config.
  Notation NCE := (nchunks E).

  Lemma c_verify_endpoints st now t :
    i_auth_url (fst (verify_token E st now t)) = i_auth_url st
    /\ i_end_session (fst (verify_token E st now t)) = i_end_session st.
  Proof.
    unfold verify_token.
    repeat (match goal with |- context [match ?x with _ => _ end] => destruct x end);
      cbn [fst i_auth_url i_end_session]; split; reflexivity.
  Qed.

  Lemma c15_expected_post_logout rq : expected_post_logout cfg rq (post_logout cfg rq) = true.
  Proof.
    unfold expected_post_logout, post_logout. destruct (c_post_logout_abs cfg).
    - apply N.eqb_refl.
    - rewrite !N.eqb_refl. reflexivity.
  Qed.

  Lemma c15_post_logout a e rq cs body fwd cors calls flags :
    c15_step E cfg a e rq (mkResp 302 (Some (post_logout cfg rq)) cs body fwd cors calls flags) = true.
  Proof.
    unfold c15_step. cbn [r_status r_loc]. change (N.leb 300 302 && N.ltb 302 400) with true. cbv iota.
    pose proof (c15_expected_post_logout rq) as Hx.
    unfold post_logout in *. destruct (c_post_logout_abs cfg); exact Hx.
  Qed.

  Lemma c15_initiate a e rq' rq rnd st sd cookies calls :
    i_auth_url st = a -> a <> 0 ->
    c15_step E cfg a e rq' (initiate cfg rq rnd st sd cookies calls) = true.
  Proof.
    intros Ha Hne. rewrite initiate_eq. unfold c15_step. cbn [r_status r_loc].
    change (N.leb 300 302 && N.ltb 302 400) with true. cbv iota.
    rewrite Ha, N.eqb_refl. destruct (N.eqb_spec a 0); [contradiction|reflexivity].
  Qed.

  Lemma c15_no_location a e rq code cs body fwd cors calls flags :
    (N.leb 300 code && N.ltb code 400) = false ->
    c15_step E cfg a e rq (mkResp code None cs body fwd cors calls flags) = true.
  Proof. intros H. unfold c15_step. cbn [r_status r_loc]. rewrite H. reflexivity. Qed.

  Lemma c15_handle_logout a e rq st sd :
    i_end_session st = e ->
    c15_step E cfg a e rq (handle_logout E cfg rq st sd) = true.
  Proof.
    intros He. unfold handle_logout. change (NC E) with NCE. cbn [clear].
    assert (Hend : c15_step E cfg a e rq
                     (mkResp 302 (Some (if N.eqb (i_end_session st) 0 then post_logout cfg rq
                                        else LEndSession (i_end_session st) (get_access NCE sd) (post_logout cfg rq)))
                             (save_cookies (SessionProofs.cleared sd)) BNone None false [] []) = true).
    { destruct (N.eqb_spec (i_end_session st) 0) as [H0|H0]; [apply c15_post_logout|].
      unfold c15_step. cbn [r_status r_loc]. change (N.leb 300 302 && N.ltb 302 400) with true. cbv iota.
      rewrite He, N.eqb_refl, c15_expected_post_logout. rewrite <- He.
      destruct (N.eqb_spec (i_end_session st) 0); [contradiction|reflexivity]. }
    destruct (get_access NCE sd) eqn:Et; [apply c15_post_logout|exact Hend|exact Hend].
  Qed.

  Lemma c15_send_error a e rq' rq m code cs calls :
    (N.leb 300 code && N.ltb code 400) = false ->
    c15_step E cfg a e rq' (send_error rq m code cs calls) = true.
  Proof. intros H. unfold send_error. apply c15_no_location, H. Qed.

  Lemma c15_handle_callback (He : env_ok E) a e rq st now sd ans :
    c15_step E cfg a e rq (snd (handle_callback E cfg rq st now sd ans)) = true.
  Proof.
    unfold handle_callback.
    destruct (negb (N.eqb (q_error rq) 0)); [apply c15_send_error; reflexivity|].
    destruct (N.eqb (q_state rq) 0); [apply c15_send_error; reflexivity|].
    destruct (N.eqb (get_str 3 (s_main sd)) 0); [apply c15_send_error; reflexivity|].
    destruct (negb (N.eqb (q_state rq) (get_str 3 (s_main sd)))); [apply c15_send_error; reflexivity|].
    destruct (N.eqb (q_code rq) 0); [apply c15_send_error; reflexivity|].
    destruct ans as [[ig|id rt]|]; [apply c15_send_error; reflexivity| |apply c15_send_error; reflexivity].
    destruct (verify_token E st now id) as [st1 ok].
    destruct (negb ok); [apply c15_send_error; reflexivity|].
    destruct (negb (ti_claims (tok E id))); [apply c15_send_error; reflexivity|].
    destruct (N.eqb (ti_nonce (tok E id)) 0); [apply c15_send_error; reflexivity|].
    destruct (N.eqb (get_str 4 (s_main sd)) 0); [apply c15_send_error; reflexivity|].
    destruct (negb (N.eqb (ti_nonce (tok E id)) (get_str 4 (s_main sd)))); [apply c15_send_error; reflexivity|].
    destruct (N.eqb (ti_email (tok E id)) 0); [apply c15_send_error; reflexivity|].
    destruct (negb (allowed_domain E cfg (ti_email (tok E id)))); [apply c15_send_error; reflexivity|].
    cbn [snd]. unfold c15_step. cbn [r_status r_loc].
    change (N.leb 300 302 && N.ltb 302 400) with true. cbv iota.
    apply (eo_redir E He).
    destruct (negb (N.eqb (get_str 7 (s_main sd)) 0) && negb (N.eqb (get_str 7 (s_main sd)) (c_callback cfg))
              && local_path E (get_str 7 (s_main sd))) eqn:Et.
    - apply andb_true_iff in Et as [_ Hl]. exact Hl.
    - unfold local_path. rewrite (eo_slash E He). reflexivity.
  Qed.

  Lemma c15_process_authorized a e rq rnd st sd cookies calls :
    i_auth_url st = a -> a <> 0 ->
    c15_step E cfg a e rq (process_authorized E cfg rq rnd st sd cookies calls) = true.
  Proof.
    intros Ha Hne. apply pa_cases.
    - intros _. apply c15_initiate; assumption.
    - intros m _. apply c15_send_error. reflexivity.
    - intros _ _ _. apply c15_no_location. reflexivity.
    - intros h cors _. apply c15_no_location. reflexivity.
  Qed.

  Lemma c15_refresh_failed a e rq rnd st sd cs calls :
    i_auth_url st = a -> a <> 0 ->
    c15_step E cfg a e rq (refresh_failed_resp cfg rq rnd st sd cs calls) = true.
  Proof.
    intros Ha Hne. unfold refresh_failed_resp. destruct (q_json rq).
    - apply c15_no_location. reflexivity.
    - apply c15_initiate; assumption.
  Qed.

  Theorem c15_serve st now rq rnd ans :
    env_ok E -> cfg_ok cfg -> i_ready st = true -> i_auth_url st <> 0 ->
    c15_step E cfg (i_auth_url st) (i_end_session st) rq (snd (serve E cfg st now rq rnd ans)) = true.
  Proof.
    intros He _ Hready Hne.
    apply (serve_cases E cfg st now rq rnd ans
             (fun x => c15_step E cfg (i_auth_url st) (i_end_session st) rq (snd x) = true) Hready); cbn [snd].
    - intros _. apply c15_no_location. reflexivity.
    - intros _ _. apply c15_handle_logout. reflexivity.
    - intros _ _ _. apply c15_handle_callback, He.
    - intros _. rewrite handle_expired_eq. apply c15_initiate; [reflexivity|exact Hne].
    - intros _ _. apply c15_process_authorized; [reflexivity|exact Hne].
    - intros _ _ st' [->|[id ->]]; apply c15_refresh_failed; try exact Hne; try reflexivity.
      apply (c_verify_endpoints st now id).
    - intros _ _ _. apply c15_refresh_failed; [reflexivity|exact Hne].
    - intros _ _ id newrt _ _ _ _ _. apply c15_process_authorized; [|exact Hne].
      apply (c_verify_endpoints st now id).
    - intros _. apply c15_initiate; [reflexivity|exact Hne].
  Qed.

  (* a response of an instance that is not ready carries no Location either *)
  Theorem c15_serve_not_ready st now rq rnd ans a e :
    i_ready st = false -> c15_step E cfg a e rq (snd (serve E cfg st now rq rnd ans)) = true.
  Proof.
    intros H. unfold serve. rewrite H. cbn [negb snd]. destruct (q_ctx_done rq); apply c15_no_location; reflexivity.
  Qed.

End C15.
