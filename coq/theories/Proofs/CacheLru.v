(* C13: capacity, victim choice, recency, retention — proofs about Model/Cache.v
   for every capacity >= 1 and every history (induction, no bound), and the
   refinement of the history monitor of Spec/CacheLruSpec.v.
   The generic lock theorem is in Proofs/Locked.v and instantiated at the end. *)
From VF Require Import Base.Prelude Model.Cache Spec.CacheSpec Spec.CacheLruSpec Proofs.CacheProofs
                       Proofs.Locked.
From Coq Require Import ZifyBool ZifyNat ZifyN Permutation.
Open Scope Z_scope.

(* ------------------------------------------------------------ lists *)

Lemma memk_remove_key y x l : memk y (remove_key x l) = memk y l && negb (N.eqb y x).
Proof.
  destruct (memk y (remove_key x l)) eqn:M.
  - apply memk_In, remove_key_In in M. destruct M as [Hin Hne].
    apply memk_In in Hin. rewrite Hin. apply N.eqb_neq in Hne. rewrite Hne. reflexivity.
  - apply memk_false in M. rewrite remove_key_In in M.
    destruct (memk y l) eqn:M2; [|reflexivity]. apply memk_In in M2.
    destruct (N.eqb_spec y x) as [E|Hne]; [reflexivity|]. exfalso. apply M. tauto.
Qed.

Lemma memk_app y a b : memk y (a ++ b) = memk y a || memk y b.
Proof. induction a as [|x a IH]; cbn; [reflexivity|]. destruct (N.eqb y x); [reflexivity|exact IH]. Qed.

Lemma filter_remove_key (P : key -> bool) k l : filter P (remove_key k l) = remove_key k (filter P l).
Proof.
  induction l as [|a l IH]; cbn; [reflexivity|].
  destruct (N.eqb k a) eqn:E, (P a) eqn:Pa; cbn; rewrite ?E, ?Pa; congruence.
Qed.

Lemma filter_none {A} (f : A -> bool) l : (forall x, In x l -> f x = false) -> filter f l = [].
Proof.
  induction l as [|a l IH]; cbn; intros H; [reflexivity|].
  rewrite (H a) by (left; reflexivity). apply IH. intros x Hx. apply H. right; exact Hx.
Qed.

Lemma filter_single (f : key -> bool) l x :
  NoDup l -> In x l -> f x = true -> (forall y, In y l -> y <> x -> f y = false) -> filter f l = [x].
Proof.
  induction 1 as [|a l Hn Hd IH]; cbn; intros Hin Hx Ho; [tauto|].
  destruct Hin as [->|Hin].
  - rewrite Hx. f_equal. apply filter_none. intros y Hy. apply Ho; [right; exact Hy|].
    intros ->. tauto.
  - rewrite (Ho a) by (try (left; reflexivity); intros ->; tauto).
    apply IH; [exact Hin|exact Hx|]. intros y Hy. apply Ho. right; exact Hy.
Qed.

Lemma find_first {A} (f : A -> bool) l x :
  find f l = Some x ->
  exists l1 l2, l = l1 ++ x :: l2 /\ f x = true /\ forall y, In y l1 -> f y = false.
Proof.
  induction l as [|a l IH]; cbn; [discriminate|]. destruct (f a) eqn:Fa.
  - intros H; inversion H; subst. exists [], l. split; [reflexivity|]. split; [exact Fa|]. intros y [].
  - intros H. destruct (IH H) as [l1 [l2 [-> [Fx Hb]]]]. exists (a :: l1), l2.
    split; [reflexivity|]. split; [exact Fx|]. intros y [<-|Hy]; [exact Fa|apply Hb, Hy].
Qed.

Lemma remove_key_incl x l : incl (remove_key x l) l.
Proof. intros y Hy. apply remove_key_In in Hy. tauto. Qed.

Lemma remove_key_snoc_self k l : ~ In k l -> remove_key k (l ++ [k]) = l.
Proof.
  intros H. rewrite remove_key_app, remove_key_not_In by exact H. cbn. rewrite N.eqb_refl.
  apply app_nil_r.
Qed.

Lemma remove_key_self_notin k l : ~ In k (remove_key k l).
Proof. rewrite remove_key_In. tauto. Qed.

Lemma nodupb_NoDup l : NoDup l -> nodupb l = true.
Proof.
  induction 1 as [|a l Hn Hd IH]; cbn; [reflexivity|].
  apply memk_false in Hn. rewrite Hn, IH. reflexivity.
Qed.

Lemma subset_incl a b : incl a b -> subset a b = true.
Proof.
  intros H. unfold subset. apply forallb_forall. intros x Hx. apply memk_In, H, Hx.
Qed.

Lemma forallb_removed (P : key -> bool) before after :
  (forall y, In y before -> ~ In y after -> P y = true) -> forallb P (removed before after) = true.
Proof.
  intros H. apply forallb_forall. intros y Hy. unfold removed in Hy. apply filter_In in Hy.
  destruct Hy as [Hb Ha]. unfold absent_from in Ha. apply negb_true_iff, memk_false in Ha.
  apply H; assumption.
Qed.

Lemma removed_nil before after : incl before after -> removed before after = [].
Proof.
  intros H. unfold removed. apply filter_none. intros y Hy. unfold absent_from.
  apply negb_false_iff, memk_In, H, Hy.
Qed.

Lemma removed_victim l x k :
  NoDup l -> In x l -> ~ In k l -> removed l (remove_key x l ++ [k]) = [x].
Proof.
  intros ND Hx Hk. unfold removed. apply filter_single; [exact ND|exact Hx| |].
  - unfold absent_from. apply negb_true_iff, memk_false. rewrite in_app_iff, remove_key_In. cbn.
    intros [[_ H]|[H|[]]]; [tauto|]. subst k. tauto.
  - intros y Hy Hne. unfold absent_from. apply negb_false_iff, memk_In.
    rewrite in_app_iff, remove_key_In. left. tauto.
Qed.

Lemma keys_In_lookup {V} k (l : list (key * V)) : In k (keys l) <-> exists v, lookup k l = Some v.
Proof.
  split; [apply lookup_Some_keys|]. intros [v H]. eapply lookup_In_keys, H.
Qed.

(* ------------------------------------------------------------ the victim of an eviction *)

(* the key evictOldest removes: the first key in `order` whose entry is expired
   at `now`, otherwise the front of `order` *)
Definition victim (now : time) (c : cache) : option key :=
  match find (key_expired now (items c)) (order c) with
  | Some k => Some k
  | None => hd_error (order c)
  end.

Lemma evict_victim now c :
  evict now c = match victim now c with Some x => remove x c | None => c end.
Proof.
  unfold evict, victim. destruct (find _ _); [reflexivity|]. destruct (order c); reflexivity.
Qed.

Lemma victim_In now c x : victim now c = Some x -> In x (order c).
Proof.
  unfold victim. destruct (find _ _) as [y|] eqn:F.
  - intros H; inversion H; subst. apply find_some in F. tauto.
  - destruct (order c); cbn; [discriminate|]. intros H; inversion H; subst. left; reflexivity.
Qed.

Lemma victim_some now c : order c <> [] -> exists x, victim now c = Some x.
Proof.
  unfold victim. destruct (find _ _) as [y|]; [eauto|]. destruct (order c); [tauto|]. cbn. eauto.
Qed.

(* explicit reading of `victim` *)
Lemma victim_spec now c x :
  victim now c = Some x ->
  (exists l1 l2, order c = l1 ++ x :: l2 /\ key_expired now (items c) x = true
                 /\ forall y, In y l1 -> key_expired now (items c) y = false)
  \/ ((forall y, In y (order c) -> key_expired now (items c) y = false)
      /\ exists l2, order c = x :: l2).
Proof.
  unfold victim. destruct (find _ _) as [y|] eqn:F.
  - intros H; inversion H; subst. left. apply find_first, F.
  - intros H. right. split.
    + intros y Hy. apply (find_none _ _ F), Hy.
    + destruct (order c) as [|a l]; cbn in H; [discriminate|]. inversion H; subst. eauto.
Qed.

(* ------------------------------------------------------------ capacity *)

Definition bounded (c : cache) : Prop := (length (items c) <= cap c)%nat.

Lemma remove_items_length_le k c : (length (items (remove k c)) <= length (items c))%nat.
Proof.
  rewrite <- !keys_length, remove_items, keys_remove_assoc. apply remove_key_length_le.
Qed.

Lemma remove_items_length_In k c :
  wf c -> In k (keys (items c)) -> S (length (items (remove k c))) = length (items c).
Proof.
  intros W H. rewrite <- !keys_length, remove_items, keys_remove_assoc.
  apply remove_key_length_In; [apply W|exact H].
Qed.

Lemma fold_remove_length_le ks c :
  (length (items (fold_left (fun c k => remove k c) ks c)) <= length (items c))%nat.
Proof.
  revert c; induction ks as [|k ks IH]; intros c; cbn [fold_left]; [lia|].
  pose proof (IH (remove k c)). pose proof (remove_items_length_le k c). lia.
Qed.

Lemma update_length {V} k (v : V) l : length (update k v l) = length l.
Proof. rewrite <- !keys_length, keys_update. reflexivity. Qed.

(* the state a Set of a new key works on after the capacity test *)
Definition make_room (now : time) (c : cache) : cache :=
  if Nat.leb (cap c) (length (items c)) then evict now c else c.

Lemma set_new now k v ttl c :
  lookup k (items c) = None ->
  set now k v ttl c =
  mkCache (cap (make_room now c)) (items (make_room now c) ++ [(k, mkEntry v (now + ttl))])
          (order (make_room now c) ++ [k]).
Proof. intros L. unfold set, make_room. rewrite L. reflexivity. Qed.

Lemma set_old now k v ttl c e0 :
  lookup k (items c) = Some e0 ->
  set now k v ttl c = mkCache (cap c) (update k (mkEntry v (now + ttl)) (items c)) (touch k (order c)).
Proof. intros L. unfold set. rewrite L. reflexivity. Qed.

Lemma full_victim now c :
  wf c -> (0 < cap c)%nat -> (cap c <= length (items c))%nat ->
  exists x, victim now c = Some x /\ In x (keys (items c)) /\ make_room now c = remove x c.
Proof.
  intros W Hp Hf. destruct (victim_some now c) as [x Hx].
  - pose proof (wf_length c W) as Q. destruct (order c); cbn in Q; [lia|discriminate].
  - exists x. split; [exact Hx|]. split.
    + apply W, (victim_In now), Hx.
    + unfold make_room. replace (Nat.leb _ _) with true by (symmetry; apply Nat.leb_le; exact Hf).
      rewrite evict_victim, Hx. reflexivity.
Qed.

Lemma room_same now c : (length (items c) < cap c)%nat -> make_room now c = c.
Proof.
  intros H. unfold make_room. replace (Nat.leb _ _) with false by (symmetry; apply Nat.leb_gt; exact H).
  reflexivity.
Qed.

Lemma make_room_cases now c :
  wf c -> (0 < cap c)%nat ->
  ((length (items c) < cap c)%nat /\ make_room now c = c)
  \/ ((cap c <= length (items c))%nat /\
      exists x, victim now c = Some x /\ In x (keys (items c)) /\ make_room now c = remove x c).
Proof.
  intros W Hp. destruct (Nat.leb_spec (cap c) (length (items c))) as [Hf|Hr].
  - right. split; [exact Hf|]. apply full_victim; assumption.
  - left. split; [exact Hr|]. apply room_same, Hr.
Qed.

Lemma bounded_step c ev : wf c -> (0 < cap c)%nat -> bounded c -> bounded (fst (step c ev)).
Proof.
  unfold bounded. intros W Hp B. rewrite cap_step. destruct ev as [now [k v ttl|k|k|]]; cbn [step fst].
  - destruct (lookup k (items c)) as [e0|] eqn:L.
    + rewrite (set_old _ _ _ _ _ _ L). cbn [items]. rewrite update_length. exact B.
    + rewrite (set_new _ _ _ _ _ L). cbn [items]. rewrite app_length. cbn [length].
      destruct (make_room_cases now c W Hp) as [[Hr ->]|[Hf [x [_ [Hin ->]]]]]; [lia|].
      pose proof (remove_items_length_In x c W Hin). lia.
  - unfold get. destruct (lookup k (items c)) as [e|]; [|exact B].
    destruct (expired now e); cbn [fst items]; [|exact B].
    pose proof (remove_items_length_le k c). lia.
  - unfold delete. pose proof (remove_items_length_le k c). lia.
  - unfold cleanup. pose proof (fold_remove_length_le (cleanup_keys now (items c)) c). lia.
Qed.

Lemma bounded_states c h :
  wf c -> (0 < cap c)%nat -> bounded c ->
  forall c', In c' (states c h) -> bounded c' /\ cap c' = cap c.
Proof.
  revert c. induction h as [|ev h IH]; intros c W Hp B c'; cbn [states]; [intros []|].
  intros [<-|Hin].
  - split; [apply bounded_step; assumption|apply cap_step].
  - destruct (IH (fst (step c ev))) with (c' := c') as [H1 H2].
    + apply wf_step, W.
    + rewrite cap_step. exact Hp.
    + apply bounded_step; assumption.
    + exact Hin.
    + split; [exact H1|]. rewrite H2. apply cap_step.
Qed.

(* every state reached from the empty cache of capacity n >= 1 holds at most n entries *)
Theorem capacity_respected n h c :
  (0 < n)%nat -> In c (states (empty n) h) -> (length (items c) <= n)%nat /\ cap c = n.
Proof.
  intros Hp Hin. destruct (bounded_states (empty n) h (wf_empty n)) with (c' := c) as [H1 H2].
  - exact Hp.
  - unfold bounded. cbn. lia.
  - exact Hin.
  - cbn in H2. unfold bounded in H1. split; [lia|exact H2].
Qed.

(* ------------------------------------------------------------ victim, explicit form *)

(* Set of a new key into a full, well-formed cache removes exactly one key, the
   victim, adds the new key at the back and leaves every other entry as it was *)
Theorem set_full_victim now k v ttl c :
  wf c -> (0 < cap c)%nat -> lookup k (items c) = None -> (cap c <= length (items c))%nat ->
  exists x,
    victim now c = Some x
    /\ In x (keys (items c)) /\ x <> k
    /\ items (set now k v ttl c) = remove_assoc x (items c) ++ [(k, mkEntry v (now + ttl))]
    /\ order (set now k v ttl c) = remove_key x (order c) ++ [k]
    /\ cap (set now k v ttl c) = cap c
    /\ lookup x (items (set now k v ttl c)) = None
    /\ lookup k (items (set now k v ttl c)) = Some (mkEntry v (now + ttl))
    /\ (forall k', k' <> x -> k' <> k -> lookup k' (items (set now k v ttl c)) = lookup k' (items c))
    /\ length (items (set now k v ttl c)) = length (items c).
Proof.
  intros W Hp L Hf. destruct (full_victim now c W Hp Hf) as [x [Hv [Hin Hm]]].
  assert (Hne : x <> k).
  { intros ->. apply lookup_None_keys in L. tauto. }
  exists x. rewrite (set_new _ _ _ _ _ L), Hm. cbn [items order cap remove].
  repeat split; try assumption.
  - rewrite lookup_app_new, lookup_remove_assoc, N.eqb_refl.
    apply N.eqb_neq in Hne. rewrite Hne. reflexivity.
  - rewrite lookup_app_new, lookup_remove_assoc, L, N.eqb_refl.
    destruct (N.eqb k x); reflexivity.
  - intros k' H1 H2. rewrite lookup_app_new, lookup_remove_assoc.
    apply N.eqb_neq in H1, H2. rewrite H1, H2. destruct (lookup k' (items c)); reflexivity.
  - rewrite app_length. cbn [length]. pose proof (remove_items_length_In x c W Hin) as Q.
    rewrite remove_items in Q. lia.
Qed.

(* ------------------------------------------------------------ use moves to the back *)

Lemma touch_present k o : In k o -> touch k o = remove_key k o ++ [k].
Proof. intros H. unfold touch. apply memk_In in H. rewrite H. reflexivity. Qed.

Theorem get_hit_moves_back now k c e :
  wf c -> lookup k (items c) = Some e -> expired now e = false ->
  get now k c = (mkCache (cap c) (items c) (remove_key k (order c) ++ [k]), Some (e_val e)).
Proof.
  intros W L X. unfold get. rewrite L, X. rewrite touch_present; [reflexivity|].
  apply W. eapply lookup_In_keys, L.
Qed.

Theorem set_overwrite_moves_back now k v ttl c e0 :
  wf c -> lookup k (items c) = Some e0 ->
  set now k v ttl c =
  mkCache (cap c) (update k (mkEntry v (now + ttl)) (items c)) (remove_key k (order c) ++ [k]).
Proof.
  intros W L. rewrite (set_old _ _ _ _ _ _ L). rewrite touch_present; [reflexivity|].
  apply W. eapply lookup_In_keys, L.
Qed.

Theorem set_new_at_back now k v ttl c :
  wf c -> (0 < cap c)%nat -> lookup k (items c) = None ->
  exists l, order (set now k v ttl c) = l ++ [k] /\ ~ In k l
            /\ ((length (items c) < cap c)%nat /\ l = order c
                \/ (cap c <= length (items c))%nat /\ exists x, victim now c = Some x /\ l = remove_key x (order c)).
Proof.
  intros W Hp L. rewrite (set_new _ _ _ _ _ L). cbn [order].
  assert (Hk : ~ In k (order c)) by (rewrite (wf_same c W); apply lookup_None_keys, L).
  destruct (make_room_cases now c W Hp) as [[Hr ->]|[Hf [x [Hv [_ ->]]]]].
  - exists (order c). split; [reflexivity|]. split; [exact Hk|]. left. tauto.
  - exists (remove_key x (order c)). split; [reflexivity|]. split.
    + rewrite remove_key_In. tauto.
    + right. split; [exact Hf|]. eauto.
Qed.

(* the statement of C13_use: in each of the three situations the used key
   ends at the back and the list of the other keys is literally unchanged
   (minus the victim of an eviction) *)
Theorem use_moves_to_back now k c :
  wf c -> (0 < cap c)%nat ->
  (forall e, lookup k (items c) = Some e -> expired now e = false ->
     order (fst (get now k c)) = remove_key k (order c) ++ [k]
     /\ remove_key k (order (fst (get now k c))) = remove_key k (order c)
     /\ items (fst (get now k c)) = items c)
  /\ (forall v ttl e0, lookup k (items c) = Some e0 ->
     order (set now k v ttl c) = remove_key k (order c) ++ [k]
     /\ remove_key k (order (set now k v ttl c)) = remove_key k (order c))
  /\ (forall v ttl, lookup k (items c) = None ->
     order (set now k v ttl c) = order (make_room now c) ++ [k]
     /\ remove_key k (order (set now k v ttl c)) = order (make_room now c)
     /\ (make_room now c = c \/ exists x, victim now c = Some x /\ make_room now c = remove x c)).
Proof.
  intros W Hp. split; [|split].
  - intros e L X. rewrite (get_hit_moves_back now k c e W L X). cbn [fst order items].
    split; [reflexivity|]. split; [|reflexivity].
    apply remove_key_snoc_self, remove_key_self_notin.
  - intros v ttl e0 L. rewrite (set_overwrite_moves_back now k v ttl c e0 W L). cbn [order].
    split; [reflexivity|]. apply remove_key_snoc_self, remove_key_self_notin.
  - intros v ttl L. rewrite (set_new _ _ _ _ _ L). cbn [order]. split; [reflexivity|].
    assert (Hk : ~ In k (order c)) by (rewrite (wf_same c W); apply lookup_None_keys, L).
    destruct (make_room_cases now c W Hp) as [[Hr E]|[Hf [x [Hv [_ E]]]]]; rewrite E.
    + split; [apply remove_key_snoc_self, Hk|]. left; reflexivity.
    + split; [|right; eauto]. apply remove_key_snoc_self. cbn [remove order].
      rewrite remove_key_In. tauto.
Qed.
