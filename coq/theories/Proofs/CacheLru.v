(* C13: capacity, victim choice, recency, retention — proofs about Model/Cache.v
   for every capacity >= 1 and every history (induction, no bound), and the
   refinement of the history monitor of Spec/CacheLruSpec.v.
   The generic lock theorem is in Proofs/Locked.v and instantiated at the end. *)
From VF Require Import Base.Prelude Model.Cache Spec.CacheSpec Spec.CacheLruSpec Proofs.CacheProofs
                       Proofs.Locked.
From Coq Require Import ZifyBool ZifyNat ZifyN Permutation.
Open Scope Z_scope.

(* ------------------------------------------------------------ lists *)

Lemma memk_remove_key y x l : memk y (remove_key x l) = memk y l && negb (N.eqb y x).
Proof.
  destruct (memk y (remove_key x l)) eqn:M.
  - apply memk_In, remove_key_In in M. destruct M as [Hin Hne].
    apply memk_In in Hin. rewrite Hin. apply N.eqb_neq in Hne. rewrite Hne. reflexivity.
  - apply memk_false in M. rewrite remove_key_In in M.
    destruct (memk y l) eqn:M2; [|reflexivity]. apply memk_In in M2.
    destruct (N.eqb_spec y x) as [E|Hne]; [reflexivity|]. exfalso. apply M. tauto.
Qed.

Lemma memk_app y a b : memk y (a ++ b) = memk y a || memk y b.
Proof. induction a as [|x a IH]; cbn; [reflexivity|]. destruct (N.eqb y x); [reflexivity|exact IH]. Qed.

Lemma filter_remove_key (P : key -> bool) k l : filter P (remove_key k l) = remove_key k (filter P l).
Proof.
  induction l as [|a l IH]; cbn; [reflexivity|].
  destruct (N.eqb k a) eqn:E, (P a) eqn:Pa; cbn; rewrite ?E, ?Pa; congruence.
Qed.

Lemma filter_none {A} (f : A -> bool) l : (forall x, In x l -> f x = false) -> filter f l = [].
Proof.
  induction l as [|a l IH]; cbn; intros H; [reflexivity|].
  rewrite (H a) by (left; reflexivity). apply IH. intros x Hx. apply H. right; exact Hx.
Qed.

Lemma filter_single (f : key -> bool) l x :
  NoDup l -> In x l -> f x = true -> (forall y, In y l -> y <> x -> f y = false) -> filter f l = [x].
Proof.
  induction 1 as [|a l Hn Hd IH]; cbn; intros Hin Hx Ho; [tauto|].
  destruct Hin as [->|Hin].
  - rewrite Hx. f_equal. apply filter_none. intros y Hy. apply Ho; [right; exact Hy|].
    intros ->. tauto.
  - rewrite (Ho a) by (try (left; reflexivity); intros ->; tauto).
    apply IH; [exact Hin|exact Hx|]. intros y Hy. apply Ho. right; exact Hy.
Qed.

Lemma find_first {A} (f : A -> bool) l x :
  find f l = Some x ->
  exists l1 l2, l = l1 ++ x :: l2 /\ f x = true /\ forall y, In y l1 -> f y = false.
Proof.
  induction l as [|a l IH]; cbn; [discriminate|]. destruct (f a) eqn:Fa.
  - intros H; inversion H; subst. exists [], l. split; [reflexivity|]. split; [exact Fa|]. intros y [].
  - intros H. destruct (IH H) as [l1 [l2 [-> [Fx Hb]]]]. exists (a :: l1), l2.
    split; [reflexivity|]. split; [exact Fx|]. intros y [<-|Hy]; [exact Fa|apply Hb, Hy].
Qed.

Lemma remove_key_incl x l : incl (remove_key x l) l.
Proof. intros y Hy. apply remove_key_In in Hy. tauto. Qed.

Lemma remove_key_snoc_self k l : ~ In k l -> remove_key k (l ++ [k]) = l.
Proof.
  intros H. rewrite remove_key_app, remove_key_not_In by exact H. cbn. rewrite N.eqb_refl.
  apply app_nil_r.
Qed.

Lemma remove_key_self_notin k l : ~ In k (remove_key k l).
Proof. rewrite remove_key_In. tauto. Qed.

Lemma nodupb_NoDup l : NoDup l -> nodupb l = true.
Proof.
  induction 1 as [|a l Hn Hd IH]; cbn; [reflexivity|].
  apply memk_false in Hn. rewrite Hn, IH. reflexivity.
Qed.

Lemma subset_incl a b : incl a b -> subset a b = true.
Proof.
  intros H. unfold subset. apply forallb_forall. intros x Hx. apply memk_In, H, Hx.
Qed.

Lemma forallb_removed (P : key -> bool) before after :
  (forall y, In y before -> ~ In y after -> P y = true) -> forallb P (removed before after) = true.
Proof.
  intros H. apply forallb_forall. intros y Hy. unfold removed in Hy. apply filter_In in Hy.
  destruct Hy as [Hb Ha]. unfold absent_from in Ha. apply negb_true_iff, memk_false in Ha.
  apply H; assumption.
Qed.

Lemma removed_nil before after : incl before after -> removed before after = [].
Proof.
  intros H. unfold removed. apply filter_none. intros y Hy. unfold absent_from.
  apply negb_false_iff, memk_In, H, Hy.
Qed.

Lemma removed_victim l x k :
  NoDup l -> In x l -> ~ In k l -> removed l (remove_key x l ++ [k]) = [x].
Proof.
  intros ND Hx Hk. unfold removed. apply filter_single; [exact ND|exact Hx| |].
  - unfold absent_from. apply negb_true_iff, memk_false. rewrite in_app_iff, remove_key_In. cbn.
    intros [[_ H]|[H|[]]]; [tauto|]. subst k. tauto.
  - intros y Hy Hne. unfold absent_from. apply negb_false_iff, memk_In.
    rewrite in_app_iff, remove_key_In. left. tauto.
Qed.

Lemma keys_In_lookup {V} k (l : list (key * V)) : In k (keys l) <-> exists v, lookup k l = Some v.
Proof.
  split; [apply lookup_Some_keys|]. intros [v H]. eapply lookup_In_keys, H.
Qed.

(* ------------------------------------------------------------ the victim of an eviction *)

(* the key evictOldest removes: the first key in `order` whose entry is expired
   at `now`, otherwise the front of `order` *)
Definition victim (now : time) (c : cache) : option key :=
  match find (key_expired now (items c)) (order c) with
  | Some k => Some k
  | None => hd_error (order c)
  end.

Lemma evict_victim now c :
  evict now c = match victim now c with Some x => remove x c | None => c end.
Proof.
  unfold evict, victim. destruct (find _ _); [reflexivity|]. destruct (order c); reflexivity.
Qed.

Lemma victim_In now c x : victim now c = Some x -> In x (order c).
Proof.
  unfold victim. destruct (find _ _) as [y|] eqn:F.
  - intros H; inversion H; subst. apply find_some in F. tauto.
  - destruct (order c); cbn; [discriminate|]. intros H; inversion H; subst. left; reflexivity.
Qed.

Lemma victim_some now c : order c <> [] -> exists x, victim now c = Some x.
Proof.
  unfold victim. destruct (find _ _) as [y|]; [eauto|]. destruct (order c); [tauto|]. cbn. eauto.
Qed.

(* explicit reading of `victim` *)
Lemma victim_spec now c x :
  victim now c = Some x ->
  (exists l1 l2, order c = l1 ++ x :: l2 /\ key_expired now (items c) x = true
                 /\ forall y, In y l1 -> key_expired now (items c) y = false)
  \/ ((forall y, In y (order c) -> key_expired now (items c) y = false)
      /\ exists l2, order c = x :: l2).
Proof.
  unfold victim. destruct (find _ _) as [y|] eqn:F.
  - intros H; inversion H; subst. left. apply find_first, F.
  - intros H. right. split.
    + intros y Hy. apply (find_none _ _ F), Hy.
    + destruct (order c) as [|a l]; cbn in H; [discriminate|]. inversion H; subst. eauto.
Qed.

(* ------------------------------------------------------------ capacity *)

Definition bounded (c : cache) : Prop := (length (items c) <= cap c)%nat.

Lemma remove_items_length_le k c : (length (items (remove k c)) <= length (items c))%nat.
Proof.
  rewrite <- !keys_length, remove_items, keys_remove_assoc. apply remove_key_length_le.
Qed.

Lemma remove_items_length_In k c :
  wf c -> In k (keys (items c)) -> S (length (items (remove k c))) = length (items c).
Proof.
  intros W H. rewrite <- !keys_length, remove_items, keys_remove_assoc.
  apply remove_key_length_In; [apply W|exact H].
Qed.

Lemma fold_remove_length_le ks c :
  (length (items (fold_left (fun c k => remove k c) ks c)) <= length (items c))%nat.
Proof.
  revert c; induction ks as [|k ks IH]; intros c; cbn [fold_left]; [lia|].
  pose proof (IH (remove k c)). pose proof (remove_items_length_le k c). lia.
Qed.

Lemma update_length {V} k (v : V) l : length (update k v l) = length l.
Proof. rewrite <- !keys_length, keys_update. reflexivity. Qed.

(* the state a Set of a new key works on after the capacity test *)
Definition make_room (now : time) (c : cache) : cache :=
  if Nat.leb (cap c) (length (items c)) then evict now c else c.

Lemma set_new now k v ttl c :
  lookup k (items c) = None ->
  set now k v ttl c =
  mkCache (cap (make_room now c)) (items (make_room now c) ++ [(k, mkEntry v (now + ttl))])
          (order (make_room now c) ++ [k]).
Proof. intros L. unfold set, make_room. rewrite L. reflexivity. Qed.

Lemma set_old now k v ttl c e0 :
  lookup k (items c) = Some e0 ->
  set now k v ttl c = mkCache (cap c) (update k (mkEntry v (now + ttl)) (items c)) (touch k (order c)).
Proof. intros L. unfold set. rewrite L. reflexivity. Qed.

Lemma full_victim now c :
  wf c -> (0 < cap c)%nat -> (cap c <= length (items c))%nat ->
  exists x, victim now c = Some x /\ In x (keys (items c)) /\ make_room now c = remove x c.
Proof.
  intros W Hp Hf. destruct (victim_some now c) as [x Hx].
  - pose proof (wf_length c W) as Q. destruct (order c); cbn in Q; [lia|discriminate].
  - exists x. split; [exact Hx|]. split.
    + apply W, (victim_In now), Hx.
    + unfold make_room. replace (Nat.leb _ _) with true by (symmetry; apply Nat.leb_le; exact Hf).
      rewrite evict_victim, Hx. reflexivity.
Qed.

Lemma room_same now c : (length (items c) < cap c)%nat -> make_room now c = c.
Proof.
  intros H. unfold make_room. replace (Nat.leb _ _) with false by (symmetry; apply Nat.leb_gt; exact H).
  reflexivity.
Qed.

Lemma make_room_cases now c :
  wf c -> (0 < cap c)%nat ->
  ((length (items c) < cap c)%nat /\ make_room now c = c)
  \/ ((cap c <= length (items c))%nat /\
      exists x, victim now c = Some x /\ In x (keys (items c)) /\ make_room now c = remove x c).
Proof.
  intros W Hp. destruct (Nat.leb_spec (cap c) (length (items c))) as [Hf|Hr].
  - right. split; [exact Hf|]. apply full_victim; assumption.
  - left. split; [exact Hr|]. apply room_same, Hr.
Qed.

Lemma bounded_step c ev : wf c -> (0 < cap c)%nat -> bounded c -> bounded (fst (step c ev)).
Proof.
  unfold bounded. intros W Hp B. rewrite cap_step. destruct ev as [now [k v ttl|k|k|]]; cbn [step fst].
  - destruct (lookup k (items c)) as [e0|] eqn:L.
    + rewrite (set_old _ _ _ _ _ _ L). cbn [items]. rewrite update_length. exact B.
    + rewrite (set_new _ _ _ _ _ L). cbn [items]. rewrite app_length. cbn [length].
      destruct (make_room_cases now c W Hp) as [[Hr ->]|[Hf [x [_ [Hin ->]]]]]; [lia|].
      pose proof (remove_items_length_In x c W Hin). lia.
  - unfold get. destruct (lookup k (items c)) as [e|]; [|exact B].
    destruct (expired now e); cbn [fst items]; [|exact B].
    pose proof (remove_items_length_le k c). lia.
  - unfold delete. pose proof (remove_items_length_le k c). lia.
  - unfold cleanup. pose proof (fold_remove_length_le (cleanup_keys now (items c)) c). lia.
Qed.

Lemma bounded_states c h :
  wf c -> (0 < cap c)%nat -> bounded c ->
  forall c', In c' (states c h) -> bounded c' /\ cap c' = cap c.
Proof.
  revert c. induction h as [|ev h IH]; intros c W Hp B c'; cbn [states]; [intros []|].
  intros [<-|Hin].
  - split; [apply bounded_step; assumption|apply cap_step].
  - destruct (IH (fst (step c ev))) with (c' := c') as [H1 H2].
    + apply wf_step, W.
    + rewrite cap_step. exact Hp.
    + apply bounded_step; assumption.
    + exact Hin.
    + split; [exact H1|]. rewrite H2. apply cap_step.
Qed.

(* every state reached from the empty cache of capacity n >= 1 holds at most n entries *)
Theorem capacity_respected n h c :
  (0 < n)%nat -> In c (states (empty n) h) -> (length (items c) <= n)%nat /\ cap c = n.
Proof.
  intros Hp Hin. destruct (bounded_states (empty n) h (wf_empty n)) with (c' := c) as [H1 H2].
  - exact Hp.
  - unfold bounded. cbn. lia.
  - exact Hin.
  - cbn in H2. unfold bounded in H1. split; [lia|exact H2].
Qed.

(* ------------------------------------------------------------ victim, explicit form *)

(* Set of a new key into a full, well-formed cache removes exactly one key, the
   victim, adds the new key at the back and leaves every other entry as it was *)
Theorem set_full_victim now k v ttl c :
  wf c -> (0 < cap c)%nat -> lookup k (items c) = None -> (cap c <= length (items c))%nat ->
  exists x,
    victim now c = Some x
    /\ In x (keys (items c)) /\ x <> k
    /\ items (set now k v ttl c) = remove_assoc x (items c) ++ [(k, mkEntry v (now + ttl))]
    /\ order (set now k v ttl c) = remove_key x (order c) ++ [k]
    /\ cap (set now k v ttl c) = cap c
    /\ lookup x (items (set now k v ttl c)) = None
    /\ lookup k (items (set now k v ttl c)) = Some (mkEntry v (now + ttl))
    /\ (forall k', k' <> x -> k' <> k -> lookup k' (items (set now k v ttl c)) = lookup k' (items c))
    /\ length (items (set now k v ttl c)) = length (items c).
Proof.
  intros W Hp L Hf. destruct (full_victim now c W Hp Hf) as [x [Hv [Hin Hm]]].
  assert (Hne : x <> k).
  { intros ->. apply lookup_None_keys in L. tauto. }
  exists x. rewrite (set_new _ _ _ _ _ L), Hm. cbn [items order cap remove].
  repeat split; try assumption.
  - rewrite lookup_app_new, lookup_remove_assoc, N.eqb_refl.
    apply N.eqb_neq in Hne. rewrite Hne. reflexivity.
  - rewrite lookup_app_new, lookup_remove_assoc, L, N.eqb_refl.
    destruct (N.eqb k x); reflexivity.
  - intros k' H1 H2. rewrite lookup_app_new, lookup_remove_assoc.
    apply N.eqb_neq in H1, H2. rewrite H1, H2. destruct (lookup k' (items c)); reflexivity.
  - rewrite app_length. cbn [length]. pose proof (remove_items_length_In x c W Hin) as Q.
    rewrite remove_items in Q. lia.
Qed.

(* ------------------------------------------------------------ use moves to the back *)

Lemma touch_present k o : In k o -> touch k o = remove_key k o ++ [k].
Proof. intros H. unfold touch. apply memk_In in H. rewrite H. reflexivity. Qed.

Theorem get_hit_moves_back now k c e :
  wf c -> lookup k (items c) = Some e -> expired now e = false ->
  get now k c = (mkCache (cap c) (items c) (remove_key k (order c) ++ [k]), Some (e_val e)).
Proof.
  intros W L X. unfold get. rewrite L, X. rewrite touch_present; [reflexivity|].
  apply W. eapply lookup_In_keys, L.
Qed.

Theorem set_overwrite_moves_back now k v ttl c e0 :
  wf c -> lookup k (items c) = Some e0 ->
  set now k v ttl c =
  mkCache (cap c) (update k (mkEntry v (now + ttl)) (items c)) (remove_key k (order c) ++ [k]).
Proof.
  intros W L. rewrite (set_old _ _ _ _ _ _ L). rewrite touch_present; [reflexivity|].
  apply W. eapply lookup_In_keys, L.
Qed.

Theorem set_new_at_back now k v ttl c :
  wf c -> (0 < cap c)%nat -> lookup k (items c) = None ->
  exists l, order (set now k v ttl c) = l ++ [k] /\ ~ In k l
            /\ ((length (items c) < cap c)%nat /\ l = order c
                \/ (cap c <= length (items c))%nat /\ exists x, victim now c = Some x /\ l = remove_key x (order c)).
Proof.
  intros W Hp L. rewrite (set_new _ _ _ _ _ L). cbn [order].
  assert (Hk : ~ In k (order c)) by (rewrite (wf_same c W); apply lookup_None_keys, L).
  destruct (make_room_cases now c W Hp) as [[Hr ->]|[Hf [x [Hv [_ ->]]]]].
  - exists (order c). split; [reflexivity|]. split; [exact Hk|]. left. tauto.
  - exists (remove_key x (order c)). split; [reflexivity|]. split.
    + rewrite remove_key_In. tauto.
    + right. split; [exact Hf|]. eauto.
Qed.

(* the statement of C13_use: in each of the three situations the used key
   ends at the back and the list of the other keys is literally unchanged
   (minus the victim of an eviction) *)
Theorem use_moves_to_back now k c :
  wf c -> (0 < cap c)%nat ->
  (forall e, lookup k (items c) = Some e -> expired now e = false ->
     order (fst (get now k c)) = remove_key k (order c) ++ [k]
     /\ remove_key k (order (fst (get now k c))) = remove_key k (order c)
     /\ items (fst (get now k c)) = items c)
  /\ (forall v ttl e0, lookup k (items c) = Some e0 ->
     order (set now k v ttl c) = remove_key k (order c) ++ [k]
     /\ remove_key k (order (set now k v ttl c)) = remove_key k (order c))
  /\ (forall v ttl, lookup k (items c) = None ->
     order (set now k v ttl c) = order (make_room now c) ++ [k]
     /\ remove_key k (order (set now k v ttl c)) = order (make_room now c)
     /\ (make_room now c = c \/ exists x, victim now c = Some x /\ make_room now c = remove x c)).
Proof.
  intros W Hp. split; [|split].
  - intros e L X. rewrite (get_hit_moves_back now k c e W L X). cbn [fst order items].
    split; [reflexivity|]. split; [|reflexivity].
    apply remove_key_snoc_self, remove_key_self_notin.
  - intros v ttl e0 L. rewrite (set_overwrite_moves_back now k v ttl c e0 W L). cbn [order].
    split; [reflexivity|]. apply remove_key_snoc_self, remove_key_self_notin.
  - intros v ttl L. rewrite (set_new _ _ _ _ _ L). cbn [order]. split; [reflexivity|].
    assert (Hk : ~ In k (order c)) by (rewrite (wf_same c W); apply lookup_None_keys, L).
    destruct (make_room_cases now c W Hp) as [[Hr E]|[Hf [x [Hv [_ E]]]]]; rewrite E.
    + split; [apply remove_key_snoc_self, Hk|]. left; reflexivity.
    + split; [|right; eauto]. apply remove_key_snoc_self. cbn [remove order].
      rewrite remove_key_In. tauto.
Qed.

(* ------------------------------------------------------------ the model refines the history monitor *)

(* the model's usage order is the history-derived recency list restricted to
   the keys present *)
Definition tracks (c : cache) (lru : list key) : Prop :=
  order c = filter (present_in (keys (items c))) lru.

Lemma filter_present_remove x ks l :
  remove_key x (filter (present_in ks) l) = filter (present_in (remove_key x ks)) l.
Proof.
  induction l as [|a l IH]; cbn [filter]; [reflexivity|].
  change (present_in ks a) with (memk a ks).
  change (present_in (remove_key x ks) a) with (memk a (remove_key x ks)).
  rewrite memk_remove_key.
  destruct (memk a ks) eqn:M; cbn [andb remove_key].
  - destruct (N.eqb_spec a x) as [->|Hne]; cbn [negb].
    + rewrite N.eqb_refl. exact IH.
    + replace (N.eqb x a) with false by (symmetry; apply N.eqb_neq; congruence).
      rewrite IH. reflexivity.
  - exact IH.
Qed.

Lemma tracks_remove x c lru : tracks c lru -> tracks (remove x c) lru.
Proof.
  unfold tracks. intros T. rewrite remove_order, remove_items, keys_remove_assoc, T.
  apply filter_present_remove.
Qed.

Lemma tracks_fold_remove ks c lru :
  tracks c lru -> tracks (fold_left (fun c k => remove k c) ks c) lru.
Proof.
  revert c; induction ks as [|k ks IH]; intros c T; cbn [fold_left]; [exact T|].
  apply IH, tracks_remove, T.
Qed.

Lemma tracks_make_room now c lru : tracks c lru -> tracks (make_room now c) lru.
Proof.
  intros T. unfold make_room. destruct (Nat.leb _ _); [|exact T].
  rewrite evict_victim. destruct (victim now c); [apply tracks_remove, T|exact T].
Qed.

Lemma tracks_touch c lru k it :
  tracks c lru -> In k (order c) -> In k (keys (items c)) -> keys it = keys (items c) ->
  tracks (mkCache (cap c) it (touch k (order c))) (bump k lru).
Proof.
  unfold tracks. intros T Ho Hk E. cbn [order items]. rewrite E, touch_present by exact Ho.
  unfold bump. rewrite filter_app, filter_remove_key, <- T. cbn [filter].
  unfold present_in. apply memk_In in Hk. rewrite Hk. reflexivity.
Qed.

Lemma tracks_push c lru k e :
  tracks c lru -> ~ In k (keys (items c)) ->
  tracks (mkCache (cap c) (items c ++ [(k, e)]) (order c ++ [k])) (bump k lru).
Proof.
  unfold tracks. intros T Hk. cbn [order items]. rewrite keys_app, keys_single.
  unfold bump. rewrite filter_app. cbn [filter]. unfold present_in at 2.
  rewrite memk_app. cbn [memk]. rewrite N.eqb_refl, orb_true_r. f_equal.
  rewrite (filter_ext_in (present_in (keys (items c) ++ [k])) (present_in (keys (items c)))).
  - rewrite filter_remove_key, <- T. symmetry. apply remove_key_not_In.
    rewrite T. rewrite filter_In. unfold present_in. rewrite memk_In. tauto.
  - intros y Hy. apply remove_key_In in Hy. destruct Hy as [_ Hne]. unfold present_in.
    rewrite memk_app. cbn [memk]. apply N.eqb_neq in Hne. rewrite Hne. apply orb_false_r.
Qed.

Lemma make_room_lookup_None now c k :
  lookup k (items c) = None -> lookup k (items (make_room now c)) = None.
Proof.
  intros L. unfold make_room. destruct (Nat.leb _ _); [|exact L].
  destruct (lookup k (items (evict now c))) eqn:E; [|reflexivity].
  apply lookup_evict_sub in E. congruence.
Qed.

Lemma make_room_cap now c : cap (make_room now c) = cap c.
Proof. unfold make_room. destruct (Nat.leb _ _); [apply evict_cap|reflexivity]. Qed.

Lemma tracks_step c lru now o :
  wf c -> tracks c lru ->
  tracks (fst (step c (now, o))) (bump_use (use_of o (snd (step c (now, o)))) lru).
Proof.
  intros W T. destruct o as [k v ttl|k|k|]; cbn [step fst snd use_of bump_use].
  - destruct (lookup k (items c)) as [e0|] eqn:L.
    + rewrite (set_old _ _ _ _ _ _ L). pose proof (lookup_In_keys _ _ _ L) as Hk.
      apply tracks_touch; [exact T|apply W, Hk|exact Hk|apply keys_update].
    + rewrite (set_new _ _ _ _ _ L).
      apply tracks_push; [apply tracks_make_room, T|].
      apply lookup_None_keys, make_room_lookup_None, L.
  - unfold get. destruct (lookup k (items c)) as [e|] eqn:L; [|exact T].
    destruct (expired now e); cbn [fst snd use_of bump_use]; [apply tracks_remove, T|].
    pose proof (lookup_In_keys _ _ _ L) as Hk.
    apply tracks_touch; [exact T|apply W, Hk|exact Hk|reflexivity].
  - apply tracks_remove, T.
  - apply tracks_fold_remove, T.
Qed.

(* what the history says about expiry is what the model's entries say *)
Lemma expired_agrees c rh now k :
  agrees c rh -> In k (keys (items c)) -> is_expired rh now k = key_expired now (items c) k.
Proof.
  intros A Hk. apply lookup_Some_keys in Hk. destruct Hk as [e L].
  unfold is_expired, key_expired. rewrite (A k e L), L. reflexivity.
Qed.

Lemma victim_ok_model c rh lru now x :
  wf c -> agrees c rh -> tracks c lru -> victim now c = Some x ->
  victim_ok rh lru (keys (items c)) now x = true.
Proof.
  intros W A T Hv. unfold victim_ok. unfold victim in Hv.
  destruct (find (key_expired now (items c)) (order c)) as [y|] eqn:F.
  - inversion Hv; subst y. apply find_some in F. destruct F as [Ho Hx].
    assert (Hin : In x (filter (is_expired rh now) (keys (items c)))).
    { apply filter_In. split; [apply W, Ho|]. rewrite (expired_agrees c rh now x A); [exact Hx|apply W, Ho]. }
    destruct (filter (is_expired rh now) (keys (items c))) as [|a l]; [destruct Hin|].
    apply memk_In, Hin.
  - rewrite (filter_none (is_expired rh now)).
    + unfold tracks in T. rewrite <- T. destruct (order c) as [|a l]; cbn in Hv; [discriminate|].
      inversion Hv; subst. apply N.eqb_refl.
    + intros y Hy. rewrite (expired_agrees c rh now y A Hy). apply (find_none _ _ F), W, Hy.
Qed.

Lemma step_ok_model c rh lru now o :
  wf c -> agrees c rh -> bounded c -> (0 < cap c)%nat -> tracks c lru ->
  step_ok (cap c) rh lru (keys (items c)) now o (snd (step c (now, o)))
          (keys (items (fst (step c (now, o))))) = true.
Proof.
  intros W A B Hp T. unfold step_ok.
  assert (W1 : wf (fst (step c (now, o)))) by (apply wf_step, W).
  assert (B1 : bounded (fst (step c (now, o)))) by (apply bounded_step; assumption).
  unfold bounded in B1. rewrite cap_step in B1.
  rewrite nodupb_NoDup by apply W1. rewrite keys_length.
  replace (Nat.leb _ (cap c)) with true by (symmetry; apply Nat.leb_le; exact B1).
  cbn [andb]. destruct o as [k v ttl|k|k|]; cbn [step fst snd].
  - (* set *)
    destruct (lookup k (items c)) as [e0|] eqn:L.
    + rewrite (set_old _ _ _ _ _ _ L). cbn [items]. rewrite keys_update.
      pose proof (lookup_In_keys _ _ _ L) as Hk. apply memk_In in Hk. rewrite Hk. cbn [negb andb orb].
      rewrite subset_incl by (intros y Hy; right; exact Hy).
      rewrite removed_nil by apply incl_refl. reflexivity.
    + rewrite (set_new _ _ _ _ _ L). cbn [items]. rewrite keys_app, keys_single.
      pose proof L as Hk. apply lookup_None_keys in Hk.
      assert (Mk : memk k (keys (items c)) = false) by (apply memk_false, Hk).
      rewrite Mk, memk_app. cbn [memk]. rewrite N.eqb_refl, orb_true_r. cbn [negb andb].
      rewrite keys_length.
      destruct (make_room_cases now c W Hp) as [[Hr E]|[Hf [x [Hv [Hin E]]]]]; rewrite E.
      * replace (Nat.leb (cap c) (length (items c))) with false by (symmetry; apply Nat.leb_gt; exact Hr).
        rewrite subset_incl.
        2:{ intros y Hy. apply in_app_iff in Hy. destruct Hy as [Hy|[<-|[]]]; [right; exact Hy|left; reflexivity]. }
        rewrite removed_nil by (apply incl_appl, incl_refl). reflexivity.
      * replace (Nat.leb (cap c) (length (items c))) with true by (symmetry; apply Nat.leb_le; exact Hf).
        rewrite remove_items, keys_remove_assoc.
        rewrite subset_incl.
        2:{ intros y Hy. apply in_app_iff in Hy. destruct Hy as [Hy|[<-|[]]]; [|left; reflexivity].
            right. apply remove_key_In in Hy. tauto. }
        rewrite removed_victim; [|apply W|exact Hin|exact Hk]. cbn [andb].
        apply (victim_ok_model c rh lru now x W A T Hv).
  - (* get *)
    unfold get. destruct (lookup k (items c)) as [e|] eqn:L; cbn [fst snd].
    + destruct (expired now e) eqn:X; cbn [fst snd items].
      * rewrite remove_items, keys_remove_assoc. rewrite subset_incl by apply remove_key_incl.
        apply forallb_removed. intros y Hy Hn. rewrite remove_key_In in Hn.
        destruct (N.eq_dec y k) as [->|Hne]; [|tauto].
        rewrite (expired_agrees c rh now k A Hy). unfold key_expired. rewrite L. exact X.
      * rewrite subset_incl by apply incl_refl. rewrite removed_nil by apply incl_refl. reflexivity.
    + rewrite subset_incl by apply incl_refl. rewrite removed_nil by apply incl_refl. reflexivity.
  - (* delete *)
    unfold delete. rewrite remove_items, keys_remove_assoc. rewrite subset_incl by apply remove_key_incl.
    apply forallb_removed. intros y Hy Hn. rewrite remove_key_In in Hn.
    destruct (N.eq_dec y k) as [->|Hne]; [|tauto]. unfold deleted_or_expired. rewrite N.eqb_refl. reflexivity.
  - (* cleanup *)
    rewrite subset_incl.
    2:{ intros y Hy. apply keys_In_lookup in Hy. destruct Hy as [e Hy]. rewrite lookup_cleanup in Hy by apply W.
        destruct (lookup y (items c)) eqn:L; [|discriminate]. eapply lookup_In_keys, L. }
    apply forallb_removed. intros y Hy Hn. rewrite (expired_agrees c rh now y A Hy).
    apply lookup_None_keys in Hn. rewrite lookup_cleanup in Hn by apply W.
    unfold key_expired. destruct (lookup y (items c)) as [e|] eqn:L.
    + destruct (expired now e); [reflexivity|discriminate].
    + apply lookup_None_keys in L. tauto.
Qed.

Lemma check_lru_from_run c rh lru h :
  wf c -> agrees c rh -> bounded c -> (0 < cap c)%nat -> tracks c lru ->
  check_lru_from (cap c) rh lru (keys (items c)) h (snd (run c h))
                 (map (fun c => keys (items c)) (states c h)) = true.
Proof.
  revert c rh lru. induction h as [|[now o] h IH]; intros c rh lru W A B Hp T; [reflexivity|].
  cbn [run states map]. destruct (step c (now, o)) as [c1 out] eqn:S.
  destruct (run c1 h) as [c2 outs] eqn:R. cbn [snd fst check_lru_from].
  assert (Ec1 : c1 = fst (step c (now, o))) by (rewrite S; reflexivity).
  assert (Eout : out = snd (step c (now, o))) by (rewrite S; reflexivity).
  apply andb_true_intro. split.
  - rewrite Ec1, Eout. apply step_ok_model; assumption.
  - replace outs with (snd (run c1 h)) by (rewrite R; reflexivity).
    replace (cap c) with (cap c1) by (rewrite Ec1; apply cap_step).
    apply IH.
    + rewrite Ec1. apply wf_step, W.
    + rewrite Ec1. apply agrees_step; assumption.
    + rewrite Ec1. apply bounded_step; assumption.
    + rewrite Ec1, cap_step. exact Hp.
    + rewrite Ec1, Eout. apply tracks_step; assumption.
Qed.

(* For every capacity n >= 1 and every history, what the model does satisfies
   the C13 monitor (the boolean the correspondence check applies to the Go
   implementation's observations). *)
Theorem run_check_lru n h :
  (0 < n)%nat ->
  check_lru n h (snd (run (empty n) h)) (map (fun c => keys (items c)) (states (empty n) h)) = true.
Proof.
  intros Hp. unfold check_lru.
  apply (check_lru_from_run (empty n) [] [] h).
  - apply wf_empty.
  - apply agrees_empty.
  - unfold bounded. cbn. lia.
  - exact Hp.
  - reflexivity.
Qed.

(* ------------------------------------------------------------ retention *)

(* the keys a history uses, given the outputs: a Set, or a Get that returned a value *)
Definition use_list (o : op) (out : option Z) : list key :=
  match use_of o out with Some k => [k] | None => [] end.

Fixpoint uses_of (h : list (time * op)) (outs : list (option Z)) : list key :=
  match h, outs with
  | (_, o) :: h', out :: outs' => use_list o out ++ uses_of h' outs'
  | _, _ => []
  end.

(* the keys used when history h runs from state c *)
Definition used (c : cache) (h : list (time * op)) : list key := uses_of h (snd (run c h)).

Lemma used_cons c ev h :
  used c (ev :: h) = use_list (snd ev) (snd (step c ev)) ++ used (fst (step c ev)) h.
Proof.
  unfold used. cbn [run]. destruct (step c ev) as [c1 out]. cbn [fst snd].
  destruct (run c1 h) as [c2 outs]. destruct ev as [t o]. reflexivity.
Qed.

(* key k's entry, as the history describes it, is unexpired at the instant of
   every step of h (rh: the history so far, most recent first) *)
Fixpoint live_through (k : key) (rh : list (time * op)) (h : list (time * op)) : Prop :=
  match h with
  | [] => True
  | (t, o) :: r => is_expired rh t k = false /\ live_through k ((t, o) :: rh) r
  end.

(* the keys behind k in a usage order, i.e. used more recently than k *)
Fixpoint behind (k : key) (l : list key) : list key :=
  match l with
  | [] => []
  | a :: r => if N.eqb k a then r else behind k r
  end.

Lemma behind_remove_other k x l : x <> k -> behind k (remove_key x l) = remove_key x (behind k l).
Proof.
  intros Hne. induction l as [|a l IH]; cbn [remove_key behind]; [reflexivity|].
  destruct (N.eqb_spec x a) as [->|Hxa].
  - replace (N.eqb k a) with false by (symmetry; apply N.eqb_neq; congruence). exact IH.
  - cbn [behind]. destruct (N.eqb k a); [reflexivity|exact IH].
Qed.

Lemma behind_app_in k l m : In k l -> behind k (l ++ m) = behind k l ++ m.
Proof.
  induction l as [|a l IH]; cbn [app behind]; [intros []|].
  destruct (N.eqb_spec k a) as [->|Hne]; [reflexivity|]. intros [H|H]; [congruence|apply IH, H].
Qed.

Lemma behind_app_notin k l m : ~ In k l -> behind k (l ++ m) = behind k m.
Proof.
  induction l as [|a l IH]; cbn [app behind]; [reflexivity|]. intros H.
  destruct (N.eqb_spec k a) as [->|Hne]; [exfalso; apply H; left; reflexivity|].
  apply IH. intros Hin. apply H. right; exact Hin.
Qed.

Lemma behind_back k l : ~ In k l -> behind k (l ++ [k]) = [].
Proof. intros H. rewrite behind_app_notin by exact H. cbn. rewrite N.eqb_refl. reflexivity. Qed.

Lemma behind_incl k l : incl (behind k l) l.
Proof.
  induction l as [|a l IH]; cbn [behind]; [apply incl_refl|].
  destruct (N.eqb k a); [apply incl_tl, incl_refl|apply incl_tl, IH].
Qed.

Lemma behind_NoDup k l : NoDup l -> NoDup (behind k l).
Proof.
  induction 1 as [|a l Hn Hd IH]; cbn [behind]; [constructor|]. destruct (N.eqb k a); assumption.
Qed.

(* k stays and nothing new gets behind it when another key is removed *)
Lemma behind_after_remove k x l U :
  In k l -> x <> k -> incl (behind k l) U ->
  In k (remove_key x l) /\ incl (behind k (remove_key x l)) U.
Proof.
  intros Hk Hne Hi. split; [apply remove_key_In; split; [exact Hk|congruence]|].
  rewrite behind_remove_other by exact Hne. intros y Hy. apply Hi, (remove_key_incl x), Hy.
Qed.

(* ... and when afterwards a key is pushed at the back *)
Lemma behind_after_push k x k' l U :
  In k l -> x <> k -> incl (behind k l) U ->
  In k (remove_key x l ++ [k']) /\ incl (behind k (remove_key x l ++ [k'])) (U ++ [k']).
Proof.
  intros Hk Hne Hi. destruct (behind_after_remove k x l U Hk Hne Hi) as [H1 H2].
  split; [apply in_app_iff; left; exact H1|]. rewrite behind_app_in by exact H1.
  apply incl_app; [apply incl_appl, H2|apply incl_appr, incl_refl].
Qed.

Lemma behind_fold_remove k ks c U :
  ~ In k ks -> In k (order c) -> incl (behind k (order c)) U ->
  In k (order (fold_left (fun c k => remove k c) ks c))
  /\ incl (behind k (order (fold_left (fun c k => remove k c) ks c))) U.
Proof.
  revert c. induction ks as [|x ks IH]; intros c Hn Hk Hi; cbn [fold_left]; [tauto|].
  assert (Hx : x <> k) by (intros ->; apply Hn; left; reflexivity).
  destruct (behind_after_remove k x (order c) U Hk Hx Hi) as [H1 H2].
  apply IH; [intros H; apply Hn; right; exact H|exact H1|exact H2].
Qed.

Lemma nodup_length_incl (a b : list key) :
  NoDup a -> incl a b -> (length a <= length (nodup N.eq_dec b))%nat.
Proof.
  intros ND Hi. apply NoDup_incl_length; [exact ND|]. intros y Hy. apply nodup_In, Hi, Hy.
Qed.

Lemma nodup_length_mono (a b : list key) :
  incl a b -> (length (nodup N.eq_dec a) <= length (nodup N.eq_dec b))%nat.
Proof.
  intros Hi. apply nodup_length_incl; [apply NoDup_nodup|]. intros y Hy. apply Hi. apply nodup_In in Hy. exact Hy.
Qed.

(* The rank invariant, one step.  U over-approximates the keys behind k (the
   other keys used since k's last use); if after this step still fewer than
   `cap` distinct other keys have been used, k is still there and everything
   behind it is among them. *)
Lemma retain_step c rh U k now o :
  wf c -> agrees c rh -> (0 < cap c)%nat ->
  In k (order c) -> incl (behind k (order c)) U ->
  o <> ODel k -> is_expired rh now k = false ->
  (length (nodup N.eq_dec (U ++ remove_key k (use_list o (snd (step c (now, o)))))) < cap c)%nat ->
  In k (order (fst (step c (now, o))))
  /\ incl (behind k (order (fst (step c (now, o))))) (U ++ remove_key k (use_list o (snd (step c (now, o))))).
Proof.
  intros W A Hp Hk Hi Hdel Hlive Hlen.
  assert (Hkk : In k (keys (items c))) by (apply W, Hk).
  assert (Hx : key_expired now (items c) k = false).
  { rewrite <- (expired_agrees c rh now k A Hkk). exact Hlive. }
  destruct (lookup_Some_keys _ _ Hkk) as [ek Lk].
  assert (Xk : expired now ek = false) by (unfold key_expired in Hx; rewrite Lk in Hx; exact Hx).
  destruct o as [k' v ttl|k'|k'|]; unfold use_list in *; cbn [step fst snd use_of] in *.
  - (* set *)
    destruct (N.eq_dec k' k) as [->|Hne].
    + (* of k itself *)
      rewrite (set_overwrite_moves_back now k v ttl c ek W Lk). cbn [order remove_key].
      rewrite N.eqb_refl. split.
      * apply in_app_iff. right. left. reflexivity.
      * rewrite behind_back by apply remove_key_self_notin. intros y [].
    + cbn [remove_key] in *. replace (N.eqb k k') with false in * by (symmetry; apply N.eqb_neq; congruence).
      destruct (lookup k' (items c)) as [e0|] eqn:L.
      * (* overwrite of another key *)
        rewrite (set_overwrite_moves_back now k' v ttl c e0 W L). cbn [order].
        apply behind_after_push; assumption.
      * rewrite (set_new _ _ _ _ _ L). cbn [order].
        assert (Hk' : ~ In k' (order c)) by (rewrite (wf_same c W); apply lookup_None_keys, L).
        destruct (make_room_cases now c W Hp) as [[Hr E]|[Hf [x [Hv [Hin E]]]]]; rewrite E.
        -- (* room left *)
           split; [apply in_app_iff; left; exact Hk|]. rewrite behind_app_in by exact Hk.
           apply incl_app; [apply incl_appl, Hi|apply incl_appr, incl_refl].
        -- (* full: the victim is not k *)
           cbn [remove order]. apply behind_after_push; [exact Hk| |exact Hi].
           intros ->. destruct (victim_spec now c k Hv) as [[l1 [l2 [_ [Hexp _]]]]|[_ [l2 Ho]]]; [congruence|].
           (* k at the front of a full cache: every other entry is behind it *)
           rewrite Ho in Hi, Hk'. cbn [behind] in Hi. rewrite N.eqb_refl in Hi.
           pose proof (wf_length c W) as Q. rewrite Ho in Q. cbn [length] in Q.
           assert (ND : NoDup (l2 ++ [k'])).
           { apply NoDup_snoc.
             - pose proof (wf_order c W) as N0. rewrite Ho in N0. inversion N0; assumption.
             - intros H. apply Hk'. right; exact H. }
           assert (I2 : incl (l2 ++ [k']) (U ++ [k'])).
           { apply incl_app; [apply incl_appl, Hi|apply incl_appr, incl_refl]. }
           pose proof (nodup_length_incl _ _ ND I2) as Q2. rewrite app_length in Q2. cbn [length] in Q2. lia.
  - (* get *)
    destruct (N.eq_dec k' k) as [->|Hne].
    + rewrite (get_hit_moves_back now k c ek W Lk Xk). cbn [fst snd order remove_key].
      rewrite N.eqb_refl. split.
      * apply in_app_iff. right. left. reflexivity.
      * rewrite behind_back by apply remove_key_self_notin. intros y [].
    + unfold get in *. destruct (lookup k' (items c)) as [e|] eqn:L.
      * destruct (expired now e) eqn:X; cbn [fst snd order remove_key] in *.
        -- rewrite app_nil_r. apply behind_after_remove; assumption.
        -- replace (N.eqb k k') with false in * by (symmetry; apply N.eqb_neq; congruence).
           rewrite touch_present by (apply W; eapply lookup_In_keys, L).
           apply behind_after_push; assumption.
      * cbn [fst snd remove_key]. rewrite app_nil_r. tauto.
  - (* delete *)
    cbn [remove_key]. rewrite app_nil_r. unfold delete. rewrite remove_order.
    apply behind_after_remove; [exact Hk| |exact Hi]. intros ->. apply Hdel. reflexivity.
  - (* cleanup *)
    cbn [remove_key]. rewrite app_nil_r. unfold cleanup. apply behind_fold_remove; [|exact Hk|exact Hi].
    rewrite cleanup_keys_In by apply W. intros [e [L X]]. rewrite Lk in L. inversion L; subst. congruence.
Qed.

Lemma retain_run k h : forall c rh U,
  wf c -> agrees c rh -> (0 < cap c)%nat ->
  In k (order c) -> incl (behind k (order c)) U ->
  (forall t, ~ In (t, ODel k) h) -> live_through k rh h ->
  (length (nodup N.eq_dec (U ++ remove_key k (used c h))) < cap c)%nat ->
  In k (order (fst (run c h))).
Proof.
  induction h as [|[now o] h IH]; intros c rh U W A Hp Hk Hi Hdel Hlive Hlen; [exact Hk|].
  rewrite run_fst_cons. rewrite used_cons, remove_key_app, app_assoc in Hlen. cbn [snd] in Hlen.
  cbn [live_through] in Hlive. destruct Hlive as [Hl1 Hl2].
  set (U' := U ++ remove_key k (use_list o (snd (step c (now, o))))) in *.
  destruct (retain_step c rh U k now o W A Hp Hk Hi) as [H1 H2].
  - intros ->. apply (Hdel now). left; reflexivity.
  - exact Hl1.
  - fold U'. pose proof (nodup_length_mono U' (U' ++ remove_key k (used (fst (step c (now, o))) h))
                           (incl_appl _ (incl_refl _))). lia.
  - apply (IH (fst (step c (now, o))) ((now, o) :: rh) U').
    + apply wf_step, W.
    + apply agrees_step; assumption.
    + rewrite cap_step. exact Hp.
    + exact H1.
    + exact H2.
    + intros t H. apply (Hdel t). right; exact H.
    + exact Hl2.
    + rewrite cap_step. exact Hlen.
Qed.

(* a use puts the key at the back of the usage order *)
Lemma use_at_back c now o k :
  wf c -> use_of o (snd (step c (now, o))) = Some k ->
  In k (order (fst (step c (now, o)))) /\ behind k (order (fst (step c (now, o)))) = [].
Proof.
  intros W. destruct o as [k' v ttl|k'|k'|]; cbn [step fst snd use_of]; try discriminate.
  - intros H; inversion H; subst k'. destruct (lookup k (items c)) as [e0|] eqn:L.
    + rewrite (set_overwrite_moves_back now k v ttl c e0 W L). cbn [order]. split.
      * apply in_app_iff. right. left. reflexivity.
      * apply behind_back, remove_key_self_notin.
    + rewrite (set_new _ _ _ _ _ L). cbn [order]. split.
      * apply in_app_iff. right. left. reflexivity.
      * apply behind_back. assert (W' : wf (make_room now c)).
        { unfold make_room. destruct (Nat.leb _ _); [apply wf_evict, W|exact W]. }
        rewrite (wf_same _ W'). apply lookup_None_keys, make_room_lookup_None, L.
  - unfold get. destruct (lookup k' (items c)) as [e|] eqn:L; cbn [snd]; [|discriminate].
    destruct (expired now e) eqn:X; cbn [fst snd order]; [discriminate|].
    intros H; inversion H; subst k'.
    rewrite touch_present by (apply W; eapply lookup_In_keys, L). split.
    + apply in_app_iff. right. left. reflexivity.
    + apply behind_back, remove_key_self_notin.
Qed.

Lemma run_fst_app c h1 h2 : fst (run c (h1 ++ h2)) = fst (run (fst (run c h1)) h2).
Proof.
  revert c. induction h1 as [|ev h1 IH]; intros c; cbn [app]; [reflexivity|].
  rewrite !run_fst_cons. apply IH.
Qed.

Lemma cap_run c h : cap (fst (run c h)) = cap c.
Proof.
  revert c. induction h as [|ev h IH]; intros c; [reflexivity|].
  rewrite run_fst_cons, IH. apply cap_step.
Qed.

(* C13, retention clause.  In a run from the empty cache of capacity n >= 1:
   if step (t, o) — coming after any history h1 — uses key k (a Set of k, or a
   Get of k that returns a value), and in the steps h2 that follow k is never
   deleted, k's entry is unexpired at the instant of each step, and the number
   of DISTINCT other keys used in h2 is smaller than n, then k is still in the
   cache after h2. *)
Theorem retention n h1 t o h2 k :
  (0 < n)%nat ->
  use_of o (snd (step (fst (run (empty n) h1)) (t, o))) = Some k ->
  (forall t', ~ In (t', ODel k) h2) ->
  live_through k ((t, o) :: rev h1) h2 ->
  (length (nodup N.eq_dec (remove_key k (used (fst (step (fst (run (empty n) h1)) (t, o))) h2))) < n)%nat ->
  In k (keys (items (fst (run (empty n) (h1 ++ (t, o) :: h2))))).
Proof.
  intros Hp Hu Hdel Hlive Hlen.
  pose proof (wf_run n h1) as W0. pose proof (agrees_run n h1) as A0.
  set (c0 := fst (run (empty n) h1)) in *.
  destruct (use_at_back c0 t o k W0 Hu) as [Hk Hb].
  rewrite run_fst_app, run_fst_cons. fold c0.
  assert (W1 : wf (fst (step c0 (t, o)))) by (apply wf_step, W0).
  assert (C1 : cap (fst (step c0 (t, o))) = n).
  { rewrite cap_step. unfold c0. rewrite cap_run. reflexivity. }
  assert (Wr : wf (fst (run (fst (step c0 (t, o))) h2))).
  { replace (fst (run (fst (step c0 (t, o))) h2)) with (fst (run (empty n) (h1 ++ (t, o) :: h2))).
    - apply wf_run.
    - rewrite run_fst_app, run_fst_cons. reflexivity. }
  apply Wr.
  apply (retain_run k h2 (fst (step c0 (t, o))) ((t, o) :: rev h1) []).
  - exact W1.
  - apply agrees_step; assumption.
  - rewrite C1. exact Hp.
  - exact Hk.
  - rewrite Hb. intros y [].
  - exact Hdel.
  - exact Hlive.
  - rewrite C1. cbn [app]. exact Hlen.
Qed.

(* ------------------------------------------------------------ the monitor itself implies retention *)

(* The retention clause is not a separate conjunct of the monitor: it follows
   from the per-step conditions.  This is proved here about the MONITOR, for
   arbitrary observations (not only the model's): any run the monitor accepts
   keeps a used, undeleted, unexpired key while fewer than `capacity` distinct
   other keys are used.  So the monitor states no less than the property. *)

Lemma subset_true_incl a b : subset a b = true -> incl a b.
Proof.
  unfold subset. intros H y Hy. rewrite forallb_forall in H. apply memk_In, H, Hy.
Qed.

Lemma nodupb_true l : nodupb l = true -> NoDup l.
Proof.
  induction l as [|a l IH]; cbn [nodupb]; intros H; [constructor|].
  apply andb_prop in H. destruct H as [H1 H2]. apply negb_true_iff, memk_false in H1.
  constructor; [exact H1|apply IH, H2].
Qed.

Lemma bump_In y k l : In y (bump k l) <-> (In y l /\ y <> k) \/ y = k.
Proof.
  unfold bump. rewrite in_app_iff, remove_key_In. cbn. split.
  - intros [H|[H|[]]]; [left; exact H|right; congruence].
  - intros [H|H]; [left; exact H|right; left; congruence].
Qed.

Lemma bump_use_incl u l : incl l (bump_use u l).
Proof.
  destruct u as [k|]; cbn [bump_use]; [|apply incl_refl]. intros y Hy. apply bump_In.
  destruct (N.eq_dec y k); [right; assumption|left; tauto].
Qed.

Lemma removed_In before after y : In y before -> ~ In y after -> In y (removed before after).
Proof.
  intros Hb Ha. unfold removed. apply filter_In. split; [exact Hb|].
  unfold absent_from. apply negb_true_iff, memk_false, Ha.
Qed.

(* if k is the first present key of the recency list, every other present key
   of that list is behind k *)
Lemma first_present_behind ks lru k rest y :
  filter (present_in ks) lru = k :: rest -> In y lru -> In y ks -> y <> k -> In y (behind k lru).
Proof.
  induction lru as [|a lru IH]; cbn [filter behind]; [discriminate|].
  intros F Hy Hk Hne. destruct (present_in ks a) eqn:Pa.
  - inversion F; subst a. rewrite N.eqb_refl. destruct Hy as [Hy|Hy]; [congruence|exact Hy].
  - destruct Hy as [<-|Hy].
    + unfold present_in in Pa. apply memk_false in Pa. tauto.
    + destruct (N.eqb_spec k a) as [<-|Hka]; [exact Hy|]. apply IH; assumption.
Qed.

Lemma is_expired_other_set rh now t k k' v ttl :
  k <> k' -> is_expired ((t, OSet k' v ttl) :: rh) now k = is_expired rh now k.
Proof.
  intros Hne. unfold is_expired. cbn [latest_rev]. apply N.eqb_neq in Hne. rewrite Hne. reflexivity.
Qed.

Lemma is_expired_own_set rh t k v ttl : is_expired ((t, OSet k v ttl) :: rh) t k = Z.ltb ttl 0.
Proof.
  unfold is_expired. cbn [latest_rev]. rewrite N.eqb_refl.
  destruct (Z.ltb_spec (t + ttl) t), (Z.ltb_spec ttl 0); try reflexivity; lia.
Qed.

(* bookkeeping carried along an accepted run *)
Lemma step_ok_keeps capacity rh lru before now o out after :
  step_ok capacity rh lru before now o out after = true ->
  incl before lru ->
  NoDup after /\ incl after (bump_use (use_of o out) lru).
Proof.
  unfold step_ok. intros H Hi. apply andb_prop in H. destruct H as [H H3].
  apply andb_prop in H. destruct H as [H1 _]. split; [apply nodupb_true, H1|].
  assert (Hl : incl before (bump_use (use_of o out) lru)).
  { intros y Hy. apply bump_use_incl, Hi, Hy. }
  destruct o as [k v ttl|k|k|]; apply andb_prop in H3; destruct H3 as [H3 _].
  - cbn [use_of bump_use]. intros y Hy. apply (subset_true_incl _ _ H3) in Hy. destruct Hy as [<-|Hy].
    + apply bump_In. right; reflexivity.
    + apply Hl, Hy.
  - intros y Hy. apply Hl, (subset_true_incl _ _ H3), Hy.
  - intros y Hy. apply Hl, (subset_true_incl _ _ H3), Hy.
  - intros y Hy. apply Hl, (subset_true_incl _ _ H3), Hy.
Qed.

(* one accepted step keeps k and the rank invariant *)
Lemma step_ok_retains capacity rh lru before now o out after k U :
  step_ok capacity rh lru before now o out after = true ->
  NoDup before -> incl before lru ->
  In k before -> In k lru -> incl (behind k lru) U ->
  o <> ODel k -> (forall v ttl, o = OSet k v ttl -> 0 <= ttl) ->
  is_expired rh now k = false ->
  (length (nodup N.eq_dec (U ++ remove_key k (use_list o out))) < capacity)%nat ->
  In k after
  /\ In k (bump_use (use_of o out) lru)
  /\ incl (behind k (bump_use (use_of o out) lru)) (U ++ remove_key k (use_list o out)).
Proof.
  intros H ND Hi Hk Hkl Hb Hdel Httl Hlive Hlen.
  assert (Kl : In k (bump_use (use_of o out) lru)) by (apply bump_use_incl, Hkl).
  split; [|split; [exact Kl|]].
  - (* k stays *)
    destruct (in_dec N.eq_dec k after) as [Hin|Hout]; [exact Hin|exfalso].
    pose proof (removed_In before after k Hk Hout) as Hr.
    unfold step_ok in H. apply andb_prop in H. destruct H as [_ H].
    destruct o as [k' v ttl|k'|k'|].
    + apply andb_prop in H. destruct H as [Hs H].
      destruct (memk k' after && negb (memk k' before) && Nat.leb capacity (length before)) eqn:C.
      * (* a new key into a full cache: k would have to be the victim *)
        apply andb_prop in C. destruct C as [C C3]. apply andb_prop in C. destruct C as [C1 C2].
        apply memk_In in C1. apply negb_true_iff, memk_false in C2. apply Nat.leb_le in C3.
        assert (Hne : k <> k') by (intros ->; tauto).
        destruct (removed before after) as [|x [|x2 l]] eqn:R; try discriminate.
        destruct Hr as [<-|[]]. unfold victim_ok in H.
        destruct (filter (is_expired rh now) before) as [|a l] eqn:F.
        -- destruct (filter (present_in before) lru) as [|y rest] eqn:F2; [discriminate|].
           apply N.eqb_eq in H. subst y.
           (* every other present key is behind k, and k' is new *)
           assert (ND2 : NoDup (remove_key x before ++ [k'])).
           { apply NoDup_snoc; [apply remove_key_NoDup, ND|]. rewrite remove_key_In. tauto. }
           assert (I2 : incl (remove_key x before ++ [k']) (U ++ remove_key x (use_list (OSet k' v ttl) out))).
           { unfold use_list. cbn [use_of remove_key]. apply N.eqb_neq in Hne. rewrite Hne.
             apply incl_app; [|apply incl_appr, incl_refl]. apply incl_appl.
             intros y Hy. apply remove_key_In in Hy. destruct Hy as [Hy1 Hy2]. apply Hb.
             apply (first_present_behind before lru x rest y F2); [apply Hi, Hy1|exact Hy1|exact Hy2]. }
           pose proof (nodup_length_incl _ _ ND2 I2) as Q. rewrite app_length in Q. cbn [length] in Q.
           pose proof (remove_key_length_In x before ND Hk). lia.
        -- (* an expired entry exists: the victim is expired, k is not *)
           apply memk_In in H. rewrite <- F in H. apply filter_In in H. destruct H as [_ H]. congruence.
      * apply andb_prop in H. destruct H as [Hst H]. rewrite forallb_forall in H. specialize (H k Hr).
        destruct (N.eq_dec k k') as [<-|Hne].
        -- rewrite is_expired_own_set in H. specialize (Httl v ttl eq_refl). lia.
        -- rewrite is_expired_other_set in H by exact Hne. congruence.
    + apply andb_prop in H. destruct H as [_ H]. rewrite forallb_forall in H. specialize (H k Hr). congruence.
    + apply andb_prop in H. destruct H as [_ H]. rewrite forallb_forall in H. specialize (H k Hr).
      unfold deleted_or_expired in H. apply orb_prop in H. destruct H as [H|H]; [|congruence].
      apply N.eqb_eq in H. subst k'. apply Hdel. reflexivity.
    + apply andb_prop in H. destruct H as [_ H]. rewrite forallb_forall in H. specialize (H k Hr). congruence.
  - (* the rank invariant *)
    unfold use_list. destruct (use_of o out) as [k'|] eqn:Eu; cbn [bump_use remove_key].
    + destruct (N.eqb_spec k k') as [<-|Hne].
      * unfold bump. rewrite behind_back by apply remove_key_self_notin. intros y [].
      * unfold bump. apply behind_after_push; [exact Hkl|congruence|exact Hb].
    + rewrite app_nil_r. exact Hb.
Qed.

Lemma last_cons {A} (a : A) l d : last (a :: l) d = last l a.
Proof.
  revert a d. induction l as [|b l IH]; intros a d; [reflexivity|].
  change (last (a :: b :: l) d) with (last (b :: l) d). rewrite !IH. reflexivity.
Qed.

Lemma monitor_retain capacity k : forall h rh lru before outs presents U,
  check_lru_from capacity rh lru before h outs presents = true ->
  NoDup before -> incl before lru ->
  In k before -> In k lru -> incl (behind k lru) U ->
  (forall t, ~ In (t, ODel k) h) ->
  (forall t v ttl, In (t, OSet k v ttl) h -> 0 <= ttl) ->
  live_through k rh h ->
  (length (nodup N.eq_dec (U ++ remove_key k (uses_of h outs))) < capacity)%nat ->
  In k (last presents before).
Proof.
  induction h as [|[now o] h IH]; intros rh lru before outs presents U C ND Hi Hk Hkl Hb Hdel Hset Hlive Hlen.
  - destruct outs, presents; cbn in C; try discriminate. exact Hk.
  - destruct outs as [|out outs]; [discriminate|]. destruct presents as [|after presents]; [discriminate|].
    cbn [check_lru_from] in C. apply andb_prop in C. destruct C as [C1 C2].
    cbn [uses_of] in Hlen. rewrite remove_key_app, app_assoc in Hlen.
    cbn [live_through] in Hlive. destruct Hlive as [Hl1 Hl2].
    set (U' := U ++ remove_key k (use_list o out)) in *.
    destruct (step_ok_keeps _ _ _ _ _ _ _ _ C1 Hi) as [ND' Hi'].
    destruct (step_ok_retains capacity rh lru before now o out after k U C1 ND Hi Hk Hkl Hb) as [K1 [K2 K3]].
    + intros ->. apply (Hdel now). left; reflexivity.
    + intros v ttl ->. apply (Hset now v ttl). left; reflexivity.
    + exact Hl1.
    + fold U'. pose proof (nodup_length_mono U' (U' ++ remove_key k (uses_of h outs)) (incl_appl _ (incl_refl _))). lia.
    + rewrite last_cons. apply (IH ((now, o) :: rh) (bump_use (use_of o out) lru) after outs presents U'); try assumption.
      * intros t H. apply (Hdel t). right; exact H.
      * intros t v ttl H. apply (Hset t v ttl). right; exact H.
Qed.

(* an accepted run, cut after a prefix *)
Lemma check_lru_prefix capacity : forall h1 rh lru before outs1 pres1 h outs pres,
  length outs1 = length h1 -> length pres1 = length h1 ->
  NoDup before -> incl before lru ->
  check_lru_from capacity rh lru before (h1 ++ h) (outs1 ++ outs) (pres1 ++ pres) = true ->
  exists lru', NoDup (last pres1 before) /\ incl (last pres1 before) lru'
               /\ check_lru_from capacity (rev h1 ++ rh) lru' (last pres1 before) h outs pres = true.
Proof.
  induction h1 as [|[now o] h1 IH]; intros rh lru before outs1 pres1 h outs pres L1 L2 ND Hi C.
  - destruct outs1; [|discriminate]. destruct pres1; [|discriminate]. exists lru. cbn. tauto.
  - destruct outs1 as [|out outs1]; [discriminate|]. destruct pres1 as [|after pres1]; [discriminate|].
    cbn [app check_lru_from] in C. apply andb_prop in C. destruct C as [C1 C2].
    destruct (step_ok_keeps _ _ _ _ _ _ _ _ C1 Hi) as [ND' Hi'].
    cbn [length] in L1, L2.
    destruct (IH ((now, o) :: rh) (bump_use (use_of o out) lru) after outs1 pres1 h outs pres) as [lru' [A1 [A2 A3]]];
      try assumption; try lia.
    exists lru'. rewrite last_cons. cbn [rev]. rewrite <- app_assoc. cbn [app]. tauto.
Qed.

(* Retention, for ANY observations the monitor accepts.  If the step (t, o)
   after the prefix h1 uses k (Set k, or Get k with a value returned) and k is
   present after it, and in the rest h2 key k is never the argument of Delete,
   is never overwritten by an entry that is expired on arrival, its entry is
   unexpired at the instant of every step, and fewer than `capacity` distinct
   other keys are used, then k is present after the last step. *)
Theorem monitor_retention capacity h1 t o h2 outs1 out outs2 pres1 after pres2 k :
  check_lru capacity (h1 ++ (t, o) :: h2) (outs1 ++ out :: outs2) (pres1 ++ after :: pres2) = true ->
  length outs1 = length h1 -> length pres1 = length h1 ->
  use_of o out = Some k -> In k after ->
  (forall t', ~ In (t', ODel k) h2) ->
  (forall t' v ttl, In (t', OSet k v ttl) h2 -> 0 <= ttl) ->
  live_through k ((t, o) :: rev h1) h2 ->
  (length (nodup N.eq_dec (remove_key k (uses_of h2 outs2))) < capacity)%nat ->
  In k (last pres2 after).
Proof.
  unfold check_lru. intros C L1 L2 Hu Hk Hdel Hset Hlive Hlen.
  destruct (check_lru_prefix capacity h1 [] [] [] outs1 pres1 ((t, o) :: h2) (out :: outs2) (after :: pres2))
    as [lru' [A1 [A2 A3]]]; try assumption; [constructor|intros y []|].
  rewrite app_nil_r in A3. cbn [check_lru_from] in A3. apply andb_prop in A3. destruct A3 as [C1 C2].
  destruct (step_ok_keeps _ _ _ _ _ _ _ _ C1 A2) as [ND' Hi']. rewrite Hu in C2, Hi'. cbn [bump_use] in C2, Hi'.
  apply (monitor_retain capacity k h2 ((t, o) :: rev h1) (bump k lru') after outs2 pres2 []); try assumption.
  - apply bump_In. right; reflexivity.
  - unfold bump. rewrite behind_back by apply remove_key_self_notin. intros y [].
Qed.

(* ------------------------------------------------------------ concurrent use under the cache's mutex *)

(* Instantiation of Proofs/Locked.v.  An operation of a thread is an event
   (instant, op): the instant is what time.Now() returns inside the critical
   section.  `body` is ANY decomposition of the methods into micro-steps that,
   run alone, computes Model.Cache.step; that every exported method of the Go
   cache runs its whole body between c.mutex.Lock() and the deferred Unlock, and
   that the helpers are reachable only from there, is the content of
   VFP.ParamsLock (Properties/C13.v, C13_lock_discipline). *)

Definition atomic_body (ev : time * op) : prog cache (option Z) :=
  Act (fun s => fst (step s ev)) (fun s => Ret (snd (step s ev))).

Lemma atomic_body_step ev s : run_prog (atomic_body ev) s = step s ev.
Proof. cbn. destruct (step s ev); reflexivity. Qed.

Lemma seq_run_run c h : seq_run step c h = run c h.
Proof.
  revert c. induction h as [|ev h IH]; intros c; cbn [seq_run run]; [reflexivity|].
  destruct (step c ev) as [c1 o]. rewrite IH. reflexivity.
Qed.

Lemma states_last_run c h : h <> [] -> In (fst (run c h)) (states c h).
Proof.
  revert c. induction h as [|ev h IH]; intros c Hne; [congruence|].
  rewrite run_fst_cons. cbn [states]. destruct h as [|ev2 h]; [left; reflexivity|].
  right. apply IH. discriminate.
Qed.

(* Under the lock discipline, for every number of threads, every program per
   thread and every schedule: whenever no operation is in flight the cache is
   exactly the state, and the threads have been handed exactly the results, of
   the sequential run of the operations in lock-acquisition order — hence it
   is well formed, within capacity, and the history satisfies the C13 monitor. *)
Theorem cache_concurrent (body : time * op -> prog cache (option Z)) n progs schedule :
  (forall ev s, run_prog (body ev) s = step s ev) ->
  (0 < n)%nat ->
  let cf := exec body (init (empty n) progs) schedule in
  holder cf = None ->
  let h := map snd (acq cf) in
  run (empty n) h = (shared cf, rets cf)
  /\ (forall i, outs (threads cf i) = map snd (filter (mine_out i) (combine (acq cf) (rets cf))))
  /\ (forall i, map snd (filter (mine i) (acq cf)) ++ todo (threads cf i) = progs i)
  /\ wf (shared cf)
  /\ (length (items (shared cf)) <= n)%nat
  /\ check_lru n h (rets cf) (map (fun c => keys (items c)) (states (empty n) h)) = true.
Proof.
  intros Hb Hp cf Hh h.
  destruct (locked_linearizable cache (time * op) (option Z) step body Hb (empty n) progs schedule Hh)
    as [H1 [H2 H3]].
  fold cf in H1, H2, H3. fold h in H1. rewrite seq_run_run in H1.
  assert (Es : shared cf = fst (run (empty n) h)) by (rewrite H1; reflexivity).
  assert (Er : rets cf = snd (run (empty n) h)) by (rewrite H1; reflexivity).
  split; [exact H1|]. split; [exact H2|]. split; [exact H3|]. split; [|split].
  - rewrite Es. apply wf_run.
  - rewrite Es. destruct h as [|ev h'] eqn:E; [cbn; lia|].
    apply (capacity_respected n (ev :: h') _ Hp). apply states_last_run. discriminate.
  - rewrite Er. apply run_check_lru, Hp.
Qed.
