(* Lemmas about Model/Html.v, for ALL byte lists (no length bound):
     escape_no_markup   no byte of html_escape s is one of 60 62 34 39 (< > dquote apostrophe)
     escape_amp         every & of html_escape s begins one of the five entities
     unescape_escape    html_unescape_basic (html_escape s) = s
     page_*             what lies between prefix and suffix of the error page is
                        html_escape msg: no markup byte, and it decodes to msg *)
From VF Require Import Base.Prelude Model.Html.
From Coq Require Import ZifyBool ZifyNat ZifyN.
Open Scope N_scope.

(* ------------------------------------------------------------------ esc_byte by cases *)

Definition special (c : N) : bool :=
  N.eqb c 38 || N.eqb c 39 || N.eqb c 60 || N.eqb c 62 || N.eqb c 34.

Lemma esc_byte_cases c :
  (exists t, In (c, t) entities /\ esc_byte c = 38 :: t)
  \/ (special c = false /\ esc_byte c = [c]).
Proof.
  unfold esc_byte, special.
  destruct (N.eqb_spec c 38) as [->|H1]; [left; exists tail_amp; split; [cbn; tauto|reflexivity]|].
  destruct (N.eqb_spec c 39) as [->|H2]; [left; exists tail_apos; split; [cbn; tauto|reflexivity]|].
  destruct (N.eqb_spec c 60) as [->|H3]; [left; exists tail_lt; split; [cbn; tauto|reflexivity]|].
  destruct (N.eqb_spec c 62) as [->|H4]; [left; exists tail_gt; split; [cbn; tauto|reflexivity]|].
  destruct (N.eqb_spec c 34) as [->|H5]; [left; exists tail_quot; split; [cbn; tauto|reflexivity]|].
  right. split; reflexivity.
Qed.

Lemma entities_inv c t : In (c, t) entities ->
  (c = 38 /\ t = tail_amp) \/ (c = 39 /\ t = tail_apos) \/ (c = 60 /\ t = tail_lt)
  \/ (c = 62 /\ t = tail_gt) \/ (c = 34 /\ t = tail_quot).
Proof.
  unfold entities. cbn [In].
  intros [H|[H|[H|[H|[H|[]]]]]]; injection H as <- <-; tauto.
Qed.

(* ------------------------------------------------------------------ no markup byte *)

Lemma tail_no_markup c t : In (c, t) entities -> Forall (fun x => markup_byte x = false) (38 :: t).
Proof.
  intros H. destruct (entities_inv c t H) as [[_ ->]|[[_ ->]|[[_ ->]|[[_ ->]|[_ ->]]]]];
    repeat constructor.
Qed.

Lemma special_markup c : special c = false -> markup_byte c = false.
Proof. unfold special, markup_byte. lia. Qed.

Theorem escape_no_markup (s : list N) : Forall (fun c => markup_byte c = false) (html_escape s).
Proof.
  induction s as [|c s IH]; cbn [html_escape]; [constructor|].
  apply Forall_app. split; [|exact IH].
  destruct (esc_byte_cases c) as [[t [Hin ->]]|[Hs ->]].
  - exact (tail_no_markup c t Hin).
  - constructor; [exact (special_markup c Hs)|constructor].
Qed.

Corollary escape_no_markup_in (s : list N) (c : N) :
  In c (html_escape s) -> c <> 60 /\ c <> 62 /\ c <> 34 /\ c <> 39.
Proof.
  intros H. pose proof (proj1 (Forall_forall _ _) (escape_no_markup s) c H) as Hm.
  unfold markup_byte in Hm. lia.
Qed.

(* ------------------------------------------------------------------ every & begins an entity *)

Lemma starts_with_app t r : starts_with t (t ++ r) = true.
Proof. induction t as [|x t IH]; cbn; [reflexivity|]. rewrite N.eqb_refl. exact IH. Qed.

Lemma starts_with_spec p : forall s, starts_with p s = true -> exists r, s = p ++ r.
Proof.
  induction p as [|x p IH]; intros s H; [exists s; reflexivity|].
  destruct s as [|y s]; [discriminate|]. cbn in H. apply andb_true_iff in H as [Hx Hp].
  apply N.eqb_eq in Hx. subst y. destruct (IH s Hp) as [r ->]. exists r. reflexivity.
Qed.

Lemma entity_at_tail c t r : In (c, t) entities -> entity_at (t ++ r) = Some (c, length t).
Proof.
  intros H. destruct (entities_inv c t H) as [[-> ->]|[[-> ->]|[[-> ->]|[[-> ->]|[-> ->]]]]];
    reflexivity.
Qed.

Lemma has_tail_after c t r : In (c, t) entities -> has_entity_tail (t ++ r) = true.
Proof. intros H. unfold has_entity_tail. rewrite (entity_at_tail c t r H). reflexivity. Qed.

Lemma entity_of_spec es : forall s c n, entity_of es s = Some (c, n) ->
  exists t r, In (c, t) es /\ n = length t /\ s = t ++ r.
Proof.
  induction es as [|[c0 t0] es IH]; intros s c n H; [discriminate|].
  cbn [entity_of] in H. destruct (starts_with t0 s) eqn:Es.
  - injection H as <- <-. destruct (starts_with_spec t0 s Es) as [r ->].
    exists t0, r. split; [left; reflexivity|split; reflexivity].
  - destruct (IH s c n H) as [t [r [Hin [Hn Hs]]]]. exists t, r. split; [right; exact Hin|tauto].
Qed.

(* an ampersand passing has_entity_tail is literally followed by amp; #39; lt; gt; or #34; *)
Lemma has_entity_tail_spec s : has_entity_tail s = true ->
  exists c t r, In (c, t) entities /\ s = t ++ r.
Proof.
  unfold has_entity_tail, entity_at. destruct (entity_of entities s) as [[c n]|] eqn:E; [|discriminate].
  intros _. destruct (entity_of_spec entities s c n E) as [t [r [Hin [_ Hs]]]]. exists c, t, r. tauto.
Qed.

(* the tail bytes contain no ampersand *)
Lemma amps_ok_tail c t l : In (c, t) entities -> amps_ok (t ++ l) = amps_ok l.
Proof.
  intros H. destruct (entities_inv c t H) as [[_ ->]|[[_ ->]|[[_ ->]|[[_ ->]|[_ ->]]]]];
    reflexivity.
Qed.

Lemma amps_ok_esc c l : amps_ok l = true -> amps_ok (esc_byte c ++ l) = true.
Proof.
  intros Hl. destruct (esc_byte_cases c) as [[t [Hin ->]]|[Hs ->]].
  - change ((38 :: t) ++ l) with (38 :: (t ++ l)). cbn [amps_ok].
    rewrite (has_tail_after c t l Hin), (amps_ok_tail c t l Hin), Hl. reflexivity.
  - cbn [app amps_ok]. rewrite Hl. unfold special in Hs.
    destruct (N.eqb c 38); [discriminate|reflexivity].
Qed.

Theorem escape_amps_ok (s : list N) : amps_ok (html_escape s) = true.
Proof.
  induction s as [|c s IH]; cbn [html_escape]; [reflexivity|]. apply amps_ok_esc. exact IH.
Qed.

Lemma amps_ok_split a : forall b, amps_ok (a ++ 38 :: b) = true -> has_entity_tail b = true.
Proof.
  induction a as [|x a IH]; intros b H; cbn [app amps_ok] in H; apply andb_true_iff in H as [H1 H2].
  - rewrite N.eqb_refl in H1. exact H1.
  - exact (IH b H2).
Qed.

(* positional form: wherever an ampersand stands in html_escape s, what follows it
   begins with one of the five entity tails *)
Theorem escape_amp (s a b : list N) :
  html_escape s = a ++ 38 :: b ->
  exists c t r, In (c, t) entities /\ b = t ++ r.
Proof.
  intros H. apply has_entity_tail_spec. apply (amps_ok_split a).
  rewrite <- H. apply escape_amps_ok.
Qed.

(* ------------------------------------------------------------------ decoding gives the message back *)

Lemma unescape_skip t : forall s, unescape_from (length t) (t ++ s) = unescape_from 0 s.
Proof. induction t as [|x t IH]; intros s; [reflexivity|]. cbn [length app unescape_from]. apply IH. Qed.

Lemma unescape_entity c t r : In (c, t) entities ->
  unescape_from 0 (38 :: (t ++ r)) = c :: unescape_from 0 r.
Proof.
  intros H. cbn [unescape_from]. rewrite N.eqb_refl, (entity_at_tail c t r H), unescape_skip. reflexivity.
Qed.

Lemma unescape_plain c r : special c = false -> unescape_from 0 (c :: r) = c :: unescape_from 0 r.
Proof.
  intros H. cbn [unescape_from]. unfold special in H. destruct (N.eqb c 38); [discriminate|reflexivity].
Qed.

Theorem unescape_escape (s : list N) : html_unescape_basic (html_escape s) = s.
Proof.
  unfold html_unescape_basic. induction s as [|c s IH]; cbn [html_escape]; [reflexivity|].
  destruct (esc_byte_cases c) as [[t [Hin ->]]|[Hs ->]].
  - change ((38 :: t) ++ html_escape s) with (38 :: (t ++ html_escape s)).
    rewrite (unescape_entity c t _ Hin), IH. reflexivity.
  - cbn [app]. rewrite (unescape_plain c _ Hs), IH. reflexivity.
Qed.

Corollary escape_injective (a b : list N) : html_escape a = html_escape b -> a = b.
Proof. intros H. rewrite <- (unescape_escape a), <- (unescape_escape b), H. reflexivity. Qed.

(* ------------------------------------------------------------------ the error page *)

Theorem between_page (pre suf msg : list N) :
  between (length pre) (length suf) (page pre suf msg) = html_escape msg.
Proof.
  unfold between, page.
  rewrite skipn_app, skipn_all, Nat.sub_diag. cbn [app skipn].
  rewrite !app_length.
  replace (length pre + (length (html_escape msg) + length suf) - length pre - length suf)%nat
    with (length (html_escape msg) + 0)%nat by lia.
  rewrite firstn_app_2. cbn [firstn]. apply app_nil_r.
Qed.

(* whatever the message, the bytes between <p> and </p> contain none of
   60 62 34 39: request data cannot close the element or open another one *)
Theorem page_no_markup (pre suf msg : list N) :
  Forall (fun c => markup_byte c = false) (between (length pre) (length suf) (page pre suf msg)).
Proof. rewrite between_page. apply escape_no_markup. Qed.

Theorem page_amps_ok (pre suf msg : list N) :
  amps_ok (between (length pre) (length suf) (page pre suf msg)) = true.
Proof. rewrite between_page. apply escape_amps_ok. Qed.

(* and a browser decoding the entities shows exactly the message *)
Theorem page_recovers (pre suf msg : list N) :
  html_unescape_basic (between (length pre) (length suf) (page pre suf msg)) = msg.
Proof. rewrite between_page. apply unescape_escape. Qed.

Lemma bytes_eq_eq a : forall b, bytes_eq a b = true <-> a = b.
Proof.
  induction a as [|x a IH]; intros [|y b]; cbn; try (split; [discriminate|discriminate]); [tauto|].
  rewrite andb_true_iff, N.eqb_eq, IH. split; [intros [-> ->]; reflexivity|intros H; injection H; tauto].
Qed.
