(* Property C20, "keeps serving": once the retrying initialisation has reached
   the healthy provider (script of failures exhausted, full document h), every
   operation that is not a change of the provider's script keeps the
   middleware ready with the endpoints of h, and a ready middleware whose
   document names an issuer never answers 503 / 408.  Hence the observations
   the model produces satisfy the monitor clause `stays_ok`. *)
From VF Require Import Base.Prelude Model.Discovery Spec.DiscoverySpec Corr.DiscoveryCorr
  Proofs.DiscoveryProofs.
From VFP Require Import ParamsDiscovery.
From Coq Require Import ZifyBool ZifyNat ZifyN.
Open Scope Z_scope.

(* ------------------------------------------------------------ the world after healing *)

(* The retrying loop, from an empty cache, against `length fs` failures then a
   healthy provider, leaves the provider's script exhausted and its healthy
   document untouched (complements init_loop_heals). *)
Lemma init_loop_exhausts fuel : forall k m w fs m' w',
  w_script w = faults fs -> mc_doc (m_cache m) = None ->
  0 <= w_timeout w -> budget_ok (w_timeout w) = true ->
  (length fs < fuel)%nat ->
  init_loop fuel k m w = (m', w') ->
  w_script w' = [] /\ w_healthy w' = w_healthy w.
Proof.
  induction fuel as [|f IH]; intros k m w fs m' w' HS HC HT HB HF; [lia|].
  cbn [init_loop]. rewrite (get_metadata_empty _ _ HC).
  destruct (discover w) as [w1 r] eqn:D. unfold discover in D.
  apply (discover_loop_faults max_retries 0 (w_now w) w fs w1 r HS HT) in D;
    [|rewrite Z.sub_diag; apply budget_of_ok, HB].
  destruct D as [Dh [Dt D]].
  destruct (Nat.ltb (length fs) max_retries) eqn:LT.
  - destruct D as [-> [Ds _]].
    intros H; inversion H; subst m' w'. split; [exact Ds|exact Dh].
  - apply Nat.ltb_ge in LT. destruct D as [-> [Ds _]].
    intros H.
    eapply (IH (S k) _ _ (skipn max_retries fs)) in H; cycle 1.
    + cbn [sleep w_script]. exact Ds.
    + cbn [m_cache]. exact HC.
    + cbn [sleep w_timeout]. lia.
    + cbn [sleep w_timeout]. rewrite Dt. exact HB.
    + rewrite skipn_length. destruct schedule_facts as [R1 _]. lia.
    + cbn [sleep w_healthy] in H. destruct H as [H1 H2].
      split; [exact H1|rewrite H2; exact Dh].
Qed.

(* ------------------------------------------------------------ fetching from a healthy provider *)

(* discoverProviderMetadata against an exhausted script: the first attempt
   succeeds (the totalTimeout test cannot fire at the first attempt: no time
   has passed since `start`). *)
Lemma discover_exhausted w : w_script w = [] ->
  exists w1, discover w = (w1, Some (w_healthy w))
             /\ w_script w1 = [] /\ w_healthy w1 = w_healthy w.
Proof.
  intros HS. unfold discover.
  destruct schedule_facts as [R1 _].
  destruct max_retries as [|l]; [lia|].
  cbn [discover_loop]. rewrite Z.sub_diag.
  change (Z.ltb total_timeout 0) with false. cbv iota.
  unfold fetch. rewrite HS.
  eexists. split; [reflexivity|]. cbn [w_script w_healthy]. split; reflexivity.
Qed.

(* GetMetadata when the only document the cache can hold is the healthy one *)
Lemma get_metadata_exhausted c w c' w' r :
  w_script w = [] ->
  (forall d, mc_doc c = Some d -> d = w_healthy w) ->
  get_metadata c w = (c', w', r) ->
  r = Some (w_healthy w) /\ w_script w' = [] /\ w_healthy w' = w_healthy w.
Proof.
  intros HS HC. unfold get_metadata. destruct (cache_valid (w_now w) c) eqn:V.
  - intros H; inversion H; subst c' w' r. split; [|split; [exact HS|reflexivity]].
    unfold cache_valid in V. destruct (mc_doc c) as [d|] eqn:D; [|discriminate].
    rewrite (HC d eq_refl). reflexivity.
  - destruct (discover_exhausted w HS) as [w1 [Dv [Ds Dh]]]. rewrite Dv.
    intros H; inversion H; subst c' w' r. split; [reflexivity|split; [exact Ds|exact Dh]].
Qed.

(* ------------------------------------------------------------ the invariant *)

(* ready, using the healthy document, the provider's failures are over *)
Definition stay (h : doc) (s : mw * world) : Prop :=
  inv s /\ m_ready (fst s) = true /\ m_ep (fst s) = h
  /\ w_script (snd s) = [] /\ w_healthy (snd s) = h.

(* under the invariant the cache holds nothing but the healthy document *)
Lemma stay_cache h s : stay h s -> forall d, mc_doc (m_cache (fst s)) = Some d -> d = h.
Proof.
  intros [[HC HR] [R [E _]]] d Hd.
  apply HC in Hd. rewrite (HR R), E in Hd. inversion Hd. reflexivity.
Qed.

Lemma stay_init fs h T :
  0 <= T -> budget_ok T = true ->
  stay h (initialize_retrying fresh_mw (fresh_world (faults fs) h T)).
Proof.
  intros HT HB.
  pose proof (initialize_retrying_heals fs h T HT HB) as Hh. cbv zeta in Hh.
  destruct Hh as [Hr [He _]].
  assert (I0 : inv (initialize_retrying fresh_mw (fresh_world (faults fs) h T)))
    by (apply inv_init_loop, inv_fresh).
  unfold initialize_retrying in *.
  destruct (init_loop _ 0 fresh_mw _) as [m' w'] eqn:E.
  assert (HL : length (w_script (fresh_world (faults fs) h T)) = length fs).
  { cbn [fresh_world w_script]. unfold faults. apply map_length. }
  rewrite HL in E.
  pose proof (init_loop_exhausts _ 0 fresh_mw (fresh_world (faults fs) h T) fs m' w'
                eq_refl eq_refl HT HB (Nat.lt_succ_diag_r _) E) as [Q1 Q2].
  cbn [fresh_world w_healthy] in Q2. cbn [fst snd] in *.
  split; [exact I0|]. cbn [fst snd].
  split; [exact Hr|split; [exact He|split; [exact Q1|exact Q2]]].
Qed.

Definition is_script (o : op) : bool :=
  match o with OScript _ _ => true | _ => false end.

(* every operation other than a change of the provider's script preserves it *)
Lemma stay_apply_op h s o : is_script o = false -> stay h s -> stay h (apply_op s o).
Proof.
  intros NS St. pose proof (stay_cache h s St) as HCh.
  destruct St as [I [R [E [S H]]]].
  split; [apply inv_apply_op, I|].
  destruct s as [m w]. cbn [fst snd] in *.
  destruct o as [rq|l h'|d| |]; cbn [apply_op step]; cbn [is_script] in NS; try discriminate.
  - cbn [fst snd]. split; [exact R|split; [exact E|split; [exact S|exact H]]].
  - cbn [fst snd sleep w_script w_healthy].
    split; [exact R|split; [exact E|split; [exact S|exact H]]].
  - unfold refresh. rewrite R.
    destruct (get_metadata (m_cache m) w) as [[c w1] r] eqn:G.
    apply get_metadata_exhausted in G; [|exact S|rewrite H; exact HCh].
    destruct G as [-> [G1 G2]]. cbn [fst snd m_ready m_ep].
    split; [reflexivity|split; [exact H|split; [exact G1|rewrite G2; exact H]]].
  - unfold cleanup. cbn [fst snd m_ready m_ep].
    split; [exact R|split; [exact E|split; [exact S|exact H]]].
Qed.

(* ------------------------------------------------------------ a healed instance does not turn requests away *)

Lemma serve_stay_open h s rq : stay h s -> d_issuer h <> 0%N ->
  is_closed (model_req s rq) = false.
Proof.
  intros [_ [R [E _]]] Hi.
  unfold model_req, is_closed. cbn [oq_status oq_fwd oq_loc oq_cookies].
  unfold serve, serve_gate. rewrite R, E.
  replace (N.eqb (d_issuer h) 0) with false by (symmetry; apply N.eqb_neq, Hi).
  unfold after_gate. destruct (rq_path rq); reflexivity.
Qed.

Lemma full_doc_issuer h : full_doc h = true -> d_issuer h <> 0%N.
Proof.
  unfold full_doc. intros F. apply andb_prop in F. destruct F as [F _].
  apply negb_true_iff in F. apply N.eqb_neq, F.
Qed.

(* ------------------------------------------------------------ along the operations *)

Lemma stays_steps h ops : forall s steps s1,
  stay h s -> d_issuer h <> 0%N ->
  model_steps s ops = (steps, s1) ->
  forallb (fun q => negb (is_closed q)) (flat_map reqs_of_step (before_script steps)) = true.
Proof.
  induction ops as [|o r IH]; intros s steps s1 St Hi; cbn [model_steps].
  - intros H; inversion H; subst. reflexivity.
  - destruct (model_steps (apply_op s o) r) as [steps' s2] eqn:M.
    intros H; inversion H; subst steps s1. clear H.
    destruct (is_script o) eqn:NS.
    + destruct o; cbn [is_script] in NS; try discriminate. reflexivity.
    + pose proof (IH _ _ _ (stay_apply_op h s o NS St) Hi M) as Q.
      destruct o as [rq|l h'|d| |]; cbn [is_script] in NS; try discriminate;
        cbn [before_script flat_map reqs_of_step app forallb]; try exact Q.
      rewrite (serve_stay_open h s rq St Hi). cbn [negb andb]. exact Q.
Qed.

(* The observations of the model satisfy the "keeps serving" clause. *)
Theorem stays_model fs h T pre ops :
  0 <= T -> budget_ok T = true ->
  stays_ok (model_case (faults fs) h T pre ops) = true.
Proof.
  intros HT HB. unfold model_case.
  set (w := fresh_world (faults fs) h T).
  set (s0 := initialize_retrying fresh_mw w).
  destruct (model_steps s0 ops) as [steps s1] eqn:M.
  unfold stays_ok, heal_applies. cbn [dc_script dc_healthy dc_steps].
  rewrite faults_all_fault. cbn [andb].
  destruct (full_doc h) eqn:F; [|reflexivity].
  apply (stays_steps h ops s0 steps s1); [|apply full_doc_issuer, F|exact M].
  subst s0 w. apply stay_init; assumption.
Qed.
