(* Ownership and non-interference for the session-object pool (property C05). *)
From VF Require Import Base.Prelude Model.Pool.
From Coq Require Import ZifyBool ZifyNat ZifyN.
Open Scope N_scope.

(* ------------------------------------------------------------ list plumbing *)

Lemma nth_error_set_nth_eq i h l x :
  nth_error l i = Some x -> nth_error (set_nth i h l) i = Some h.
Proof.
  revert i; induction l as [|a l IH]; intros [|i]; cbn; try discriminate; [reflexivity|apply IH].
Qed.

Lemma nth_error_set_nth_neq i j h l :
  i <> j -> nth_error (set_nth i h l) j = nth_error l j.
Proof.
  revert i j; induction l as [|a l IH]; intros [|i] [|j] Hne; cbn; try reflexivity; try congruence.
  apply IH. congruence.
Qed.

Lemma content_cons_neq o o' v s : o <> o' -> content o ((o', v) :: s) = content o s.
Proof. intros H. cbn. destruct (Nat.eqb_spec o o'); [congruence|reflexivity]. Qed.

Lemma content_cons_eq o v s : content o ((o, v) :: s) = v.
Proof. cbn. rewrite Nat.eqb_refl. reflexivity. Qed.

Lemma set_nth_same_owner i h hnew l c hc :
  nth_error l i = Some h -> h_owns hnew = h_owns h -> h_ref hnew = h_ref h ->
  nth_error (set_nth i hnew l) c = Some hc ->
  exists hc', nth_error l c = Some hc' /\ h_owns hc' = h_owns hc /\ h_ref hc' = h_ref hc.
Proof.
  intros Hi Ho Hr Hc. destruct (Nat.eq_dec i c) as [<-|Hic].
  - rewrite (nth_error_set_nth_eq _ _ _ _ Hi) in Hc. inversion Hc; subst hc. exists h. split; [exact Hi|split; congruence].
  - rewrite nth_error_set_nth_neq in Hc by exact Hic. exists hc. tauto.
Qed.

Ltac fin := try assumption; try reflexivity; try tauto; try lia;
            try (cbn [content]; rewrite Nat.eqb_refl; reflexivity); try apply content_cons_eq.

(* ------------------------------------------------------------ the invariant *)

Record owner_ok (p : pstate) (h : hstate) : Prop := {
  ow_disc : disciplined (h_owns h) (h_prog h) = true;
  ow_ok : h_ok h = true;
  ow_ref : h_owns h = true ->
           exists o, h_ref h = Some o /\ ~ In o (p_pool p) /\ (o < p_next p)%nat
                     /\ content o (p_store p) = h_last h;
}.

Record inv (p : pstate) : Prop := {
  inv_h : forall i h, nth_error (p_hs p) i = Some h -> owner_ok p h;
  inv_distinct : forall i j hi hj oi oj,
      i <> j -> nth_error (p_hs p) i = Some hi -> nth_error (p_hs p) j = Some hj ->
      h_owns hi = true -> h_owns hj = true -> h_ref hi = Some oi -> h_ref hj = Some oj -> oi <> oj;
  inv_pool : NoDup (p_pool p) /\ forall o, In o (p_pool p) -> (o < p_next p)%nat;
}.

Lemma owner_ok_same p p' h :
  p_pool p' = p_pool p -> p_next p' = p_next p -> p_store p' = p_store p -> owner_ok p h -> owner_ok p' h.
Proof.
  intros E1 E2 E3 [A B C]. split; [exact A|exact B|]. rewrite E1, E2, E3. exact C.
Qed.

Lemma inv_start progs :
  forallb (disciplined false) progs = true -> inv (start progs).
Proof.
  intros D. split.
  - intros i h H. unfold start in H. cbn in H. rewrite nth_error_map in H.
    destruct (nth_error progs i) as [pr|] eqn:E; [|discriminate]. inversion H; subst h.
    split; cbn; [|reflexivity|discriminate].
    rewrite forallb_forall in D. apply D. eapply nth_error_In, E.
  - intros i j hi hj oi oj _ Hi _ Oi. unfold start in Hi. cbn in Hi. rewrite nth_error_map in Hi.
    destruct (nth_error progs i); [|discriminate]. inversion Hi; subst hi. discriminate.
  - cbn. split; [constructor|tauto].
Qed.

(* every other handler's view is untouched by a step of handler i that keeps
   the pool, only adds store bindings for objects the others do not own *)
Lemma pstep_inv p i : inv p -> inv (pstep p i).
Proof.
  intros [IH ID [IPn IPl]]. unfold pstep.
  destruct (nth_error (p_hs p) i) as [h|] eqn:Hi; [|split; [exact IH|exact ID|split; assumption]].
  destruct (IH i h Hi) as [Hd Hok Hr].
  destruct (h_prog h) as [|op rest] eqn:Hp; [split; [exact IH|exact ID|split; assumption]|].
  destruct op as [|v| |].
  - (* MGet *)
    cbn [disciplined] in Hd. apply andb_prop in Hd. destruct Hd as [Hno Hd].
    apply negb_true_iff in Hno.
    destruct (p_pool p) as [|x pool] eqn:Pool.
    + (* a fresh object *)
      split; cbn [p_hs p_pool p_next p_store].
      * intros j hj Hj. destruct (Nat.eq_dec i j) as [<-|Hne].
        -- rewrite (nth_error_set_nth_eq _ _ _ _ Hi) in Hj. inversion Hj; subst hj.
           split; cbn; [exact Hd|exact Hok|]. intros _. exists (p_next p). cbn [p_pool p_next p_store p_hs].
           repeat split; fin.
        -- rewrite nth_error_set_nth_neq in Hj by exact Hne.
           destruct (IH j hj Hj) as [Jd Jok Jr]. split; [exact Jd|exact Jok|].
           intros Ho. destruct (Jr Ho) as [o [R [Np [Lt C]]]]. exists o. cbn [p_pool p_next p_store p_hs].
           repeat split; [exact R|tauto|lia|]. rewrite content_cons_neq by lia. exact C.
      * intros a b ha hb oa ob Hab Ha Hb Oa Ob Ra Rb.
        destruct (Nat.eq_dec i a) as [<-|Hia]; destruct (Nat.eq_dec i b) as [<-|Hib]; try congruence.
        -- rewrite (nth_error_set_nth_eq _ _ _ _ Hi) in Ha. inversion Ha; subst ha. cbn in Ra. inversion Ra; subst oa.
           rewrite nth_error_set_nth_neq in Hb by exact Hib.
           destruct (IH b hb Hb) as [_ _ Jr]. destruct (Jr Ob) as [o [R [_ [Lt _]]]]. rewrite R in Rb. inversion Rb; subst. lia.
        -- rewrite (nth_error_set_nth_eq _ _ _ _ Hi) in Hb. inversion Hb; subst hb. cbn in Rb. inversion Rb; subst ob.
           rewrite nth_error_set_nth_neq in Ha by exact Hia.
           destruct (IH a ha Ha) as [_ _ Jr]. destruct (Jr Oa) as [o [R [_ [Lt _]]]]. rewrite R in Ra. inversion Ra; subst. lia.
        -- rewrite nth_error_set_nth_neq in Ha by exact Hia. rewrite nth_error_set_nth_neq in Hb by exact Hib.
           exact (ID a b ha hb oa ob Hab Ha Hb Oa Ob Ra Rb).
      * cbn [p_pool p_next]. split; [constructor|intros o []].
    + (* an object from the pool *)
      inversion IPn as [|x' l' Hnx Hnd]; subst.
      split; cbn [p_hs p_pool p_next p_store].
      * intros j hj Hj. destruct (Nat.eq_dec i j) as [<-|Hne].
        -- rewrite (nth_error_set_nth_eq _ _ _ _ Hi) in Hj. inversion Hj; subst hj.
           split; cbn; [exact Hd|exact Hok|]. intros _. exists x. cbn [p_pool p_next p_store p_hs].
           repeat split; fin; try (apply IPl; left; reflexivity).
        -- rewrite nth_error_set_nth_neq in Hj by exact Hne.
           destruct (IH j hj Hj) as [Jd Jok Jr]. split; [exact Jd|exact Jok|].
           intros Ho. destruct (Jr Ho) as [o [R [Np [Lt C]]]]. rewrite Pool in Np. exists o. cbn [p_pool p_next p_store p_hs].
           repeat split; [exact R|cbn in Np; tauto|exact Lt|].
           rewrite content_cons_neq; [exact C|]. intros ->. apply Np. left. reflexivity.
      * intros a b ha hb oa ob Hab Ha Hb Oa Ob Ra Rb.
        destruct (Nat.eq_dec i a) as [<-|Hia]; destruct (Nat.eq_dec i b) as [<-|Hib]; try congruence.
        -- rewrite (nth_error_set_nth_eq _ _ _ _ Hi) in Ha. inversion Ha; subst ha. cbn in Ra. inversion Ra; subst oa.
           rewrite nth_error_set_nth_neq in Hb by exact Hib.
           destruct (IH b hb Hb) as [_ _ Jr]. destruct (Jr Ob) as [o [R [Np _]]]. rewrite R in Rb. inversion Rb; subst.
           rewrite Pool in Np. intros ->. apply Np. left. reflexivity.
        -- rewrite (nth_error_set_nth_eq _ _ _ _ Hi) in Hb. inversion Hb; subst hb. cbn in Rb. inversion Rb; subst ob.
           rewrite nth_error_set_nth_neq in Ha by exact Hia.
           destruct (IH a ha Ha) as [_ _ Jr]. destruct (Jr Oa) as [o [R [Np _]]]. rewrite R in Ra. inversion Ra; subst.
           rewrite Pool in Np. intros E. apply Np. left. symmetry. exact E.
        -- rewrite nth_error_set_nth_neq in Ha by exact Hia. rewrite nth_error_set_nth_neq in Hb by exact Hib.
           exact (ID a b ha hb oa ob Hab Ha Hb Oa Ob Ra Rb).
      * cbn [p_pool p_next]. split; [exact Hnd|]. intros o Ho. apply IPl. right. exact Ho.
  - (* MWrite *)
    cbn [disciplined] in Hd. apply andb_prop in Hd. destruct Hd as [Hown Hd].
    destruct (Hr Hown) as [o [R [Np [Lt C]]]]. rewrite R.
    split; cbn [p_hs p_pool p_next p_store].
    + intros j hj Hj. destruct (Nat.eq_dec i j) as [<-|Hne].
      * rewrite (nth_error_set_nth_eq _ _ _ _ Hi) in Hj. inversion Hj; subst hj.
        split; cbn; [exact Hd|exact Hok|]. intros _. exists o. cbn [p_pool p_next p_store p_hs].
        repeat split; fin.
      * rewrite nth_error_set_nth_neq in Hj by exact Hne.
        destruct (IH j hj Hj) as [Jd Jok Jr]. split; [exact Jd|exact Jok|].
        intros Ho. destruct (Jr Ho) as [o' [R' [Np' [Lt' C']]]]. exists o'. cbn [p_pool p_next p_store p_hs].
        repeat split; [exact R'|exact Np'|exact Lt'|].
        rewrite content_cons_neq; [exact C'|].
        apply (ID j i hj h o' o); [congruence|exact Hj|exact Hi|exact Ho|exact Hown|exact R'|exact R].
    + intros a b ha hb oa ob Hab Ha Hb Oa Ob Ra Rb.
      eapply set_nth_same_owner in Ha; [|exact Hi|reflexivity|first [reflexivity | symmetry; exact R | cbn; symmetry; exact R]].
      destruct Ha as [ha' [A1 [A2 A3]]].
      eapply set_nth_same_owner in Hb; [|exact Hi|reflexivity|first [reflexivity | symmetry; exact R | cbn; symmetry; exact R]].
      destruct Hb as [hb' [B1 [B2 B3]]].
      apply (ID a b ha' hb' oa ob); try assumption; congruence.
    + cbn [p_pool p_next]. split; assumption.
  - (* MRead *)
    cbn [disciplined] in Hd. apply andb_prop in Hd. destruct Hd as [Hown Hd].
    destruct (Hr Hown) as [o [R [Np [Lt C]]]]. rewrite R.
    split; cbn [p_hs p_pool p_next p_store].
    + intros j hj Hj. destruct (Nat.eq_dec i j) as [<-|Hne].
      * rewrite (nth_error_set_nth_eq _ _ _ _ Hi) in Hj. inversion Hj; subst hj.
        split; cbn; [exact Hd|rewrite Hok, C, N.eqb_refl; reflexivity|].
        intros _. exists o. cbn [p_pool p_next p_store p_hs]. tauto.
      * rewrite nth_error_set_nth_neq in Hj by exact Hne. apply (owner_ok_same p); [reflexivity|reflexivity|reflexivity|exact (IH j hj Hj)].
    + intros a b ha hb oa ob Hab Ha Hb Oa Ob Ra Rb.
      eapply set_nth_same_owner in Ha; [|exact Hi|reflexivity|first [reflexivity | symmetry; exact R | cbn; symmetry; exact R]].
      destruct Ha as [ha' [A1 [A2 A3]]].
      eapply set_nth_same_owner in Hb; [|exact Hi|reflexivity|first [reflexivity | symmetry; exact R | cbn; symmetry; exact R]].
      destruct Hb as [hb' [B1 [B2 B3]]].
      apply (ID a b ha' hb' oa ob); try assumption; congruence.
    + cbn [p_pool p_next]. split; assumption.
  - (* MPut *)
    cbn [disciplined] in Hd. apply andb_prop in Hd. destruct Hd as [Hown Hd].
    destruct (Hr Hown) as [o [R [Np [Lt C]]]]. rewrite R.
    split; cbn [p_hs p_pool p_next p_store].
    + intros j hj Hj. destruct (Nat.eq_dec i j) as [<-|Hne].
      * rewrite (nth_error_set_nth_eq _ _ _ _ Hi) in Hj. inversion Hj; subst hj.
        split; cbn; [exact Hd|exact Hok|discriminate].
      * rewrite nth_error_set_nth_neq in Hj by exact Hne.
        destruct (IH j hj Hj) as [Jd Jok Jr]. split; [exact Jd|exact Jok|].
        intros Ho. destruct (Jr Ho) as [o' [R' [Np' [Lt' C']]]]. exists o'. cbn [p_pool p_next p_store p_hs].
        repeat split; [exact R'| |exact Lt'|exact C'].
        intros [E|Hin]; [|tauto]. subst o'.
        apply (ID j i hj h o o); [congruence|exact Hj|exact Hi|exact Ho|exact Hown|exact R'|exact R|reflexivity].
    + intros a b ha hb oa ob Hab Ha Hb Oa Ob Ra Rb.
      destruct (Nat.eq_dec i a) as [<-|Hia].
      { rewrite (nth_error_set_nth_eq _ _ _ _ Hi) in Ha. inversion Ha; subst ha. discriminate. }
      destruct (Nat.eq_dec i b) as [<-|Hib].
      { rewrite (nth_error_set_nth_eq _ _ _ _ Hi) in Hb. inversion Hb; subst hb. discriminate. }
      rewrite nth_error_set_nth_neq in Ha by exact Hia. rewrite nth_error_set_nth_neq in Hb by exact Hib.
      exact (ID a b ha hb oa ob Hab Ha Hb Oa Ob Ra Rb).
    + cbn [p_pool p_next]. split; [constructor; assumption|]. intros o' [<-|Hin]; [exact Lt|apply IPl, Hin].
Qed.

Lemma prun_inv p sched : inv p -> inv (prun p sched).
Proof.
  revert p; induction sched as [|i s IH]; intros p H; [exact H|]. cbn. apply IH, pstep_inv, H.
Qed.

Lemma inv_all_ok p : inv p -> all_ok p = true.
Proof.
  intros [IH _ _]. unfold all_ok. apply forallb_forall. intros h Hin.
  apply In_nth_error in Hin. destruct Hin as [i Hi]. apply (IH i h Hi).
Qed.

(* For any number of handlers that follow the discipline and EVERY schedule:
   each read of each handler returned what that handler itself last wrote
   (no other in-flight request's state, nonce, tokens or identity), every
   object is in the pool or owned by exactly one handler. *)
Theorem pool_noninterference progs sched :
  forallb (disciplined false) progs = true ->
  all_ok (prun (start progs) sched) = true /\ inv (prun (start progs) sched).
Proof.
  intros D. pose proof (prun_inv _ sched (inv_start progs D)) as I.
  split; [apply inv_all_ok, I|exact I].
Qed.

(* The pinned behaviour (Clear puts the object back, the handler goes on using
   it) is not disciplined, and a two-handler schedule shows the contamination:
   A = initiation whose Clear returned the object, B = another request. *)
Definition prog_A_pinned : list mop := [MGet; MWrite 1; MPut; MWrite 1; MRead].
Definition prog_B : list mop := [MGet; MWrite 2; MRead].

Example pinned_not_disciplined : disciplined false prog_A_pinned = false.
Proof. reflexivity. Qed.

Example pinned_contaminates :
  all_ok (prun (start [prog_A_pinned; prog_B]) [0; 0; 0; 0; 1; 1; 0; 1]%nat) = false.
Proof. vm_compute. reflexivity. Qed.
