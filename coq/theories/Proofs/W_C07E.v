(* Property C07, read-back step.  Whatever the request, the instance state and
   the provider's answer, a response of Model/Middleware.serve READS BACK from
   the request's cookies exactly what they hold: when a gated request is
   forwarded with no provider call, every forwarded ID-token header (code 3)
   carries the ID token stored in the request's cookies; when the provider is
   asked for a refresh grant, the refresh token presented is the one stored in
   the request's cookies.  Spec/WorldSpec.c07_e2e_step holds of every step of
   the model, with no premise on the environment, the configuration or the
   instance.
   Rests on ServeLemmas (serve_cases, cb_cases, pa_cases: the provider calls of
   every branch) and on W_BLemmas (b_pa_cases, b_headers: the forwarded header
   list).  Lemma names: e7_ . *)
From VF Require Import Base.Prelude Model.Cache Model.Session Model.Middleware Corr.WorldCorr Spec.WorldSpec.
From VF Require Import Proofs.WorldBase Proofs.ServeLemmas Proofs.W_BLemmas.
From Coq Require Import ZifyBool ZifyNat ZifyN.
Open Scope N_scope.

Section ReadBack.
  Variable E : env.
  Variable cfg : config.
  Notation NCE := (nchunks E).

  (* the monitor's clause on one forwarded header, the carried token made explicit *)
  Definition e7_hok (t : tval) (cv : N * hval) : bool :=
    if N.eqb (fst cv) 3
    then match t with TTok s => hval_eqb (snd cv) (HStr s) | _ => false end
    else true.

  (* ---------------------------------------------------------------- ways the monitor holds *)

  (* no provider call, nothing forwarded *)
  Lemma e7_no_call_nofwd now rq r :
    r_calls r = [] -> r_fwd r = None -> c07_e2e_step E cfg now rq r = true.
  Proof. intros Hc Hf. unfold c07_e2e_step. rewrite Hc, Hf. reflexivity. Qed.

  (* no provider call, request not gated *)
  Lemma e7_not_gated now rq r :
    r_calls r = [] -> gated E cfg rq = false -> c07_e2e_step E cfg now rq r = true.
  Proof. intros Hc Hg. unfold c07_e2e_step. rewrite Hc, Hg. destruct (r_fwd r); reflexivity. Qed.

  (* exactly one refresh grant, with the carried refresh token *)
  Lemma e7_refresh now rq r :
    r_calls r = [PRefresh (session_refresh E cfg now rq)] -> c07_e2e_step E cfg now rq r = true.
  Proof.
    intros Hc. unfold c07_e2e_step. rewrite Hc, tval_eqb_refl. destruct (r_fwd r); reflexivity.
  Qed.

  (* exactly one code exchange *)
  Lemma e7_exchange now rq r c s h v :
    r_calls r = [PExchange c s h v] -> c07_e2e_step E cfg now rq r = true.
  Proof. intros Hc. unfold c07_e2e_step. rewrite Hc. destruct (r_fwd r); reflexivity. Qed.

  (* forwarded with no provider call: every code-3 header is the carried ID token *)
  Lemma e7_fwd_nil now rq r h t :
    r_calls r = [] -> r_fwd r = Some h -> session_token E cfg now rq = TTok t ->
    forallb (e7_hok (TTok t)) h = true -> c07_e2e_step E cfg now rq r = true.
  Proof.
    intros Hc Hf Ht Hh. unfold c07_e2e_step. rewrite Hc, Hf, Ht.
    destruct (gated E cfg rq); [|reflexivity]. rewrite andb_true_r. exact Hh.
  Qed.

  (* ---------------------------------------------------------------- the forwarded header list *)

  Lemma e7_hok_other t c v : c <> 3 -> e7_hok t (c, v) = true.
  Proof. intros H. unfold e7_hok. cbn [fst]. destruct (N.eqb_spec c 3); [contradiction|reflexivity]. Qed.

  Lemma e7_hok_token s : e7_hok (TTok s) (3, HStr s) = true.
  Proof. unfold e7_hok. cbn [fst snd]. rewrite N.eqb_refl. apply hval_eqb_refl. Qed.

  Lemma e7_hok_surviving t rq : forallb (e7_hok t) (surviving_client_headers cfg rq) = true.
  Proof.
    unfold surviving_client_headers. apply forallb_forall. intros x Hin.
    apply in_map_iff in Hin. destruct Hin as (c & <- & _). apply e7_hok_other. lia.
  Qed.

  Lemma e7_hok_groups_roles t gr h0 :
    forallb (e7_hok t) h0 = true ->
    forallb (e7_hok t)
            match gr with
            | Some (g, r) =>
                let hg := match g with [] => h0 | _ => insert_hdr 4 (HList g) h0 end in
                match r with [] => hg | _ => insert_hdr 5 (HList r) hg end
            | None => h0
            end = true.
  Proof.
    intros H0. destruct gr as [[g r]|]; [|exact H0]. cbv zeta.
    assert (Hg : forallb (e7_hok t) match g with [] => h0 | _ :: _ => insert_hdr 4 (HList g) h0 end = true).
    { destruct g as [|x g]; [exact H0|].
      apply b_forallb_insert; [apply e7_hok_other; discriminate|exact H0]. }
    destruct r as [|y r]; [exact Hg|].
    apply b_forallb_insert; [apply e7_hok_other; discriminate|exact Hg].
  Qed.

  (* of the headers process_authorized hands downstream, the one with code 3 is the session's ID token *)
  Lemma e7_headers rq sd s :
    get_access NCE sd = TTok s -> forallb (e7_hok (TTok s)) (b_headers E cfg rq sd) = true.
  Proof.
    intros Ht. unfold b_headers. rewrite Ht. cbv zeta.
    apply b_forallb_templates.
    - intros s' n v _ _ _. apply e7_hok_other. lia.
    - apply b_forallb_insert; [apply e7_hok_token|].
      apply b_forallb_insert; [apply e7_hok_other; discriminate|].
      apply b_forallb_insert; [apply e7_hok_other; discriminate|].
      apply b_forallb_insert; [apply e7_hok_other; discriminate|].
      apply e7_hok_groups_roles, e7_hok_surviving.
  Qed.

  (* ---------------------------------------------------------------- the sub-handlers *)

  Lemma e7_initiate_nil now rq rq' rnd st sd cookies :
    c07_e2e_step E cfg now rq (initiate cfg rq' rnd st sd cookies []) = true.
  Proof. apply e7_no_call_nofwd; [apply initiate_calls|apply initiate_fwd]. Qed.

  Lemma e7_callback now rq st sd ans :
    c07_e2e_step E cfg now rq (snd (handle_callback E cfg rq st now sd ans)) = true.
  Proof.
    apply (cb_cases E cfg rq st now sd ans (fun x => c07_e2e_step E cfg now rq (snd x) = true)); cbn [snd].
    - intros m. apply e7_no_call_nofwd; reflexivity.
    - intros m _. eapply e7_exchange. unfold cb_call. reflexivity.
    - intros m id rt _ _. eapply e7_exchange. unfold cb_call. reflexivity.
    - intros m id rt _ _ _. eapply e7_exchange. unfold cb_call. reflexivity.
    - intros m id rt _ _. eapply e7_exchange. unfold cb_call. reflexivity.
    - intros id rt loc _ _ _. eapply e7_exchange. unfold cb_call. reflexivity.
  Qed.

  (* a due refresh that failed: the grant was asked with the carried refresh token *)
  Lemma e7_refresh_failed now rq rnd st sd cs :
    c07_e2e_step E cfg now rq
      (refresh_failed_resp cfg rq rnd st sd cs [PRefresh (session_refresh E cfg now rq)]) = true.
  Proof.
    apply e7_refresh. unfold refresh_failed_resp.
    destruct (q_json rq); [reflexivity|apply initiate_calls].
  Qed.

  (* a valid session, no refresh due: no provider call, the headers are those of the carried session *)
  Lemma e7_pa_nil now rq rnd st t :
    session_token E cfg now rq = TTok t ->
    c07_e2e_step E cfg now rq (process_authorized E cfg rq rnd st (carried cfg now rq) [] []) = true.
  Proof.
    intros Ht.
    apply (b_pa_cases E cfg rq rnd st (carried cfg now rq) [] []
             (fun r => c07_e2e_step E cfg now rq r = true)).
    - intros _. apply e7_initiate_nil.
    - intros m _ _. apply e7_no_call_nofwd; reflexivity.
    - intros _ _ _ _ _. apply e7_no_call_nofwd; reflexivity.
    - intros cors _ _ _. eapply e7_fwd_nil; [reflexivity|reflexivity|exact Ht|].
      apply e7_headers. exact Ht.
  Qed.

  (* ---------------------------------------------------------------- serve *)

  Theorem e7_serve st now rq rnd ans :
    c07_e2e_step E cfg now rq (snd (serve E cfg st now rq rnd ans)) = true.
  Proof.
    destruct (i_ready st) eqn:Hready.
    2:{ unfold serve. rewrite Hready. apply e7_no_call_nofwd; reflexivity. }
    apply (serve_cases E cfg st now rq rnd ans
             (fun x => c07_e2e_step E cfg now rq (snd x) = true) Hready); cbn [snd].
    - intros Hex. apply e7_not_gated; [reflexivity|]. unfold gated. rewrite Hex. reflexivity.
    - intros _ _. destruct (handle_logout_eq E cfg rq st (carried cfg now rq)) as [loc ->].
      apply e7_no_call_nofwd; reflexivity.
    - intros _ _ _. apply e7_callback.
    - intros _. rewrite handle_expired_eq. apply e7_initiate_nil.
    - intros _ Hv. unfold carries_valid_session in Hv. apply andb_prop in Hv. destruct Hv as [_ Hv].
      destruct (session_token E cfg now rq) as [|t|] eqn:Ht; [discriminate| |discriminate].
      apply (e7_pa_nil now rq rnd st t Ht).
    - intros _ _ st' _. apply e7_refresh_failed.
    - intros _ _ _. apply e7_refresh_failed.
    - intros _ _ id newrt _ _ _ _ _. apply pa_cases.
      + intros _. apply e7_refresh, initiate_calls.
      + intros m _. apply e7_refresh. reflexivity.
      + intros _ _ _. apply e7_refresh. reflexivity.
      + intros h cors _. apply e7_refresh. reflexivity.
    - intros _. apply e7_initiate_nil.
  Qed.

End ReadBack.

Theorem c07_e2e_serve (E : env) (cfg : config) (st : inst) (now : time) (rq : request)
                      (rnd : istr * istr * istr) (ans : option answer) :
  c07_e2e_step E cfg now rq (snd (serve E cfg st now rq rnd ans)) = true.
Proof. apply e7_serve. Qed.
