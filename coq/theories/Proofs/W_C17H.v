(* C17, healing.  A completed login heals ANY jar whose chunk cookies form a
   prefix, whatever the cookies contain (junk, values sealed under another or an
   older key, renamed cookies, truncations): once the browser applied the
   Set-Cookie headers of the successful callback response its jar is contiguous,
   every cookie in it is sealed under the deployment key for its own name, and
   the next request loads exactly the session the callback stored.
   Rests on SessionProofs.save_heals (the stale-chunk walk counts the chunk
   cookies PRESENT, decodable or not: repair 098055b).  Lemma names: h_ . *)
From VF Require Import Base.Prelude Model.Cache Model.Session Model.Middleware Corr.WorldCorr Spec.WorldSpec.
From VF Require Import Proofs.WorldBase Proofs.ServeLemmas Proofs.SessionProofs Proofs.W_Cookies.
From Coq Require Import ZifyBool ZifyNat ZifyN.
Open Scope N_scope.

Section Heal.
  Variable E : env.
  Variable cfg : config.
  Notation NCE := (nchunks E).
  Notation K := (c_key cfg).

  Lemma h_pre_live now j sd : pre NCE K now j sd -> s_live sd = true.
  Proof.
    intros Hp. induction Hp as [|f s sd Hp IH|t b sd Hp IH|t sd Hp IH|t sd Hp IH].
    - unfold load. destruct (session_too_old now (fst (get_session K CMain j))); reflexivity.
    - exact IH.
    - exact IH.
    - unfold set_access. destruct (store_token NCE t (s_acc sd)) as [a ch]. exact IH.
    - unfold set_refresh. destruct (store_token NCE t (s_ref sd)) as [a ch]. exact IH.
  Qed.

  Lemma h_marked_main f x sd : s_marked_a (set_main f x sd) = s_marked_a sd /\ s_marked_r (set_main f x sd) = s_marked_r sd.
  Proof. split; reflexivity. Qed.

  Lemma h_marked_refresh t sd : s_marked_a (set_refresh NCE t sd) = s_marked_a sd
    /\ s_marked_r (set_refresh NCE t sd) = (s_marked_r sd || s_live sd)%bool.
  Proof. unfold set_refresh. destruct (store_token NCE t (s_ref sd)) as [r ch]. split; reflexivity. Qed.

  Lemma h_marked_access t sd : s_marked_a (set_access NCE t sd) = (s_marked_a sd || s_live sd)%bool
    /\ s_marked_r (set_access NCE t sd) = s_marked_r sd /\ s_live (set_access NCE t sd) = s_live sd.
  Proof. unfold set_access. destruct (store_token NCE t (s_acc sd)) as [r ch]. repeat split; reflexivity. Qed.

  Lemma h_callback_marked now j sd id rt : pre NCE K now j sd ->
    s_marked_a (callback_sd E now sd id rt) = true /\ s_marked_r (callback_sd E now sd id rt) = true.
  Proof.
    intros Hp. pose proof (h_pre_live now j sd Hp) as Hl. unfold callback_sd.
    set (sd2 := set_main 6 (ti_email (tok E id)) (set_authenticated now true sd)).
    assert (Hl2 : s_live sd2 = true) by exact Hl.
    set (sd3 := set_refresh NCE rt (set_access NCE id sd2)).
    destruct (h_marked_access id sd2) as (Aa & Ar & Al).
    destruct (h_marked_refresh rt (set_access NCE id sd2)) as (Ra & Rr). fold sd3 in Ra, Rr.
    assert (H3 : s_marked_a sd3 = true /\ s_marked_r sd3 = true).
    { rewrite Ra, Rr, Aa, Al, Hl2, !orb_true_r. split; reflexivity. }
    clearbody sd3. clear - H3.
    repeat match goal with |- context [set_main ?f ?x ?s] =>
      destruct (h_marked_main f x s) as [-> ->] end.
    exact H3.
  Qed.

  (* the callback handler *)
  Theorem h_callback_heals rq st now ans ca cr :
    prefix_at ca cr (q_jar rq) ->
    let r := snd (handle_callback E cfg rq st now (carried cfg now rq) ans) in
    r_status r = 302 ->
    exists id rt, ans = Some (AOk id rt)
      /\ r_cookies r = save_cookies (callback_sd E now (carried cfg now rq) id rt)
      /\ holds_session K (apply_cookies K (q_jar rq) (r_cookies r)) (callback_sd E now (carried cfg now rq) id rt).
  Proof.
    intros Hpf. cbv zeta.
    apply (cb_cases E cfg rq st now (carried cfg now rq) ans
             (fun x => r_status (snd x) = 302 -> exists id rt, ans = Some (AOk id rt)
                /\ r_cookies (snd x) = save_cookies (callback_sd E now (carried cfg now rq) id rt)
                /\ holds_session K (apply_cookies K (q_jar rq) (r_cookies (snd x)))
                                 (callback_sd E now (carried cfg now rq) id rt)));
      cbn [snd send_error r_status r_cookies]; try (intros; discriminate).
    intros id rt loc Hans _ _ _. exists id, rt. split; [exact Hans|]. split; [reflexivity|].
    assert (Hp : pre NCE K now (q_jar rq) (callback_sd E now (carried cfg now rq) id rt))
      by (apply c_pre_callback; constructor).
    destruct (h_callback_marked now (q_jar rq) (carried cfg now rq) id rt (pre_load _ _ _ _)) as [Ma Mr].
    exact (save_heals_pre NCE K now (q_jar rq) _ ca cr Hpf Hp Ma Mr).
  Qed.

  (* what the next request of that browser reads *)
  Theorem h_next_request rq st now ans ca cr now' :
    prefix_at ca cr (q_jar rq) ->
    let r := snd (handle_callback E cfg rq st now (carried cfg now rq) ans) in
    let j' := apply_cookies K (q_jar rq) (r_cookies r) in
    r_status r = 302 ->
    exists id rt, ans = Some (AOk id rt)
      /\ contiguous K j'
      /\ (session_too_old now' (s_main (callback_sd E now (carried cfg now rq) id rt)) = false ->
          let sv := callback_sd E now (carried cfg now rq) id rt in
          get_access NCE (load K now' j') = get_access NCE sv
          /\ get_refresh NCE (load K now' j') = get_refresh NCE sv
          /\ s_main (load K now' j') = s_main sv).
  Proof.
    intros Hpf r j' H302. destruct (h_callback_heals rq st now ans ca cr Hpf H302) as (id & rt & Hans & _ & Hh).
    exists id, rt. split; [exact Hans|]. split.
    - exact (holds_contiguous _ _ _ _ _ _ _ Hh).
    - intros Hold sv. exact (c_holds_reads E cfg j' sv now' Hh Hold).
  Qed.

  (* the same, for the whole request ladder on the callback route *)
  Lemma h_serve_callback st now rq rnd ans :
    i_ready st = true -> is_excluded E cfg rq = false -> is_logout cfg rq = false -> is_callback cfg rq = true ->
    serve E cfg st now rq rnd ans = handle_callback E cfg rq st now (carried cfg now rq) ans.
  Proof.
    intros Hready Hex Hlo Hcb.
    apply (serve_cases E cfg st now rq rnd ans
             (fun x => x = handle_callback E cfg rq st now (carried cfg now rq) ans) Hready).
    - intros H. congruence.
    - intros _ H. congruence.
    - intros _ _ _. reflexivity.
    - intros H. unfold gated in H. rewrite Hcb in H. rewrite andb_false_r in H. discriminate.
    - intros H. unfold gated in H. rewrite Hcb in H. rewrite andb_false_r in H. discriminate.
    - intros H. unfold gated in H. rewrite Hcb in H. rewrite andb_false_r in H. discriminate.
    - intros H. unfold gated in H. rewrite Hcb in H. rewrite andb_false_r in H. discriminate.
    - intros H. unfold gated in H. rewrite Hcb in H. rewrite andb_false_r in H. discriminate.
    - intros H. unfold gated in H. rewrite Hcb in H. rewrite andb_false_r in H. discriminate.
  Qed.

  Theorem h_serve_heals st now rq rnd ans ca cr now' :
    i_ready st = true -> is_excluded E cfg rq = false -> is_logout cfg rq = false -> is_callback cfg rq = true ->
    prefix_at ca cr (q_jar rq) ->
    let r := snd (serve E cfg st now rq rnd ans) in
    let j' := apply_cookies K (q_jar rq) (r_cookies r) in
    r_status r = 302 ->
    exists id rt, ans = Some (AOk id rt)
      /\ contiguous K j'
      /\ holds_session K j' (callback_sd E now (carried cfg now rq) id rt)
      /\ (session_too_old now' (s_main (callback_sd E now (carried cfg now rq) id rt)) = false ->
          let sv := callback_sd E now (carried cfg now rq) id rt in
          get_access NCE (load K now' j') = get_access NCE sv
          /\ get_refresh NCE (load K now' j') = get_refresh NCE sv
          /\ s_main (load K now' j') = s_main sv).
  Proof.
    intros Hready Hex Hlo Hcb Hpf. cbv zeta. rewrite (h_serve_callback st now rq rnd ans Hready Hex Hlo Hcb).
    intros H302. destruct (h_callback_heals rq st now ans ca cr Hpf H302) as (id & rt & Hans & _ & Hh).
    exists id, rt. split; [exact Hans|]. split; [exact (holds_contiguous _ _ _ _ _ _ _ Hh)|]. split; [exact Hh|].
    intros Hold. exact (c_holds_reads E cfg _ _ now' Hh Hold).
  Qed.

End Heal.
