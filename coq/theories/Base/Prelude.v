(* Shared definitions: association lists keyed by N, list helpers.
   Definitions only are used by Model files; the lemmas at the end are generic
   and do not mention any model. *)
From Coq Require Export List ZArith NArith Bool Lia.
From Coq Require Import ZifyBool ZifyNat ZifyN.
Export ListNotations.

Definition key := N.
Definition time := Z.          (* nanoseconds *)

Section Assoc.
  Context {V : Type}.

  Fixpoint lookup (k : key) (l : list (key * V)) : option V :=
    match l with
    | [] => None
    | (k', v) :: r => if N.eqb k k' then Some v else lookup k r
    end.

  Fixpoint remove_assoc (k : key) (l : list (key * V)) : list (key * V) :=
    match l with
    | [] => []
    | (k', v) :: r => if N.eqb k k' then remove_assoc k r else (k', v) :: remove_assoc k r
    end.

  Fixpoint update (k : key) (v : V) (l : list (key * V)) : list (key * V) :=
    match l with
    | [] => []
    | (k', v') :: r => if N.eqb k k' then (k', v) :: r else (k', v') :: update k v r
    end.

  Definition keys (l : list (key * V)) : list key := map fst l.
End Assoc.

Fixpoint remove_key (k : key) (l : list key) : list key :=
  match l with
  | [] => []
  | k' :: r => if N.eqb k k' then remove_key k r else k' :: remove_key k r
  end.

Fixpoint memk (k : key) (l : list key) : bool :=
  match l with
  | [] => false
  | k' :: r => if N.eqb k k' then true else memk k r
  end.

(* ---------------------------------------------------------------- lemmas *)

Lemma memk_In k l : memk k l = true <-> In k l.
Proof.
  induction l as [|a l IH]; cbn; [split; [discriminate|tauto]|].
  destruct (N.eqb_spec k a) as [->|Hne]; [tauto|].
  rewrite IH. split; [tauto|]. intros [H|H]; [congruence|exact H].
Qed.

Lemma memk_false k l : memk k l = false <-> ~ In k l.
Proof. rewrite <- memk_In. destruct (memk k l); split; congruence. Qed.

Lemma remove_key_In k k' l : In k' (remove_key k l) <-> In k' l /\ k' <> k.
Proof.
  induction l as [|a l IH]; cbn; [tauto|].
  destruct (N.eqb_spec k a) as [->|Hne]; cbn; rewrite IH.
  - split; [tauto|]. intros [[H|H] Hn]; [congruence|tauto].
  - split; [intros [H|H]; [subst; split; [tauto|congruence]|tauto]|tauto].
Qed.

Lemma remove_key_not_In k l : ~ In k l -> remove_key k l = l.
Proof.
  induction l as [|a l IH]; cbn; [reflexivity|]. intros H.
  destruct (N.eqb_spec k a) as [->|Hne]; [tauto|]. f_equal. apply IH. tauto.
Qed.

Lemma remove_key_NoDup k l : NoDup l -> NoDup (remove_key k l).
Proof.
  induction 1 as [|a l Hn Hd IH]; cbn; [constructor|].
  destruct (N.eqb_spec k a); [exact IH|]. constructor; [|exact IH].
  rewrite remove_key_In. tauto.
Qed.

Lemma remove_key_length_le k l : length (remove_key k l) <= length l.
Proof. induction l as [|a l IH]; cbn; [lia|]. destruct (N.eqb k a); cbn; lia. Qed.

Lemma remove_key_length_In k l : NoDup l -> In k l -> S (length (remove_key k l)) = length l.
Proof.
  induction 1 as [|a l Hn Hd IH]; cbn; [tauto|]. intros [->|Hin].
  - rewrite N.eqb_refl. rewrite remove_key_not_In by exact Hn. reflexivity.
  - destruct (N.eqb_spec k a) as [->|Hne]; [tauto|]. cbn. rewrite IH by exact Hin. reflexivity.
Qed.

Lemma remove_key_app k l1 l2 : remove_key k (l1 ++ l2) = remove_key k l1 ++ remove_key k l2.
Proof. induction l1 as [|a l IH]; cbn; [reflexivity|]. destruct (N.eqb k a); cbn; congruence. Qed.

Lemma remove_key_comm a b l : remove_key a (remove_key b l) = remove_key b (remove_key a l).
Proof.
  induction l as [|x l IH]; cbn; [reflexivity|].
  destruct (N.eqb b x) eqn:Eb, (N.eqb a x) eqn:Ea; cbn; rewrite ?Ea, ?Eb; congruence.
Qed.

Section AssocLemmas.
  Context {V : Type}.
  Implicit Types (l : list (key * V)).

  Lemma lookup_In_keys k l v : lookup k l = Some v -> In k (keys l).
  Proof.
    induction l as [|[a w] l IH]; cbn; [discriminate|].
    destruct (N.eqb_spec k a) as [->|]; [tauto|]. intros H; right; apply IH, H.
  Qed.

  Lemma lookup_None_keys k l : lookup k l = None <-> ~ In k (keys l).
  Proof.
    induction l as [|[a w] l IH]; cbn; [tauto|].
    destruct (N.eqb_spec k a) as [->|Hne]; [split; [discriminate|tauto]|].
    rewrite IH. split; [intros H [E|Hin]; [symmetry in E; tauto|tauto]|tauto].
  Qed.

  Lemma lookup_Some_keys k l : In k (keys l) -> exists v, lookup k l = Some v.
  Proof.
    intros H. destruct (lookup k l) eqn:E; [eauto|]. apply lookup_None_keys in E. tauto.
  Qed.

  Lemma keys_remove_assoc k l : keys (remove_assoc k l) = remove_key k (keys l).
  Proof.
    unfold keys. induction l as [|[a w] l IH]; cbn; [reflexivity|].
    destruct (N.eqb k a); cbn; congruence.
  Qed.

  Lemma lookup_remove_assoc k k' l :
    lookup k' (remove_assoc k l) = if N.eqb k' k then None else lookup k' l.
  Proof.
    induction l as [|[a w] l IH]; cbn; [destruct (N.eqb k' k); reflexivity|].
    destruct (N.eqb_spec k a) as [->|Hne]; cbn.
    - rewrite IH. destruct (N.eqb_spec k' a); reflexivity.
    - rewrite IH. destruct (N.eqb_spec k' a) as [->|]; [|reflexivity].
      destruct (N.eqb_spec a k); [congruence|reflexivity].
  Qed.

  Lemma keys_update k v l : keys (update k v l) = keys l.
  Proof.
    unfold keys. induction l as [|[a w] l IH]; cbn; [reflexivity|].
    destruct (N.eqb k a); cbn; congruence.
  Qed.

  Lemma lookup_update k k' v l :
    lookup k' (update k v l) =
    if N.eqb k' k then (match lookup k l with Some _ => Some v | None => None end) else lookup k' l.
  Proof.
    induction l as [|[a w] l IH]; cbn; [destruct (N.eqb k' k); reflexivity|].
    destruct (N.eqb_spec k a) as [->|Hne]; cbn.
    - destruct (N.eqb_spec k' a); reflexivity.
    - rewrite IH. destruct (N.eqb_spec k' a) as [->|]; [|reflexivity].
      destruct (N.eqb_spec a k); [congruence|reflexivity].
  Qed.

  Lemma lookup_app_new k k' v l :
    lookup k' (l ++ [(k, v)]) =
    match lookup k' l with Some x => Some x | None => if N.eqb k' k then Some v else None end.
  Proof.
    induction l as [|[a w] l IH]; cbn; [reflexivity|].
    destruct (N.eqb k' a); [reflexivity|exact IH].
  Qed.

  Lemma keys_cons k (v : V) l : keys ((k, v) :: l) = k :: keys l.
  Proof. reflexivity. Qed.
  Lemma keys_single k (v : V) : keys [(k, v)] = [k].
  Proof. reflexivity. Qed.

  Lemma keys_app l1 l2 : keys (l1 ++ l2) = keys l1 ++ keys l2.
  Proof. apply map_app. Qed.

  Lemma keys_length l : length (keys l) = length l.
  Proof. apply map_length. Qed.
End AssocLemmas.

Global Arguments keys {V} l : simpl never.
