(* Declarative reading of property C13 (capacity, victim choice, what each
   operation may remove) over a history, the outputs and the set of keys
   present after every operation, in boolean (executable) form.  It never looks
   at the model's state.  Recency is derived from the history alone: stores and
   successful lookups count as use.

   Reading of the property text, clause by clause:
   (1) "never holds more entries than its capacity"
         -> after every operation  |present| <= capacity  (and no key twice);
   (2) "inserting a new key into a full cache removes exactly one entry - an
        expired one if any exists, otherwise the least recently used, where
        both lookups and stores count as use"
         -> when a Set stores a key that was absent while |present| >= capacity,
            exactly one key disappears; if some present key is expired at that
            instant the one that disappears is expired (ANY expired one: the
            text does not say which), otherwise it is the present key whose
            last use (Set, or Get that returned a value) is the oldest;
   (3) "so an unexpired entry is never lost ..."
         -> in every other situation a key may disappear only if its entry is
            expired at that instant or it is the argument of Delete; in
            particular a Set leaves its own key present unless the entry it
            stores is already expired on arrival (negative lifetime).
   The retention clause in its global form ("... while fewer than capacity
   other keys have been used since its own last use") follows from (2)+(3):
   that is proved about this monitor, for arbitrary observations, as
   C13_monitor_retention (Proofs/CacheLru.v, monitor_retention), and directly
   for the model as C13_retention.
   Nothing is demanded about WHEN expired entries are purged, about Delete
   actually deleting or about returned values: those belong to C12.
   The present-key lists are used as sets (membership, cardinality): their
   order is irrelevant. *)
From VF Require Import Base.Prelude Model.Cache Spec.CacheSpec.
Open Scope Z_scope.

Definition use_of (o : op) (out : option Z) : option key :=
  match o, out with
  | OSet k _ _, _ => Some k
  | OGet k, Some _ => Some k
  | _, _ => None
  end.

(* recency list derived from the history: front = least recently used *)
Definition bump (k : key) (l : list key) : list key := remove_key k l ++ [k].

Definition bump_use (u : option key) (l : list key) : list key :=
  match u with Some k => bump k l | None => l end.

(* the entry the history says key k has (latest Set not followed by Delete)
   has a lifetime that elapsed strictly before `now` *)
Definition is_expired (rh : list (time * op)) (now : time) (k : key) : bool :=
  match latest_rev rh k with Some (_, e) => Z.ltb e now | None => false end.

Definition subset (a b : list key) : bool := forallb (fun x => memk x b) a.

Definition absent_from (after : list key) (x : key) : bool := negb (memk x after).

(* keys present before and not after *)
Definition removed (before after : list key) : list key :=
  filter (absent_from after) before.

Fixpoint nodupb (l : list key) : bool :=
  match l with [] => true | x :: r => negb (memk x r) && nodupb r end.

Definition present_in (before : list key) (y : key) : bool := memk y before.

(* the victim of an insertion into a full cache: an expired entry if there is
   one, otherwise the least recently used of the entries present *)
Definition victim_ok (rh : list (time * op)) (lru before : list key) (now : time) (x : key) : bool :=
  match filter (is_expired rh now) before with
  | [] => match filter (present_in before) lru with y :: _ => N.eqb x y | [] => false end
  | ex => memk x ex
  end.

Definition deleted_or_expired (rh : list (time * op)) (now : time) (k x : key) : bool :=
  N.eqb k x || is_expired rh now x.

Definition step_ok (capacity : nat) (rh : list (time * op)) (lru before : list key)
           (now : time) (o : op) (out : option Z) (after : list key) : bool :=
  nodupb after && Nat.leb (length after) capacity &&
  match o with
  | OSet k _ _ =>
      subset after (k :: before) &&
      (if memk k after && negb (memk k before) && Nat.leb capacity (length before)
       then (* a new key went into a full cache *)
            match removed before after with
            | [x] => victim_ok rh lru before now x
            | _ => false
            end
       else (* overwrite, or room left, or nothing stored: only expired entries may go;
               "expired" is read after this Set, so that it speaks of the entry just stored *)
            (memk k after || is_expired ((now, o) :: rh) now k)
            && forallb (is_expired ((now, o) :: rh) now) (removed before after))
  | OGet _ | OCleanup =>
      subset after before && forallb (is_expired rh now) (removed before after)
  | ODel k =>
      subset after before && forallb (deleted_or_expired rh now k) (removed before after)
  end.

Fixpoint check_lru_from (capacity : nat) (rh : list (time * op)) (lru before : list key)
         (h : list (time * op)) (outs : list (option Z)) (presents : list (list key)) : bool :=
  match h, outs, presents with
  | [], [], [] => true
  | (t, o) :: h', out :: outs', after :: presents' =>
      step_ok capacity rh lru before t o out after
      && check_lru_from capacity ((t, o) :: rh) (bump_use (use_of o out) lru) after h' outs' presents'
  | _, _, _ => false
  end.

Definition check_lru (capacity : nat) (h : list (time * op)) (outs : list (option Z))
           (presents : list (list key)) : bool :=
  check_lru_from capacity [] [] [] h outs presents.
