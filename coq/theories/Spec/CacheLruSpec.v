(* Declarative reading of property C13 (capacity, victim choice, what each
   operation may remove) over a history, the outputs and the set of keys
   present after every operation.  Recency is derived from the history alone:
   stores and successful lookups count as use. *)
From VF Require Import Base.Prelude Model.Cache Spec.CacheSpec.
Open Scope Z_scope.

Definition use_of (o : op) (out : option Z) : option key :=
  match o, out with
  | OSet k _ _, _ => Some k
  | OGet k, Some _ => Some k
  | _, _ => None
  end.

(* recency list derived from the history: front = least recently used *)
Definition bump (k : key) (l : list key) : list key := remove_key k l ++ [k].

Definition bump_use (u : option key) (l : list key) : list key :=
  match u with Some k => bump k l | None => l end.

Definition is_expired (rh : list (time * op)) (now : time) (k : key) : bool :=
  match latest_rev rh k with Some (_, e) => Z.ltb e now | None => false end.

Definition subset (a b : list key) : bool := forallb (fun x => memk x b) a.

Definition removed (before after : list key) : list key :=
  filter (fun x => negb (memk x after)) before.

Fixpoint nodupb (l : list key) : bool :=
  match l with [] => true | x :: r => negb (memk x r) && nodupb r end.

Definition is_nil (l : list key) : bool := match l with [] => true | _ => false end.

Definition present_in (before : list key) (y : key) : bool := memk y before.

(* the victim of an insertion into a full cache: an expired entry if there is
   one, otherwise the least recently used of the entries present *)
Definition victim_ok (rh : list (time * op)) (lru before : list key) (now : time) (x : key) : bool :=
  match filter (is_expired rh now) before with
  | [] => match filter (present_in before) lru with y :: _ => N.eqb x y | [] => false end
  | ex => memk x ex
  end.

Definition step_ok (capacity : nat) (rh : list (time * op)) (lru before : list key)
           (now : time) (o : op) (out : option Z) (after : list key) : bool :=
  nodupb after && Nat.leb (length after) capacity &&
  match o with
  | OSet k _ _ =>
      memk k after && subset after (k :: before) &&
      (if memk k before then is_nil (removed before after)
       else if Nat.leb capacity (length before)
            then match removed before after with
                 | [x] => victim_ok rh lru before now x
                 | _ => false
                 end
            else is_nil (removed before after))
  | OGet k =>
      subset after before &&
      (match out with
       | Some _ => is_nil (removed before after)
       | None => forallb (fun x => N.eqb x k && is_expired rh now k) (removed before after)
       end)
  | ODel k =>
      subset after before && negb (memk k after) && forallb (N.eqb k) (removed before after)
  | OCleanup =>
      subset after before && forallb (is_expired rh now) (removed before after)
  end.

Fixpoint check_lru_from (capacity : nat) (rh : list (time * op)) (lru before : list key)
         (h : list (time * op)) (outs : list (option Z)) (presents : list (list key)) : bool :=
  match h, outs, presents with
  | [], [], [] => true
  | (t, o) :: h', out :: outs', after :: presents' =>
      step_ok capacity rh lru before t o out after
      && check_lru_from capacity ((t, o) :: rh) (bump_use (use_of o out) lru) after h' outs' presents'
  | _, _, _ => false
  end.

Definition check_lru (capacity : nat) (h : list (time * op)) (outs : list (option Z))
           (presents : list (list key)) : bool :=
  check_lru_from capacity [] [] [] h outs presents.
