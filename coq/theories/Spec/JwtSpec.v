(* Property C02 read from its text only, as a boolean monitor over a token
   record, a provider key set, the configuration and the instant of
   verification.  It is applied (a) to the model's verdict in the theorems and
   (b) to the Go implementation's observed verdict by the correspondence check.

   "A token is accepted as an ID token (on first presentation) if and only if
    it is a three-part compact JWS                              -> well_formed
    whose header names an RS/PS/ES 256/384/512 algorithm        -> named_alg
    of the same family as the provider key selected by its kid  -> find_key, family_matches
    whose signature verifies over the exact header.payload bytes -> sig_genuine
    whose iss equals the discovered issuer                      -> iss_is
    whose aud is or contains the client ID                      -> aud_has
    whose exp is no earlier than two minutes ago                -> exp_in_time
    whose iat (and nbf if present) is no later than ten seconds ahead -> iat/nbf_in_time
    and whose sub is a non-empty string."                       -> sub_nonempty

   The tolerances are the literals of the text (120 s, 10 s), in nanoseconds.
   A NumericDate is read at whole-second granularity (the record carries the
   integer part of the number); the value itself is NOT passed through any
   machine-integer conversion here. *)
From VF Require Import Base.Prelude Model.Jwt.
Open Scope Z_scope.

Definition spec_skew_future : Z := 120 * 1000000000.
Definition spec_skew_past : Z := 10 * 1000000000.

Definition well_formed (t : token) : bool :=
  t_parts3 t && t_hdr_ok t && t_claims_ok t && t_sig_b64_ok t.

(* RS/PS go with an RSA key, ES with an EC key; the key must be a usable
   RSA or P-256/384/521 key *)
Definition family_matches (k : jwk) (f : algfam) : bool :=
  k_pem_ok k &&
  match k_kty k, f with
  | KRSA, FRS | KRSA, FPS | KEC, FES => true
  | _, _ => false
  end.

(* strict: the decoded signature value is the canonical encoding of a signature
   made with this key and this algorithm over the presented signing input; any
   other byte string (including re-encodings of the same integers) is not *)
Definition sig_genuine (k : jwk) (a : algname) (s : sigdesc) : bool :=
  match s_form s with SCanon => sig_matches k a s | _ => false end.

Definition spec_sig (jw : list jwk) (t : token) : bool :=
  match t_alg t, t_kid t with
  | Some (AStd f h), Some kid =>
      match find_key kid jw with
      | Some k => family_matches k f && sig_genuine k (AStd f h) (t_sig t)
      | None => false
      end
  | _, _ => false
  end.

Definition iss_is (cfg : config) (t : token) : bool :=
  match t_iss t with Some i => N.eqb i (c_issuer cfg) | None => false end.

Definition aud_has (cfg : config) (t : token) : bool :=
  match t_aud t with
  | AudStr s => N.eqb s (c_client cfg)
  | AudArr l => existsb (is_client (c_client cfg)) l
  | AudAbsent | AudOther => false
  end.

(* exp no earlier than two minutes ago:  now - 120 s <= exp *)
Definition exp_in_time (now : time) (t : token) : bool :=
  match t_exp t with
  | Num e => Z.leb (now - spec_skew_future) (e * ns_per_s)
  | _ => false
  end.

(* iat no later than ten seconds ahead:  iat <= now + 10 s *)
Definition iat_in_time (now : time) (t : token) : bool :=
  match t_iat t with
  | Num i => Z.leb (i * ns_per_s) (now + spec_skew_past)
  | _ => false
  end.

(* nbf, if present, likewise; present with a wrong type is a wrong claim type *)
Definition nbf_in_time (now : time) (t : token) : bool :=
  match t_nbf t with
  | NumAbsent => true
  | Num n => Z.leb (n * ns_per_s) (now + spec_skew_past)
  | NumOther => false
  end.

Definition sub_nonempty (t : token) : bool :=
  match t_sub t with SubStr true => true | _ => false end.

Definition spec (cfg : config) (jw : list jwk) (now : time) (t : token) : bool :=
  well_formed t && spec_sig jw t && iss_is cfg t && aud_has cfg t
  && exp_in_time now t && iat_in_time now t && nbf_in_time now t && sub_nonempty t.

(* the clock reads an instant within +-2^61 seconds of 1970 (premise of the
   theorems about the repaired code, whose time conversion saturates at 2^62 s) *)
Definition two61 : Z := 2305843009213693952.
Definition sane_now (now : time) : Prop := - two61 * ns_per_s <= now <= two61 * ns_per_s.
