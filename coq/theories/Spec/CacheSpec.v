(* Declarative reading of properties C12 / C13 over operation histories, in
   boolean (executable) form.  These functions never look at the model's
   state: they read a history and the outputs some implementation produced
   for it.  They are applied (a) to the model's outputs in the theorems and
   (b) to the Go implementation's observed outputs by the correspondence
   check, where a `false` is a concrete violation. *)
From VF Require Import Base.Prelude Model.Cache.
Open Scope Z_scope.

(* What the history (most recent step first) says about key k:
   the value and expiry instant of the most recent Set not followed by Delete *)
Fixpoint latest_rev (rh : list (time * op)) (k : key) : option (Z * time) :=
  match rh with
  | [] => None
  | (t, OSet k' v ttl) :: r => if N.eqb k k' then Some (v, t + ttl) else latest_rev r k
  | (_, ODel k') :: r => if N.eqb k k' then None else latest_rev r k
  | _ :: r => latest_rev r k
  end.

Definition set_key (ev : time * op) : list key :=
  match snd ev with OSet k _ _ => [k] | _ => [] end.

(* keys ever stored, without repetition *)
Definition stored_keys (rh : list (time * op)) : list key :=
  nodup N.eq_dec (flat_map set_key rh).
Global Arguments stored_keys rh : simpl never.

(* C12 soundness clause for one lookup: a returned value is the latest stored,
   not deleted since, and its lifetime has not elapsed *)
Definition sound_get (rh : list (time * op)) (now : time) (k : key) (out : option Z) : bool :=
  match out with
  | None => true
  | Some v => match latest_rev rh k with
              | Some (v', e) => Z.eqb v v' && Z.leb now e
              | None => false
              end
  end.

(* C12 completeness clause: while no more than `capacity` keys were ever
   stored, a live latest value must be returned *)
Definition complete_get (capacity : nat) (rh : list (time * op)) (now : time) (k : key)
           (out : option Z) : bool :=
  match latest_rev rh k with
  | Some (v, e) =>
      if Z.leb now e && Nat.leb (length (stored_keys rh)) capacity
      then match out with Some v' => Z.eqb v v' | None => false end
      else true
  | None => true
  end.

(* walk the history, carrying the reversed prefix *)
Fixpoint check_from (capacity : nat) (rh : list (time * op)) (h : list (time * op))
         (outs : list (option Z)) : bool :=
  match h, outs with
  | [], [] => true
  | (t, o) :: r, out :: outs' =>
      (match o with
       | OGet k => sound_get rh t k out && complete_get capacity rh t k out
       | _ => match out with None => true | Some _ => false end
       end) && check_from capacity ((t, o) :: rh) r outs'
  | _, _ => false
  end.

Definition check_history (capacity : nat) (h : list (time * op)) (outs : list (option Z)) : bool :=
  check_from capacity [] h outs.

(* non-decreasing / strictly increasing instants *)
Fixpoint times_from (strict : bool) (t0 : time) (h : list (time * op)) : bool :=
  match h with
  | [] => true
  | (t, _) :: r => (if strict then Z.ltb t0 t else Z.leb t0 t) && times_from strict t r
  end.

Definition monotone (h : list (time * op)) : bool :=
  match h with [] => true | (t, _) :: r => times_from false t r end.
Definition strictly_monotone (h : list (time * op)) : bool :=
  match h with [] => true | (t, _) :: r => times_from true t r end.
