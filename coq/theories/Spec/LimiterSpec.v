(* Property C19 as a boolean monitor over what SOME implementation decided:
   the configured limit n (verifications per second) and the list of
   observations (arrival instant in ns, admitted?) in arrival order.  Nothing
   here looks at Model/Limiter.v.

   "Full token verifications are admitted at a sustained rate of at least the
    configured rateLimit per second, and never more than rateLimit plus one
    burst of rateLimit in any one-second window."

   (upper)  in every window [t, t + 1 s) at most n + n verifications are
            admitted.  Because instants are non-decreasing, the admitted
            arrivals of any window are those of the window that starts at the
            first arrival inside it, so the monitor only walks the windows that
            start at an arrival (upper_ok); `admitted_in` is the definition for
            an arbitrary window start and is what the theorems are stated with.

   (lower)  "at a sustained rate of at least n per second" is read against the
            REFERENCE bucket the statement describes: n tokens per second, room
            for one burst of n, full at the start, serving greedily (it admits
            an arrival whenever it holds a whole token; exact rational
            arithmetic, here in units of 10^-9 token).  Among all admission
            policies that never exceed that bucket the greedy one admits the
            most on every prefix, so its count is exactly "what a sustained n/s
            with one burst of n can carry" for the offered arrivals.
            The monitor requires, on every prefix of the arrivals,
                #admitted by the implementation >= #admitted by the reference.
            This is deliberately the COUNT formulation and not the pointwise one
            ("whenever the reference admits, so does the implementation"): the
            pointwise form is strictly stronger (it implies the count form) and
            would reject implementations the text allows — e.g. one that
            admitted an extra verification earlier (which the upper clause
            permits) and is therefore one token short at an instant where the
            reference, having refused that one, still holds it.  The statement
            speaks of a rate, i.e. of how many are admitted, not of which.
            Refused arrivals are dropped, not queued (both in the reference and
            in the implementation), so nothing is demanded for traffic that was
            never offered.

   Arrival instants must be non-decreasing and >= 0 (0 = the instant the
   limiter was built); `arrivals_ok` is part of the monitor so that an
   observation list violating it is not silently accepted. *)
From VF Require Import Base.Prelude.
Open Scope Z_scope.

Definition second : Z := 1000000000.       (* ns *)
Definition whole : Z := 1000000000.        (* one token in the reference's units of 10^-9 token *)

Definition obs := (time * bool)%type.

(* ---- arrival instants *)

Fixpoint sorted_from (t0 : time) (l : list time) : bool :=
  match l with
  | [] => true
  | t :: r => Z.leb t0 t && sorted_from t r
  end.

Definition arrivals_ok (os : list obs) : bool := sorted_from 0 (map fst os).

(* ---- (upper) *)

Definition b2z (b : bool) : Z := if b then 1 else 0.

(* admitted arrivals inside the window [t, t + 1 s) *)
Definition in_window (t : time) (o : obs) : bool :=
  snd o && Z.leb t (fst o) && Z.ltb (fst o) (t + second).

Fixpoint admitted_in (t : time) (os : list obs) : Z :=
  match os with
  | [] => 0
  | o :: r => b2z (in_window t o) + admitted_in t r
  end.

(* admitted arrivals before the instant `lim`, stopping at the first arrival at
   or after it (instants are non-decreasing) *)
Fixpoint count_until (lim : time) (os : list obs) : Z :=
  match os with
  | [] => 0
  | o :: r => if Z.ltb (fst o) lim then b2z (snd o) + count_until lim r else 0
  end.

(* every window that starts at an arrival *)
Fixpoint upper_ok (n : Z) (os : list obs) : bool :=
  match os with
  | [] => true
  | o :: r => Z.leb (count_until (fst o + second) os) (n + n) && upper_ok n r
  end.

(* ---- (lower): the reference bucket, n tokens/s, room for n, full at instant 0 *)

Record refb := mkRef { rb_tokens : Z; rb_last : time }.

Definition ref_init (n : Z) : refb := mkRef (n * whole) 0.

Definition ref_level (n : Z) (now : time) (rb : refb) : Z :=
  Z.min (n * whole) (rb_tokens rb + n * (now - rb_last rb)).

(* greedy service: an arrival is let through exactly when a whole token is there *)
Definition ref_step (n : Z) (now : time) (rb : refb) : refb * bool :=
  let lv := ref_level n now rb in
  if Z.leb whole lv then (mkRef (lv - whole) now, true) else (mkRef lv now, false).

(* k = #admitted by the implementation - #admitted by the reference, so far *)
Fixpoint lower_from (n : Z) (rb : refb) (k : Z) (os : list obs) : bool :=
  match os with
  | [] => true
  | o :: r =>
      let k' := k + b2z (snd o) - b2z (snd (ref_step n (fst o) rb)) in
      Z.leb 0 k' && lower_from n (fst (ref_step n (fst o) rb)) k' r
  end.

Definition lower_ok (n : Z) (os : list obs) : bool := lower_from n (ref_init n) 0 os.

(* what the reference admits, for reading replays *)
Fixpoint ref_trace (n : Z) (rb : refb) (l : list time) : list bool :=
  match l with
  | [] => []
  | t :: r => snd (ref_step n t rb) :: ref_trace n (fst (ref_step n t rb)) r
  end.

(* ---- the monitor *)

Definition monitor (n : Z) (os : list obs) : bool :=
  arrivals_ok os && upper_ok n os && lower_ok n os.

Global Arguments second : simpl never.
Global Arguments whole : simpl never.
