(* Property monitors over observed world histories: the boolean form of the
   properties C01, C03, C04, C06, C08, C10, C11, C15, C16, C17 (and the
   response-level clauses of C07, C09, C18).  A monitor reads what a request
   carried (its cookies decoded with the deployment key), the provider's answer
   and the response some implementation gave; it never runs the ladder.  The
   theorems prove that Model/Middleware.serve satisfies them for every input;
   the correspondence check applies them to the Go implementation's responses. *)
From VF Require Import Base.Prelude Model.Cache Model.Session Model.Middleware Corr.WorldCorr.
From VF Require Export Spec.Url.
Open Scope N_scope.

Section Monitors.
  Variable E : env.
  Variable cfg : config.
  Variable auth_url : istr.        (* discovered authorization endpoint *)
  Variable end_session : istr.     (* discovered end-session endpoint (0: none) *)

  Definition NCm := nchunks E.

  (* ---------------------------------------------------------------- reading a request *)

  Definition carried (now : time) (rq : request) : sdata := load (c_key cfg) now (q_jar rq).

  Definition is_callback (rq : request) : bool := N.eqb (q_path rq) (c_callback cfg).
  Definition is_logout (rq : request) : bool := N.eqb (q_path rq) (c_logout cfg).
  Definition is_excluded (rq : request) : bool := excluded E cfg (q_path rq).
  Definition gated (rq : request) : bool :=
    negb (is_excluded rq) && negb (is_callback rq) && negb (is_logout rq).

  Definition forwarded (r : response) : bool := match r_fwd r with Some _ => true | None => false end.

  Definition session_token (now : time) (rq : request) : tval := get_access NCm (carried now rq).
  Definition session_refresh (now : time) (rq : request) : tval := get_refresh NCm (carried now rq).

  (* the request carries cookies of this deployment holding a verified, unexpired ID token *)
  Definition carries_valid_session (now : time) (rq : request) : bool :=
    authenticated now (carried now rq) &&
    match session_token now rq with
    | TTok t => accept_at now (tok E t)
    | _ => false
    end.

  (* this step replaced the token by a successful refresh with the carried refresh token *)
  Definition refreshed_ok (now : time) (rq : request) (ans : option answer) (r : response) : bool :=
    match ans, r_calls r with
    | Some (AOk id _), [PRefresh rt] =>
        negb (N.eqb id 0) && accept_at now (tok E id)
        && tval_eqb rt (session_refresh now rq) && negb (tval_eqb rt TEmpty)
    | _, _ => false
    end.

  Definition is_auth_redirect (r : response) : bool :=
    N.eqb (r_status r) 302 &&
    match r_loc r with Some (LAuth b _ _ _ _ _) => N.eqb b auth_url | _ => false end.

  (* what the response's cookies store as ID token / refresh token *)
  Definition payload_of (n : cname) (l : list setcookie) : option payload :=
    match filter (fun sc => cname_eqb (fst (fst sc)) n && negb (snd sc)) l with
    | [] => None
    | x :: r => Some (snd (fst (last (x :: r) x)))
    end.

  Fixpoint chunk_payloads (mk : nat -> cname) (l : list setcookie) (i fuel : nat) : list payload :=
    match fuel with
    | O => []
    | S f => match payload_of (mk i) l with
             | Some p => p :: chunk_payloads mk l (S i) f
             | None => []
             end
    end.

  Definition emitted_token (base : cname) (mk : nat -> cname) (r : response) : option tval :=
    match payload_of base (r_cookies r) with
    | Some p => Some (read_token NCm p (chunk_payloads mk (r_cookies r) 0 (length (r_cookies r))))
    | None => None
    end.

  Definition emitted_id (r : response) : option tval := emitted_token CAcc CAccChunk r.
  Definition emitted_rt (r : response) : option tval := emitted_token CRef CRefChunk r.

  Definition emitted_main (r : response) : option payload := payload_of CMain (r_cookies r).

  (* the response stores a main cookie marked authenticated *)
  Definition emits_auth (r : response) : bool :=
    match emitted_main r with Some p => get_bool 1 p | None => false end.

  (* ... that is not merely the carried one written back unchanged *)
  Definition main_rewritten (now : time) (rq : request) (r : response) : bool :=
    match emitted_main r with
    | Some p => negb (payload_eqb p (s_main (carried now rq)))
    | None => false
    end.

  (* the response stores an ID token other than the one the request carried *)
  Definition new_token (now : time) (rq : request) (r : response) : bool :=
    match emitted_id r with
    | Some t => negb (tval_eqb t TEmpty) && negb (tval_eqb t (session_token now rq))
    | None => false
    end.

  (* the response establishes (or re-establishes) an authenticated session *)
  Definition establishes (now : time) (rq : request) (r : response) : bool :=
    emits_auth r && (main_rewritten now rq r || new_token now rq r).

  (* ---------------------------------------------------------------- C01 *)

  Definition client_headers_untouched (rq : request) (r : response) : bool :=
    match r_fwd r with
    | Some h => hdrs_eqb h (map (fun c => (1000 + c, HStr 0)) (q_client_ids rq))
    | None => false
    end.

  Definition c01_gate (now : time) (rq : request) (ans : option answer) (r : response) : bool :=
    if is_excluded rq then client_headers_untouched rq r && match r_cookies r with [] => true | _ => false end
    else if gated rq then
      if carries_valid_session now rq || refreshed_ok now rq ans r then true
      else negb (forwarded r) && (is_auth_redirect r || N.leb 400 (r_status r))
    else negb (forwarded r).

  (* a session is only ever issued at the end of a successful login or refresh,
     and stores the token that was verified at that moment *)
  Definition c01_issue (now : time) (rq : request) (ans : option answer) (r : response) : bool :=
    if establishes now rq r || new_token now rq r then
      match ans with
      | Some (AOk id _) =>
          negb (N.eqb id 0) && accept_at now (tok E id)
          && match emitted_id r with Some (TTok t) => N.eqb t id | _ => false end
          && match r_calls r with
             | [PExchange _ _ _ _] => is_callback rq
             | [PRefresh _] => refreshed_ok now rq ans r
             | _ => false
             end
      | _ => false
      end
    else true.

  Definition c01_step (now : time) (rq : request) (ans : option answer) (r : response) : bool :=
    c01_gate now rq ans r && c01_issue now rq ans r.

  (* ---------------------------------------------------------------- C03 (per step) *)

  Definition c03_step (now : time) (rq : request) (ans : option answer) (r : response) : bool :=
    if is_callback rq then
      let m := s_main (carried now rq) in
      (if establishes now rq r then
         negb (N.eqb (q_state rq) 0) && N.eqb (q_state rq) (get_str 3 m)
         && N.eqb (q_error rq) 0 && negb (N.eqb (q_code rq) 0)
         && match ans, r_calls r with
            | Some (AOk id _), [PExchange code _ _ v] =>
                N.eqb code (q_code rq) && N.eqb v (get_str 5 m)
                && negb (N.eqb (get_str 4 m) 0) && N.eqb (ti_nonce (tok E id)) (get_str 4 m)
                && (negb (c_pkce cfg) || true)
            | _, _ => false
            end
         && match emitted_main r with    (* state, nonce and verifier are consumed *)
            | Some p => N.eqb (get_str 3 p) 0 && N.eqb (get_str 4 p) 0 && N.eqb (get_str 5 p) 0
            | None => false
            end
       else true)
      (* without a pending login in the cookies the token endpoint is not contacted *)
      && (if N.eqb (get_str 3 m) 0 then match r_calls r with [] => true | _ => false end else true)
      (* at most one token-endpoint call, and only with a code *)
      && match r_calls r with
         | [] => true
         | [PExchange _ _ _ _] => negb (N.eqb (q_code rq) 0) && N.eqb (q_error rq) 0
         | _ => false
         end
    else true.

  (* ---------------------------------------------------------------- C06 *)

  Definition domain_ok (email : istr) : bool :=
    match c_domains cfg with
    | [] => true
    | ds => match split_at (bytes_of E email) with
            | [_; d] => existsb (domain_listed E d) ds
            | _ => false
            end
    end.

  Definition claim_strings (t : tval) : list istr :=
    match t with
    | TTok s =>
        (match ti_groups (tok E s) with ClArr l => strings_of l | _ => [] end)
        ++ (match ti_roles (tok E s) with ClArr l => strings_of l | _ => [] end)
    | _ => []
    end.

  Definition claims_well_typed (t : tval) : bool :=
    match t with
    | TTok s => ti_claims (tok E s)
                && match ti_groups (tok E s) with ClNotArray => false | _ => true end
                && match ti_roles (tok E s) with ClNotArray => false | _ => true end
    | _ => false
    end.

  Definition roles_ok (t : tval) : bool :=
    match c_roles cfg with
    | [] => true
    | rs => claims_well_typed t && existsb (fun x => memk x rs) (claim_strings t)
    end.

  (* the identity a forwarded request is served under: the refreshed token's when
     this step refreshed, otherwise the carried session's *)
  Definition effective_token (now : time) (rq : request) (ans : option answer) (r : response) : tval :=
    match ans, r_calls r with
    | Some (AOk id _), [PRefresh _] => TTok id
    | _, _ => session_token now rq
    end.

  Definition effective_email (now : time) (rq : request) (ans : option answer) (r : response) : istr :=
    match ans, r_calls r with
    | Some (AOk id _), [PRefresh _] => ti_email (tok E id)
    | _, _ => get_str 6 (s_main (carried now rq))
    end.

  Definition c06_step (now : time) (rq : request) (ans : option answer) (r : response) : bool :=
    (if gated rq && forwarded r then
       let e := effective_email now rq ans r in
       negb (N.eqb e 0) && domain_ok e && roles_ok (effective_token now rq ans r)
     else true)
    && (* a login is accepted only for an allowed e-mail taken from the verified token,
          and the stored e-mail is that token's *)
       (if establishes now rq r then
          match ans, emitted_main r with
          | Some (AOk id _), Some p =>
              negb (N.eqb (ti_email (tok E id)) 0)
              && (negb (is_callback rq) || domain_ok (ti_email (tok E id)))   (* a LOGIN is accepted only for an allowed e-mail;
                                                                                   after a refresh the decision is the forwarding clause above *)
              && N.eqb (get_str 6 p) (ti_email (tok E id))
          | _, _ => false
          end
        else true).

  (* ---------------------------------------------------------------- C08 *)

  (* the stored ID token is expired or within the grace period, and a refresh token is stored *)
  Definition refresh_due (now : time) (rq : request) : bool :=
    let sd := carried now rq in
    authenticated now sd
    && negb (tval_eqb (session_refresh now rq) TEmpty)
    && match session_token now rq with
       | TTok t =>
           let ti := tok E t in
           ti_static ti && (negb (accept_at now ti) || Z.ltb (ti_exp ti * sec)%Z (now + c_grace cfg)%Z)
       | _ => false
       end.

  Definition refresh_answer_good (now : time) (ans : option answer) : bool :=
    match ans with
    | Some (AOk id _) => negb (N.eqb id 0) && accept_at now (tok E id) && negb (N.eqb (ti_email (tok E id)) 0)
    | _ => false
    end.

  Definition hdr (c : N) (h : list (N * hval)) : option hval := lookup c h.

  Definition c08_step (now : time) (rq : request) (ans : option answer) (r : response) : bool :=
    if gated rq && refresh_due now rq then
      (* exactly one refresh grant, with the stored refresh token *)
      match r_calls r with
      | [PRefresh rt] => tval_eqb rt (session_refresh now rq)
      | _ => false
      end
      &&
      (if refresh_answer_good now ans then
         match ans with
         | Some (AOk id newrt) =>
             (* stored: the new ID token, the new refresh token or else the old one, authenticated *)
             emits_auth r
             && match emitted_id r with Some (TTok t) => N.eqb t id | _ => false end
             && match emitted_rt r with
                | Some t => tval_eqb t (if N.eqb newrt 0 then session_refresh now rq else TTok newrt)
                | None => false
                end
             (* forwarded under the new identity, subject to the allow-lists *)
             && (if domain_ok (ti_email (tok E id)) && roles_ok (TTok id)
                 then (match r_fwd r with
                       | Some h =>
                           match hdr 1 h, hdr 2 h, hdr 3 h with
                           | Some (HStr a), Some (HStr b), Some (HStr c) =>
                               N.eqb a (ti_email (tok E id)) && N.eqb b (ti_email (tok E id)) && N.eqb c id
                           | _, _, _ => false
                           end
                       | None => q_options rq && negb (N.eqb (q_origin rq) 0)   (* answered CORS preflight *)
                       end)
                 else negb (forwarded r))
         | _ => false
         end
       else
         negb (forwarded r) && negb (establishes now rq r)
         && (if q_json rq then N.eqb (r_status r) 401 else is_auth_redirect r)
         && match ans with
            | Some (AErr true) =>      (* a refresh token reported invalid is removed from the session *)
                match emitted_rt r with Some TEmpty => true | _ => false end
            | _ => true
            end)
    else true.

  (* ---------------------------------------------------------------- C10 *)

  Definition identity_hdr (c : N) : bool :=
    (N.leb 1 c && N.leb c 5) || existsb (fun n => N.eqb c (100 + n)) (c_templates cfg).

  Definition header_ok (now : time) (rq : request) (ans : option answer) (r : response) (cv : N * hval) : bool :=
    let '(c, v) := cv in
    let t := effective_token now rq ans r in
    let e := effective_email now rq ans r in
    if N.leb 1000 c then negb (identity_hdr (c - 1000))     (* a client value survived: never under an identity name *)
    else if N.eqb c 1 || N.eqb c 2 then hval_eqb v (HStr e)
    else if N.eqb c 3 then match t with TTok s => hval_eqb v (HStr s) | _ => false end
    else if N.eqb c 4 then
      match t with
      | TTok s => match ti_groups (tok E s) with
                  | ClArr l => claims_well_typed t && hval_eqb v (HList (strings_of l))
                  | _ => false
                  end
      | _ => false
      end
    else if N.eqb c 5 then
      match t with
      | TTok s => match ti_roles (tok E s) with
                  | ClArr l => claims_well_typed t && hval_eqb v (HList (strings_of l))
                  | _ => false
                  end
      | _ => false
      end
    else if N.leb 100 c && N.ltb c 1000 then
      match t with
      | TTok s => match tmpl E (c - 100) s with Some x => hval_eqb v (HStr x) | None => false end
      | _ => false
      end
    else true.

  Definition c10_step (now : time) (rq : request) (ans : option answer) (r : response) : bool :=
    if gated rq then
      match r_fwd r with
      | Some h => forallb (header_ok now rq ans r) h
      | None => true
      end
    else true.

  (* ---------------------------------------------------------------- C11 (per step: the logout response) *)

  Definition expected_post_logout (rq : request) (l : location) : bool :=
    if c_post_logout_abs cfg
    then match l with LPostAbs u => N.eqb u (c_post_logout cfg) | _ => false end
    else match l with
         | LPostRel s h u => N.eqb s (q_scheme rq) && N.eqb h (q_host rq) && N.eqb u (c_post_logout cfg)
         | _ => false
         end.

  Definition all_empty_payloads (r : response) : bool :=
    forallb (fun sc : setcookie => match snd (fst sc) with [] => true | _ => false end) (r_cookies r).

  Definition covers (r : response) (n : cname) : bool :=
    existsb (fun sc : setcookie => cname_eqb (fst (fst sc)) n) (r_cookies r).

  Fixpoint covers_chunks (r : response) (mk : nat -> cname) (i n : nat) : bool :=
    match n with
    | O => true
    | S n' => covers r (mk i) && covers_chunks r mk (S i) n'
    end.

  Definition c11_step (now : time) (rq : request) (r : response) : bool :=
    if is_logout rq then
      N.eqb (r_status r) 302
      && negb (forwarded r)
      (* every cookie the middleware would read from this browser is replaced by an empty one *)
      && all_empty_payloads r
      && covers r CMain && covers r CAcc && covers r CRef
      && covers_chunks r CAccChunk 0 (length (s_achunks (carried now rq)))
      && covers_chunks r CRefChunk 0 (length (s_rchunks (carried now rq)))
      && match r_loc r with
         | Some (LEndSession b hint post) =>
             N.eqb b end_session && negb (N.eqb end_session 0)
             && tval_eqb hint (session_token now rq) && negb (tval_eqb hint TEmpty)
             && expected_post_logout rq post
         | Some l =>
             expected_post_logout rq l
             && (N.eqb end_session 0 || tval_eqb (session_token now rq) TEmpty)
         | None => false
         end
    else true.

  (* ---------------------------------------------------------------- C15 *)

  Definition c15_step (rq : request) (r : response) : bool :=
    if N.leb 300 (r_status r) && N.ltb (r_status r) 400 then
      match r_loc r with
      | Some (LAuth b _ _ _ _ _) => N.eqb b auth_url && negb (N.eqb auth_url 0)
      | Some (LEndSession b _ post) => N.eqb b end_session && negb (N.eqb end_session 0) && expected_post_logout rq post
      | Some (LPostAbs u) => expected_post_logout rq (LPostAbs u)
      | Some (LPostRel s h u) => expected_post_logout rq (LPostRel s h u)
      | Some (LPath p) => same_origin_path (bytes_of E p)
      | None => false
      end
    else match r_loc r with None => true | Some _ => false end.

  (* ---------------------------------------------------------------- C16, C18, C09 (response-level flags) and C17 *)

  Definition no_flag (f : N) (r : response) : bool := negb (memk f (r_flags r)).

  Definition c16_step (r : response) : bool :=
    no_flag 1 r &&
    match r_body r with
    | BHtml _ | BJson _ => N.leb 400 (r_status r)
    | _ => true
    end.

  Definition c18_step (r : response) : bool := no_flag 2 r && no_flag 3 r.
  Definition c09_step (r : response) : bool := no_flag 4 r && no_flag 8 r.

  (* 5xx is tolerated only on the callback when the PROVIDER interaction failed:
     the code exchange was refused, or the returned ID token is unacceptable *)
  Definition provider_failure (now : time) (rq : request) (ans : option answer) (r : response) : bool :=
    is_callback rq &&
    match r_calls r, ans with
    | [PExchange _ _ _ _], Some (AOk id _) =>
        let ti := tok E id in
        N.eqb id 0 || negb (accept_at now ti) || N.eqb (ti_nonce ti) 0 || N.eqb (ti_email ti) 0
        || negb (N.eqb (ti_nonce ti) (get_str 4 (s_main (carried now rq))))
    | [PExchange _ _ _ _], _ => true
    | _, _ => false
    end.

  Definition unusable (n : cname) (rq : request) : bool :=
    match jar_get n (q_jar rq) with
    | Some c => match decode (c_key cfg) n c with Some _ => false | None => true end
    | None => false
    end.

  Definition c17_step (now : time) (rq : request) (ans : option answer) (r : response) : bool :=
    no_flag 5 r && negb (N.eqb (r_status r) 999)
    && (N.ltb (r_status r) 500 || provider_failure now rq ans r)
    && (* an unusable main cookie on a gated path: login redirect whose cookies replace every unusable cookie *)
       (if gated rq && unusable CMain rq && negb (refreshed_ok now rq ans r) && negb (q_json rq && forwarded r)
        then (is_auth_redirect r || (q_json rq && N.eqb (r_status r) 401))
             && (if is_auth_redirect r then covers r CMain && covers r CAcc && covers r CRef else true)
        else true).

  (* C17, sessions older than the 24-hour limit: a main cookie that opens under the key but whose session began more
     than 24 h before the request is unusable like any other -- on a gated path the answer is the login redirect
     (401 for a JSON client), never the application *)
  Definition overage (now : time) (rq : request) : bool :=
    match jar_get CMain (q_jar rq) with
    | Some c => match decode (c_key cfg) CMain c with Some p => session_too_old now p | None => false end
    | None => false
    end.

  Definition c17_age_step (now : time) (rq : request) (r : response) : bool :=
    if gated rq && overage now rq
    then negb (forwarded r) && (is_auth_redirect r || (q_json rq && N.eqb (r_status r) 401))
    else true.

  (* C04, completion: a response that completes a login (callback answered by the
     redirect to a local path after a successful code exchange) or a refresh (the
     request is forwarded after a successful refresh) stores, in that very
     response, an authenticated main cookie and the ID token it obtained -- a
     session that "keeps working" has to be in the browser first *)
  Definition is_lpath (l : option location) : bool := match l with Some (LPath _) => true | _ => false end.

  Definition stores_session (id : istr) (r : response) : bool :=
    emits_auth r && match emitted_id r with Some t => tval_eqb t (TTok id) | None => false end.

  Definition c04_step (ans : option answer) (r : response) : bool :=
    match ans, r_calls r with
    | Some (AOk id _), [PExchange _ _ _ _] =>
        if N.eqb (r_status r) 302 && is_lpath (r_loc r) then stores_session id r else true
    | Some (AOk id _), [PRefresh _] =>
        if forwarded r then stores_session id r else true
    | _, _ => true
    end.

  (* C07, end to end (per step): what a request READS BACK from its cookies is what the cookies hold --
     the ID token handed downstream when no provider call intervenes, and the refresh token presented to
     the provider, are exactly the values stored in the request's cookies (never truncated, padded or mixed).
     Together with c07_browser (the cookies hold what was last written) this is the read-back clause. *)
  Definition c07_e2e_step (now : time) (rq : request) (r : response) : bool :=
    (match r_fwd r, r_calls r with
     | Some h, [] =>
         if gated rq then
           forallb (fun cv : N * hval =>
                      if N.eqb (fst cv) 3
                      then match session_token now rq with TTok s => hval_eqb (snd cv) (HStr s) | _ => false end
                      else true) h
         else true
     | _, _ => true
     end)
    && match r_calls r with
       | [PRefresh old] => tval_eqb old (session_refresh now rq)
       | _ => true
       end.

  (* C03 / C17, the login redirect: a response that sends the browser to the authorization endpoint STORES
     (in a cookie that is set, not deleted) exactly the state, nonce and verifier it shows in that URL, in
     an unauthenticated main cookie -- otherwise the login it starts can never be completed *)
  Definition c03_init_step (r : response) : bool :=
    match r_loc r with
    | Some (LAuth _ s n c _ _) =>
        N.eqb (r_status r) 302
        && match emitted_main r with
           | Some p => N.eqb (get_str 3 p) s && N.eqb (get_str 4 p) n && N.eqb (get_str 5 p) c && negb (get_bool 1 p)
           | None => false
           end
    | _ => true
    end.

End Monitors.

(* ------------------------------------------------------------------ applying the step monitors to a case *)

Definition inst_urls (c : wcase) (i : N) : istr * istr :=
  match lookup i (wc_insts c) with Some d => snd d | None => (0, 0) end.

Definition steps_all (c : wcase)
           (p : env -> config -> istr -> istr -> wstep -> bool) : bool :=
  forallb (fun s => let '(a, e) := inst_urls c (w_inst s) in p (env_of c) (wc_cfg c) a e s) (wc_steps c).

Definition st_c01 E cfg a (e : istr) (s : wstep) := c01_step E cfg a (w_now s) (w_rq s) (w_ans s) (w_obs s).
Definition st_c03 E cfg (a e : istr) (s : wstep) := c03_step E cfg (w_now s) (w_rq s) (w_ans s) (w_obs s).
(* flag 7: the state or nonce shown by this login redirect agrees with an earlier one of the same world in at least half
   of its positions (values with that much common structure are predictable; the model's draws are arbitrary inputs) *)
Definition st_c03i (E : env) (cfg : config) (a e : istr) (s : wstep) := c03_init_step (w_obs s) && no_flag 7 (w_obs s).
Definition st_c04 (E : env) (cfg : config) (a e : istr) (s : wstep) := c04_step E (w_ans s) (w_obs s).
Definition st_c06 E cfg (a e : istr) (s : wstep) := c06_step E cfg (w_now s) (w_rq s) (w_ans s) (w_obs s).
(* flag 6: the harness read the request's (genuine, well-formed) cookies with an independent reader -- own codec,
   own base64 + gzip -- and the code's session getters returned another ID or refresh token for the same cookies *)
Definition st_c07 (E : env) (cfg : config) (a e : istr) (s : wstep) :=
  c07_e2e_step E cfg (w_now s) (w_rq s) (w_obs s) && no_flag 6 (w_obs s).
Definition st_c08 E cfg a (e : istr) (s : wstep) := c08_step E cfg a (w_now s) (w_rq s) (w_ans s) (w_obs s).
Definition st_c10 E cfg (a e : istr) (s : wstep) := c10_step E cfg (w_now s) (w_rq s) (w_ans s) (w_obs s).
Definition st_c11 E cfg (a : istr) e (s : wstep) := c11_step E cfg e (w_now s) (w_rq s) (w_obs s).
Definition st_c15 E cfg a e (s : wstep) := c15_step E cfg a e (w_rq s) (w_obs s).
Definition st_c16 (E : env) (cfg : config) (a e : istr) (s : wstep) := c16_step (w_obs s).
Definition st_c18 (E : env) (cfg : config) (a e : istr) (s : wstep) := c18_step (w_obs s).
Definition st_c09 (E : env) (cfg : config) (a e : istr) (s : wstep) := c09_step (w_obs s).
Definition st_c17 E cfg a (e : istr) (s : wstep) := c17_step E cfg a (w_now s) (w_rq s) (w_ans s) (w_obs s).
Definition st_c17age E cfg (a e : istr) (s : wstep) := c17_age_step E cfg a (w_now s) (w_rq s) (w_obs s).

(* ------------------------------------------------------------------ history monitors *)

(* steps of one browser, in order *)
Definition of_browser (b : N) (l : list wstep) : list wstep := filter (fun s => N.eqb (w_browser s) b) l.

Definition browsers_of (l : list wstep) : list N := nodup N.eq_dec (map w_browser l).

Definition auth_state (s : wstep) : option (istr * istr * istr) :=
  match r_loc (w_obs s) with
  | Some (LAuth _ st nonce ch _ _) => Some (st, nonce, ch)
  | _ => None
  end.

(* C03 over one honest browser: a callback that establishes a session uses the
   state, nonce and verifier of that browser's MOST RECENT initiation; after it,
   the same callback creates no session and contacts no token endpoint *)
Fixpoint c03_browser (E : env) (cfg : config) (last : option (istr * istr * istr))
         (done : list istr) (l : list wstep) : bool :=
  match l with
  | [] => true
  | s :: r =>
      match auth_state s with
      | Some a => c03_browser E cfg (Some a) done r
      | None =>
          if N.eqb (q_path (w_rq s)) (c_callback cfg) then
            let est := establishes E cfg (w_now s) (w_rq s) (w_obs s) in
            (if est then
               match last, w_ans s, r_calls (w_obs s) with
               | Some (st, nonce, ch), Some (AOk id _), [PExchange _ _ _ v] =>
                   N.eqb (q_state (w_rq s)) st && N.eqb (ti_nonce (tok E id)) nonce
                   && (if c_pkce cfg then N.eqb v ch && negb (N.eqb v 0) else true)
               | _, _, _ => false
               end
             else true)
            (* a callback repeated after a successful one: nothing happens *)
            && (if memk (q_state (w_rq s)) done
                then negb est && match r_calls (w_obs s) with [] => true | _ => false end
                else true)
            && c03_browser E cfg (if est then None else last)
                           (if est then q_state (w_rq s) :: done else done) r
          else c03_browser E cfg last done r
      end
  end.

Fixpoint pairwise_distinct (l : list istr) : bool :=
  match l with
  | [] => true
  | x :: r => (N.eqb x 0 || negb (memk x r)) && pairwise_distinct r
  end.

Definition fresh_values (l : list wstep) : bool :=
  let a := flat_map (fun s => match auth_state s with Some (x, y, z) => [x; y; z] | None => [] end) l in
  pairwise_distinct a
  && forallb (fun s => match auth_state s with Some (x, y, _) => negb (N.eqb x 0) && negb (N.eqb y 0) | None => true end) l.

Definition c03_history (c : wcase) : bool :=
  let E := env_of c in
  steps_all c st_c03
  && forallb (fun b => c03_browser E (wc_cfg c) None [] (of_browser b (wc_steps c))) (browsers_of (wc_steps c))
  && fresh_values (wc_steps c).

(* C04 over one honest browser: once a login (or refresh) stored token t, every
   gated request made while t is more than the grace period from expiry is
   forwarded with no provider call, whichever instance serves it *)
(* what a step WROTE, read off the provider's answer (not off the cookies, whose
   reading is the thing under test): a callback or refresh that obtained ID token
   id (and refresh token rt) and saved an authenticated session *)
Definition written_by (s : wstep) : option (istr * tval) :=
  if emits_auth (w_obs s) then
    match w_ans s, r_calls (w_obs s) with
    | Some (AOk id rt), [PExchange _ _ _ _] => Some (id, if N.eqb rt 0 then TEmpty else TTok rt)
    | Some (AOk id rt), [PRefresh old] => Some (id, if N.eqb rt 0 then old else TTok rt)
    | _, _ => None
    end
  else None.

Definition stored_by (E : env) (cfg : config) (s : wstep) : option istr :=
  match written_by s with Some (id, _) => Some id | None => None end.

Definition comfortably_valid (E : env) (cfg : config) (now : time) (t : istr) : bool :=
  let ti := tok E t in
  accept_at now ti && negb (Z.ltb (ti_exp ti * sec)%Z (now + c_grace cfg + 2 * sec)%Z).

Fixpoint c04_browser (E : env) (cfg : config) (cur : option istr) (l : list wstep) : bool :=
  match l with
  | [] => true
  | s :: r =>
      let rq := w_rq s in
      let o := w_obs s in
      let here :=
        match cur with
        | Some t =>
            if gated E cfg rq && comfortably_valid E cfg (w_now s) t
               && domain_ok E cfg (ti_email (tok E t)) && roles_ok E cfg (TTok t)
            then (forwarded o || (q_options rq && negb (N.eqb (q_origin rq) 0) && N.eqb (r_status o) 200))
                 && match r_calls o with [] => true | _ => false end
            else true
        | None => true
        end in
      let cur' :=
        if is_logout cfg rq then None
        else match stored_by E cfg s with Some t => Some t | None => cur end in
      here && c04_browser E cfg cur' r
  end.

Definition c04_history (c : wcase) : bool :=
  forallb (fun b => c04_browser (env_of c) (wc_cfg c) None (of_browser b (wc_steps c))) (browsers_of (wc_steps c)).

(* C11 over one honest browser: after a logout nothing is treated as
   authenticated until a login completes *)
Fixpoint c11_browser (E : env) (cfg : config) (out : bool) (l : list wstep) : bool :=
  match l with
  | [] => true
  | s :: r =>
      let rq := w_rq s in
      let o := w_obs s in
      let here :=
        if out && gated E cfg rq
        then negb (forwarded o)
             && forallb (fun c => match c with PRefresh _ => false | _ => true end) (r_calls o)
        else true in
      let out' := if is_logout cfg rq then true
                  else if establishes E cfg (w_now s) rq o then false else out in
      here && c11_browser E cfg out' r
  end.

Definition c11_history (c : wcase) : bool :=
  steps_all c st_c11
  && forallb (fun b => c11_browser (env_of c) (wc_cfg c) false (of_browser b (wc_steps c))) (browsers_of (wc_steps c)).

(* C07 as seen end to end: what the next request reads back (the token handed
   downstream, the refresh token sent to the provider) is what was last stored *)
Definition is_TEmpty (t : tval) : bool := match t with TEmpty => true | _ => false end.

Fixpoint c07_browser (E : env) (cfg : config) (id rt : option tval) (l : list wstep) : bool :=
  match l with
  | [] => true
  | s :: r =>
      let rq := w_rq s in
      let o := w_obs s in
      let sd := carried cfg (w_now s) rq in
      let here :=
        (match id with Some t => tval_eqb (get_access (nchunks E) sd) t | None => true end)
        && (match rt with Some t => tval_eqb (get_refresh (nchunks E) sd) t | None => true end) in
      let '(id', rt') :=
        match written_by s with
        | Some (i, t) => (Some (if N.eqb i 0 then TEmpty else TTok i), Some t)
        | None =>
            (* a response that rewrites the token cookies without a provider answer clears them
               (logout, restart of the login, removal of an invalid refresh token) *)
            ((match emitted_id E o with Some t => if is_TEmpty t then Some TEmpty else id | None => id end),
             (match emitted_rt E o with Some t => if is_TEmpty t then Some TEmpty else rt | None => rt end))
        end in
      here && c07_browser E cfg id' rt' r
  end.

Definition c07_history (c : wcase) : bool :=
  forallb (fun b => c07_browser (env_of c) (wc_cfg c) None None (of_browser b (wc_steps c))) (browsers_of (wc_steps c)).

(* C17, healing: whatever the jar looked like before, the session a completed login stores is usable
   by the very next request of that browser (so a login started from unusable cookies does complete) *)
Fixpoint c17_browser (E : env) (cfg : config) (just : option istr) (l : list wstep) : bool :=
  match l with
  | [] => true
  | s :: r =>
      let rq := w_rq s in
      let o := w_obs s in
      let here :=
        match just with
        | Some t =>
            (* tag 4: the generator sends this request with the jar exactly as the login left it
               (between other steps the harness may have tampered with the cookies) *)
            (* ... among them the browser following the redirect the completed login ended with: a login that sends
               the browser back to the callback address has not healed anything (it starts over: a loop) *)
            negb (N.eqb (w_tag s) 4 && N.eqb (q_path rq) (c_callback cfg)) &&
            if N.eqb (w_tag s) 4 && gated E cfg rq && comfortably_valid E cfg (w_now s) t
               && domain_ok E cfg (ti_email (tok E t)) && roles_ok E cfg (TTok t)
            then forwarded o || (q_options rq && negb (N.eqb (q_origin rq) 0) && N.eqb (r_status o) 200)
            else true
        | None => true
        end in
      let just' :=
        match written_by s, r_calls o with
        | Some (t, _), [PExchange _ _ _ _] => Some t
        | _, _ => None
        end in
      here && c17_browser E cfg just' r
  end.

Definition c17_history (c : wcase) : bool :=
  forallb (fun b => c17_browser (env_of c) (wc_cfg c) None (of_browser b (wc_steps c))) (browsers_of (wc_steps c)).

(* ------------------------------------------------------------------ violation predicates (negated monitors) *)

Definition violates_c01 (c : wcase) : bool := negb (steps_all c st_c01).
Definition violates_c03 (c : wcase) : bool := negb (c03_history c && steps_all c st_c03i).
Definition violates_c04 (c : wcase) : bool := negb (c04_history c && steps_all c st_c04).
Definition violates_c06 (c : wcase) : bool := negb (steps_all c st_c06).
Definition violates_c07 (c : wcase) : bool := negb (c07_history c && steps_all c st_c07).
Definition violates_c08 (c : wcase) : bool := negb (steps_all c st_c08).
(* C09 on observed histories: no planted secret is readable without the key (flag 4), and a cookie
   that does not decode under the deployment key FOR ITS OWN NAME contributes nothing: the gate,
   refresh and identity monitors read a request's session with `load`, which ignores such cookies,
   so a response that used the content of a modified, renamed or foreign cookie violates them *)
Definition violates_c09 (c : wcase) : bool :=
  negb (steps_all c st_c09 && steps_all c st_c01 && steps_all c st_c08 && steps_all c st_c10).
Definition violates_c10 (c : wcase) : bool := negb (steps_all c st_c10).
Definition violates_c11 (c : wcase) : bool := negb (c11_history c).
Definition violates_c15 (c : wcase) : bool := negb (steps_all c st_c15).
Definition violates_c16 (c : wcase) : bool := negb (steps_all c st_c16).
Definition violates_c17 (c : wcase) : bool := negb (steps_all c st_c17 && c17_history c && steps_all c st_c03i && steps_all c st_c17age).
Definition violates_c18 (c : wcase) : bool := negb (steps_all c st_c18).
