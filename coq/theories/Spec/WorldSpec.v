(* Property monitors over observed world histories (see the per-property sections below). *)
From VF Require Import Base.Prelude Model.Cache Model.Session Model.Middleware Corr.WorldCorr.
Open Scope N_scope.
