(* How a browser classifies a scheme-less redirect target (property C15). *)
From VF Require Import Base.Prelude.
Open Scope N_scope.

(* ------------------------------------------------------------------ URL classification (C15) *)

(* What a browser does with a Location that has no scheme: leading C0 control
   and space characters are stripped, TAB / CR / LF are removed everywhere, and
   a backslash counts as a slash.  The target stays on the current origin iff
   what remains starts with exactly one slash. *)
Definition is_tab_nl (c : N) : bool := N.eqb c 9 || N.eqb c 10 || N.eqb c 13.
Definition not_tab_nl (c : N) : bool := negb (is_tab_nl c).

Fixpoint strip_leading (s : list N) : list N :=
  match s with
  | c :: r => if N.leb c 32 then strip_leading r else s
  | [] => []
  end.

Definition is_slash (c : N) : bool := N.eqb c 47 || N.eqb c 92.

Definition same_origin_path (s : list N) : bool :=
  match filter not_tab_nl (strip_leading s) with
  | c :: [] => N.eqb c 47
  | c :: d :: _ => N.eqb c 47 && negb (is_slash d)
  | [] => false
  end.

