(* The rule that reads the structural lock facts of coq/gen/params/ParamsLock.v
   (produced by tools/lockfacts from the source text of the package; this is
   the one place where source TEXT rather than behaviour feeds the proofs,
   because lock discipline cannot be observed by a sequential run).

   A fact is  (name, (exported, locks, touches, clean), callers):
     exported  the method name is exported
     locks     its body begins with  c.mutex.Lock(); defer c.mutex.Unlock()
     touches   its body mentions c.items / c.order / c.elems / c.maxSize
     clean     no other mention of c.mutex in the body, no go statement, no function literal
     callers   the functions of the package that mention the method ("file.go:Func" when the
               mention is not through the receiver of a method of Cache)

   method_locked says that the method fits the thread shape of Proofs/Locked.v:
   whatever touches the guarded fields runs between Lock and the deferred
   Unlock of the SAME call chain, and a method that takes the lock is never
   entered by a caller that may already hold it (sync.RWMutex is not
   reentrant: that would deadlock). *)
From Coq Require Import String List Bool.
Import ListNotations.

Definition mfact := (string * (bool * bool * bool * bool) * list string)%type.

Definition fact_name (m : mfact) : string := fst (fst m).

Definition named (n : string) (m : mfact) : bool := String.eqb n (fact_name m).

Definition is_nil_s (l : list string) : bool := match l with [] => true | _ => false end.

(* every path into the method holds the lock *)
Fixpoint must_hold (tbl : list mfact) (fuel : nat) (n : string) : bool :=
  match fuel with
  | O => false
  | S f => match find (named n) tbl with
           | None => false           (* not a method of Cache: holds nothing *)
           | Some (_, (exported, locks, _, _), callers) =>
               locks || (negb exported && negb (is_nil_s callers) && forallb (must_hold tbl f) callers)
           end
  end.

(* some path into the method holds the lock *)
Fixpoint may_hold (tbl : list mfact) (fuel : nat) (n : string) : bool :=
  match fuel with
  | O => true
  | S f => match find (named n) tbl with
           | None => false
           | Some (_, (_, locks, _, _), callers) => locks || existsb (may_hold tbl f) callers
           end
  end.

Definition not_holding (tbl : list mfact) (n : string) : bool := negb (may_hold tbl (S (length tbl)) n).

Definition method_locked (tbl : list mfact) (m : mfact) : bool :=
  let '(name, (exported, locks, touches, clean), callers) := m in
  clean &&
  (if locks
   then forallb (not_holding tbl) callers
   else if touches
        then negb exported && must_hold tbl (S (length tbl)) name
        else true).

(* the methods the property names all exist and take the lock themselves *)
Definition takes_lock (tbl : list mfact) (n : string) : bool :=
  match find (named n) tbl with
  | Some (_, (_, locks, _, _), _) => locks
  | None => false
  end.

Definition lock_discipline (tbl : list mfact) (entry_points : list string) (outside : list string) : bool :=
  forallb (method_locked tbl) tbl && forallb (takes_lock tbl) entry_points && is_nil_s outside.

(* the operations property C13 names *)
Definition cache_entry_points : list string := ["Set"; "Get"; "Delete"; "Cleanup"]%string.
