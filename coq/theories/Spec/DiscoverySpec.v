(* Property C20 as a boolean monitor over what SOME implementation was observed
   to do on one instance of the middleware: the provider's script, the
   requests sent before / during / after recovery with their responses, the
   moment serving started, and the documents the provider actually handed
   out.  Nothing here looks at the model's state (the two `ready` flags of an
   observed request are carried for the correspondence check only and are not
   read by the monitor). *)
From VF Require Import Base.Prelude Model.Discovery.
Open Scope Z_scope.

Record obs_req := mkOq {
  oq_path : path;
  oq_patience : Z;           (* ns the client was prepared to wait *)
  oq_status : Z;
  oq_fwd : bool;             (* the downstream handler ran *)
  oq_loc : option N;         (* Location: identity of the URL before '?', 0 = not an authorization endpoint the provider ever announced *)
  oq_cookies : bool;         (* any Set-Cookie *)
  oq_ok_after : N;           (* discovery documents the provider had started to send when the response was complete *)
  oq_ready_before : bool;    (* correspondence only *)
  oq_ready_after : bool;     (* correspondence only *)
}.

Inductive op :=
| OServe (rq : request)
| OScript (l : list answer) (h : doc)
| OShift (d : Z)             (* d elapses *)
| ORefresh
| OCleanup.

(* projection of the implementation's state after an operation (correspondence only) *)
Record obs_state := mkOs {
  os_hits : N; os_ready : bool; os_ep : doc; os_cached : bool; os_rem_min : Z;
}.

Definition obs_step := (op * option obs_req * obs_state)%type.

Record dcase := mkDc {
  dc_id : N;
  dc_direct : bool;            (* initializeMetadata called synchronously instead of through New() *)
  dc_timeout : Z;              (* httpClient.Timeout, ns *)
  dc_script : list answer;
  dc_healthy : doc;
  dc_pre : list obs_req;       (* requests sent while initialisation was running *)
  dc_ready_ms : option Z;      (* ms from start to the first login redirect to the healthy document's
                                  authorization endpoint (direct: to the return of initializeMetadata
                                  with initComplete closed); None: did not happen while the harness waited *)
  dc_ready_loc : N;            (* where that redirect went (0 when direct or none) *)
  dc_waited_ms : Z;            (* how long the harness waited for that *)
  dc_init_hits : N;            (* discovery requests seen by then *)
  dc_steps : list obs_step;    (* operations after that, in order *)
  dc_served : list doc;        (* documents the provider handed out, oldest first *)
}.

(* ---- clause 1: fail closed while no usable document has been obtained.
   "Obtained" is read on the provider's side: among the documents it had started
   to send when the response was complete, none names an issuer (a 200 answer
   "{}" is not provider metadata). *)

Definition is_closed (q : obs_req) : bool :=
  (Z.eqb (oq_status q) 503 || Z.eqb (oq_status q) 408)
  && negb (oq_fwd q)
  && match oq_loc q with None => true | Some _ => false end
  && negb (oq_cookies q).

Definition has_issuer (d : doc) : bool := negb (N.eqb (d_issuer d) 0).

Definition closed_ok (served : list doc) (q : obs_req) : bool :=
  if existsb has_issuer (firstn (N.to_nat (oq_ok_after q)) served) then true else is_closed q.

(* ---- clause 2: a redirect goes to the authorization endpoint of the latest document handed out *)

Definition endpoint_ok (served : list doc) (q : obs_req) : bool :=
  match oq_loc q with
  | None => true
  | Some l =>
      match nth_error served (N.to_nat (oq_ok_after q) - 1) with
      | Some d => if N.eqb (d_auth d) 0 then true else N.eqb l (d_auth d)
      | None => false
      end
  end.

(* ---- clause 3: after finitely many failures followed by a healthy provider, serving starts in bounded time *)

Definition is_fault (a : answer) : bool := match a with AFault _ => true | ADoc _ => false end.

Definition full_doc (d : doc) : bool := negb (N.eqb (d_issuer d) 0) && negb (N.eqb (d_auth d) 0).

Definition heal_applies (c : dcase) : bool := forallb is_fault (dc_script c) && full_doc (dc_healthy c).

(* The retry schedule written out as arithmetic: with n failures ahead, a round
   of max_retries attempts either meets the healthy provider (n < max_retries:
   n pauses, n fetches that may each take the client's timeout) or fails
   completely and is followed by the outer pause of round k.  `fuel` bounds the
   unrolling (one round consumes at least one failure). *)
Fixpoint sched (fuel k n : nat) (timeout : Z) : Z :=
  match fuel with
  | O => 0
  | S f =>
      if Nat.ltb n max_retries then delays_from 0 n + Z.of_nat n * timeout
      else delays_from 0 max_retries + Z.of_nat max_retries * timeout + delay k
           + sched f (S k) (n - max_retries) timeout
  end.

(* modelled time by which serving must have started after n failures *)
Definition heal_time (n : nat) (timeout : Z) : Z := sched (S n) 0 n timeout.

(* B(n): linear bound on heal_time: 16 s of pauses per failure plus the
   client's timeout per failure (a slow answer costs that much) *)
Definition heal_rate : Z := 16 * sec.
Definition heal_bound (n : nat) (timeout : Z) : Z := Z.of_nat n * (heal_rate + timeout).

(* wall-clock allowance applied to observations, in ms: heal_time * 9/8, one more
   timeout for the successful fetch, and 4 s *)
Definition heal_allowance_ms (n : nat) (timeout : Z) : Z :=
  (heal_time n timeout * 9 / 8 + timeout + 4 * sec) / 1000000.

Definition heal_ok (c : dcase) : bool :=
  match dc_ready_ms c with
  | Some t => Z.leb t (heal_allowance_ms (length (dc_script c)) (dc_timeout c))
              && (dc_direct c || N.eqb (dc_ready_loc c) (d_auth (dc_healthy c)))
  | None => false
  end.

Definition reqs_of_step (s : obs_step) : list obs_req :=
  match s with (_, Some q, _) => [q] | _ => [] end.

Definition step_reqs (c : dcase) : list obs_req := flat_map reqs_of_step (dc_steps c).

Definition all_reqs (c : dcase) : list obs_req := dc_pre c ++ step_reqs c.

Definition check_case (c : dcase) : bool :=
  forallb (closed_ok (dc_served c)) (all_reqs c)
  && forallb (endpoint_ok (dc_served c)) (all_reqs c)
  && (if heal_applies c then heal_ok c else true).

(* ---- clause 3, second half: "starts serving" means it KEEPS serving.  Once the
   failures are over and the healthy provider (full document) has been reached,
   every later request is answered from then on -- none is turned away with 503 /
   408 -- for as long as the provider keeps handing out that document, i.e. on
   the operations that precede the first change of the provider's script. *)
Fixpoint before_script (l : list obs_step) : list obs_step :=
  match l with
  | [] => []
  | (OScript _ _, _, _) :: _ => []
  | s :: r => s :: before_script r
  end.

Definition stays_ok (c : dcase) : bool :=
  if heal_applies c
  then forallb (fun q => negb (is_closed q)) (flat_map reqs_of_step (before_script (dc_steps c)))
  else true.

(* ---- clause 2, on the instance's endpoint fields: whenever the instance is ready, ALL SIX endpoints it uses are
   those of ONE document the provider actually handed out (never a mixture with an answer that was not a successful
   discovery).  The state projection is what the harness reads from the instance after every operation. *)
Definition doc_same (a b : doc) : bool :=
  N.eqb (d_issuer a) (d_issuer b) && N.eqb (d_auth a) (d_auth b) && N.eqb (d_token a) (d_token b)
  && N.eqb (d_jwks a) (d_jwks b) && N.eqb (d_revoke a) (d_revoke b) && N.eqb (d_end a) (d_end b).

Definition ep_ok (c : dcase) : bool :=
  forallb (fun s : obs_step =>
             let st := snd s in
             if os_ready st then existsb (doc_same (os_ep st)) (dc_served c) else true)
          (dc_steps c).
