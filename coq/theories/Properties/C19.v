(* Property C19 — the verification rate limit admits rateLimit per second: no
   less, not much more.  This file contains only the property theorems, each
   closed by `exact` (the one obligation on measured parameters by computation),
   with Print Assumptions beneath.  Model: Model/Limiter.v (x/time/rate Allow),
   monitor: Spec/LimiterSpec.v, proofs: Proofs/LimiterProofs.v.

   Written for the REPAIRED construction
       rate.NewLimiter(rate.Limit(config.RateLimit), config.RateLimit).
   VFP.ParamsLimiter is regenerated on every run from instances built through
   New(): limiter_samples = (configured rateLimit, Limit() in tokens/s, Burst()).
   On the pinned commit New() builds rate.Every(time.Second) = 1 token/s, so
   C19_construction below does not check there (defect F12, DESIGN.md §6) and
   C19_pinned_refuted shows what that construction does to the property. *)
From VF Require Import Base.Prelude Model.Limiter Spec.LimiterSpec Proofs.LimiterProofs.
Require Import VFP.ParamsLimiter.
Open Scope Z_scope.

(* The tie to the code's construction: every instance measured on the current
   tree has Limit() = rateLimit tokens/s and Burst() = rateLimit. *)
Theorem C19_construction :
  forallb (fun '(n, r, b) => (r =? n) && (b =? n)) limiter_samples = true.
Proof. vm_compute; reflexivity. Qed.
Print Assumptions C19_construction.

(* the same on the measurement in millitokens/s: no fractional rate hides
   behind the whole-token figure above *)
Theorem C19_construction_milli :
  forallb (fun '(n, rm, b) => (rm =? 1000 * n) && (b =? n)) limiter_samples_milli = true.
Proof. vm_compute; reflexivity. Qed.
Print Assumptions C19_construction_milli.

(* Full statement: for every configured limit n >= 1 and every finite list of
   arrival instants (any length; non-decreasing, not before the limiter was
   built) the decisions of the limiter with (rate, burst) = (n, n) satisfy the
   monitor: (upper) at most n + n admitted in every window that starts at an
   arrival — hence in every one-second window, C19_upper —, (lower) on every
   prefix at least as many admitted as by the reference bucket "n per second
   with one burst of n, served greedily".  This is the boolean the
   correspondence check applies to the real limiter's decisions. *)
Theorem C19_monitor : forall (n : Z) (l : list time),
  1 <= n -> sorted_from 0 l = true -> monitor n (trace (init n n) l) = true.
Proof. exact model_monitor. Qed.
Print Assumptions C19_monitor.

(* ... and for the limiters New() builds, as measured on this tree *)
Theorem C19_built : forall n r b, In (n, r, b) limiter_samples -> 1 <= n ->
  forall l, sorted_from 0 l = true -> monitor n (trace (init r b) l) = true.
Proof. exact (monitor_of_samples limiter_samples C19_construction). Qed.
Print Assumptions C19_built.

(* "never more than rateLimit plus one burst of rateLimit in any one-second
   window": for ANY window start t, with any (rate, burst). For (n, n) the bound
   is 2n - 1 <= n + n. *)
Theorem C19_upper : forall (r b : Z) (l : list time) (t : time),
  1 <= r -> 0 <= b -> sorted_from 0 l = true ->
  admitted_in t (trace (init r b) l) <= b + r - 1.
Proof. exact bucket_upper. Qed.
Print Assumptions C19_upper.

(* "admitted at a sustained rate of at least rateLimit per second": whenever
   rate >= n and burst >= n the limiter admits on every prefix at least what
   the reference bucket (n/s, one burst of n) admits. *)
Theorem C19_lower : forall (n r b : Z) (l : list time),
  1 <= n -> n <= r -> n <= b -> sorted_from 0 l = true ->
  lower_ok n (trace (init r b) l) = true.
Proof. exact bucket_lower. Qed.
Print Assumptions C19_lower.

(* Every reachable state keeps -rate < tokens <= burst (in 10^-9 token). The
   lower end is not 0: an event is admitted with a deficit below one nanosecond
   of refill, exactly as reserveN's truncated wait duration does. *)
Theorem C19_tokens_invariant : forall (r b : Z) (l : list time),
  1 <= r -> 0 <= b -> - r < tokens (final (init r b) l) <= b * token.
Proof. exact tokens_bounds. Qed.
Print Assumptions C19_tokens_invariant.

(* The pinned construction (1 token/s, burst n) is refuted: for n = 10, 25,
   100, 1000, after n arrivals at once (which the reference bucket also spends
   its burst on) arrivals spaced exactly 1/n s are refused although the
   reference admits every one of them; the upper clause holds, the lower fails;
   the repaired construction passes the monitor on the same arrivals. *)
Theorem C19_pinned_refuted : forallb pinned_fails [10; 25; 100; 1000] = true.
Proof. exact pinned_lower_refuted. Qed.
Print Assumptions C19_pinned_refuted.

(* Non-vacuity: limit 10; twelve arrivals at once (ten admitted, two refused),
   one 50 ms later (refused: half a token), then one every 100 ms (admitted),
   then after 2 s of silence thirteen at once (ten admitted).  The premise of
   C19_monitor holds, both outcomes occur, the monitor accepts the repaired
   limiter's decisions and rejects the pinned limiter's. *)
Example C19_nonvacuous :
  let l := [0;0;0;0;0;0;0;0;0;0;0;0; 50000000; 100000000; 200000000; 300000000;
            2300000000;2300000000;2300000000;2300000000;2300000000;2300000000;2300000000;
            2300000000;2300000000;2300000000;2300000000;2300000000;2300000000] in
  sorted_from 0 l = true
  /\ snd (run (init 10 10) l)
     = [true;true;true;true;true;true;true;true;true;true;false;false; false; true; true; true;
        true;true;true;true;true;true;true;true;true;true;false;false;false]
  /\ monitor 10 (trace (init 10 10) l) = true
  /\ monitor 10 (trace (init 1 10) l) = false.
Proof. vm_compute. repeat split. Qed.
