(* Property C19 — the verification rate limit admits rateLimit per second: no
   less, not much more.  This file contains only the property theorems, each
   closed by `exact` (the one obligation on measured parameters by computation),
   with Print Assumptions beneath.  Model: Model/Limiter.v (x/time/rate Allow),
   monitor: Spec/LimiterSpec.v, proofs: Proofs/LimiterProofs.v.

   Written for the REPAIRED construction
       rate.NewLimiter(rate.Limit(config.RateLimit), config.RateLimit).
   VFP.ParamsLimiter is regenerated on every run from instances built through
   New(): limiter_samples = (configured rateLimit, Limit() in tokens/s, Burst()).
   On the pinned commit New() builds rate.Every(time.Second) = 1 token/s, so
   C19_construction below does not check there (defect F12, DESIGN.md §6) and
   C19_pinned_refuted shows what that construction does to the property. *)
From VF Require Import Base.Prelude Model.Limiter Spec.LimiterSpec Proofs.LimiterProofs.
Require Import VFP.ParamsLimiter.
Open Scope Z_scope.

(* The tie to the code's construction: every instance measured on the current
   tree has Limit() = rateLimit tokens/s and Burst() = rateLimit. *)
Theorem C19_construction :
  forallb (fun '(n, r, b) => (r =? n) && (b =? n)) limiter_samples = true.
Proof. vm_compute; reflexivity. Qed.
Print Assumptions C19_construction.

(* the same on the measurement in millitokens/s: no fractional rate hides
   behind the whole-token figure above *)
Theorem C19_construction_milli :
  forallb (fun '(n, rm, b) => (rm =? 1000 * n) && (b =? n)) limiter_samples_milli = true.
Proof. vm_compute; reflexivity. Qed.
Print Assumptions C19_construction_milli.

(* Full statement: for every configured limit n >= 1 and every finite list of
   arrival instants (any length; non-decreasing, not before the limiter was
   built) the decisions of the limiter with (rate, burst) = (n, n) satisfy the
   monitor: (upper) at most n + n admitted in every window that starts at an
   arrival — hence in every one-second window, C19_upper —, (lower) on every
   prefix at least as many admitted as by the reference bucket "n per second
   with one burst of n, served greedily".  This is the boolean the
   correspondence check applies to the real limiter's decisions. *)
Theorem C19_monitor : forall (n : Z) (l : list time),
  1 <= n -> sorted_from 0 l = true -> monitor n (trace (init n n) l) = true.
Proof. exact model_monitor. Qed.
Print Assumptions C19_monitor.

(* ... and for the limiters New() builds, as measured on this tree *)
Theorem C19_built : forall n r b, In (n, r, b) limiter_samples -> 1 <= n ->
  forall l, sorted_from 0 l = true -> monitor n (trace (init r b) l) = true.
Proof. exact (monitor_of_samples limiter_samples C19_construction). Qed.
Print Assumptions C19_built.

(* "never more than rateLimit plus one burst of rateLimit in any one-second
   window": for ANY window start t, with any (rate, burst). For (n, n) the bound
   is 2n - 1 <= n + n. *)
Theorem C19_upper : forall (r b : Z) (l : list time) (t : time),
  1 <= r -> 0 <= b -> sorted_from 0 l = true ->
  admitted_in t (trace (init r b) l) <= b + r - 1.
Proof. exact bucket_upper. Qed.
Print Assumptions C19_upper.

(* "admitted at a sustained rate of at least rateLimit per second": whenever
   rate >= n and burst >= n the limiter admits on every prefix at least what
   the reference bucket (n/s, one burst of n) admits. *)
Theorem C19_lower : forall (n r b : Z) (l : list time),
  1 <= n -> n <= r -> n <= b -> sorted_from 0 l = true ->
  lower_ok n (trace (init r b) l) = true.
Proof. exact bucket_lower. Qed.
Print Assumptions C19_lower.

(* Every reachable state keeps -rate < tokens <= burst (in 10^-9 token). The
   lower end is not 0: an event is admitted with a deficit below one nanosecond
   of refill, exactly as reserveN's truncated wait duration does. *)
Theorem C19_tokens_invariant : forall (r b : Z) (l : list time),
  1 <= r -> 0 <= b -> - r < tokens (final (init r b) l) <= b * token.
Proof. exact tokens_bounds. Qed.
Print Assumptions C19_tokens_invariant.

(* The pinned construction (1 token/s, burst n) is refuted: for n = 10, 25,
   100, 1000, after n arrivals at once (which the reference bucket also spends
   its burst on) arrivals spaced exactly 1/n s are refused although the
   reference admits every one of them; the upper clause holds, the lower fails;
   the repaired construction passes the monitor on the same arrivals. *)
Theorem C19_pinned_refuted : forallb pinned_fails [10; 25; 100; 1000] = true.
Proof. exact pinned_lower_refuted. Qed.
Print Assumptions C19_pinned_refuted.

(* Non-vacuity: limit 10; twelve arrivals at once (ten admitted, two refused),
   one 50 ms later (refused: half a token), then one every 100 ms (admitted),
   then after 2 s of silence thirteen at once (ten admitted).  The premise of
   C19_monitor holds, both outcomes occur, the monitor accepts the repaired
   limiter's decisions and rejects the pinned limiter's. *)
Example C19_nonvacuous :
  let l := [0;0;0;0;0;0;0;0;0;0;0;0; 50000000; 100000000; 200000000; 300000000;
            2300000000;2300000000;2300000000;2300000000;2300000000;2300000000;2300000000;
            2300000000;2300000000;2300000000;2300000000;2300000000;2300000000] in
  sorted_from 0 l = true
  /\ snd (run (init 10 10) l)
     = [true;true;true;true;true;true;true;true;true;true;false;false; false; true; true; true;
        true;true;true;true;true;true;true;true;true;true;false;false;false]
  /\ monitor 10 (trace (init 10 10) l) = true
  /\ monitor 10 (trace (init 1 10) l) = false.
Proof. vm_compute. repeat split. Qed.

(* ------------------------------------------------------------------ the limiter in front of VerifyToken
   Two further clauses of the property, about WHERE the limiter sits in
   /repo/main.go (VerifyToken, performPreVerificationChecks) and in the request
   ladder.  Model: Model/Middleware.v; Proofs/LimiterGate.v defines
   verify_token_limited (VerifyToken with the limiter's decision as an input;
   `true` gives Middleware.verify_token) and serve_limited (the ladder over it;
   `true` gives Middleware.serve). *)
From VF Require Model.Cache Model.Session Model.Middleware Spec.WorldSpec Proofs.W_C04 Proofs.LimiterGate.

(* the limited VerifyToken and ladder are the model's when the limiter admits *)
Theorem C19_admitted_is_verify : forall (E : Middleware.env) (st : Middleware.inst) (now : time) (t : Session.istr),
  LimiterGate.verify_token_limited E st now t true = Middleware.verify_token E st now t.
Proof. exact LimiterGate.verify_limited_admitted. Qed.
Print Assumptions C19_admitted_is_verify.

Theorem C19_admitted_is_serve :
  forall (E : Middleware.env) (cfg : Middleware.config) (st : Middleware.inst) (now : time)
         (rq : Middleware.request) (rnd : Session.istr * Session.istr * Session.istr)
         (ans : option Middleware.answer),
    LimiterGate.serve_limited E cfg true st now rq rnd ans = Middleware.serve E cfg st now rq rnd ans.
Proof. exact LimiterGate.serve_limited_admitted. Qed.
Print Assumptions C19_admitted_is_serve.

(* "verifications beyond the limit are refused without being performed": when
   the limiter refuses, the call answers `true` only for a token already in the
   verification cache (that lookup precedes the limiter); otherwise it answers
   false; in every case the blacklist is untouched (neither the raw-token nor
   the jti lookup happened, no jti was recorded), the verification cache is
   exactly what its own lookup left — nothing was added —, and readiness and
   endpoints are unchanged. *)
Theorem C19_refused_not_performed :
  forall (E : Middleware.env) (st : Middleware.inst) (now : time) (t : Session.istr),
    let r := LimiterGate.verify_token_limited E st now t false in
    (snd r = true <-> exists v, snd (Cache.get now t (Middleware.i_tcache st)) = Some v)
    /\ Middleware.i_black (fst r) = Middleware.i_black st
    /\ Middleware.i_tcache (fst r) = fst (Cache.get now t (Middleware.i_tcache st))
    /\ (forall k e, lookup k (Cache.items (Middleware.i_tcache (fst r))) = Some e ->
                    lookup k (Cache.items (Middleware.i_tcache st)) = Some e)
    /\ Middleware.i_ready (fst r) = Middleware.i_ready st
    /\ Middleware.i_auth_url (fst r) = Middleware.i_auth_url st
    /\ Middleware.i_end_session (fst r) = Middleware.i_end_session st.
Proof. exact LimiterGate.refused_not_performed. Qed.
Print Assumptions C19_refused_not_performed.

(* ... on a cache miss: the verdict is false and the token is not cached *)
Theorem C19_refused_miss :
  forall (E : Middleware.env) (st : Middleware.inst) (now : time) (t : Session.istr),
    snd (Cache.get now t (Middleware.i_tcache st)) = None ->
    LimiterGate.verify_token_limited E st now t false = (LimiterGate.after_lookup st now t, false)
    /\ lookup t (Cache.items (Middleware.i_tcache (LimiterGate.after_lookup st now t))) = None.
Proof. exact LimiterGate.refused_miss. Qed.
Print Assumptions C19_refused_miss.

(* ... and the refused call does not depend on what the token IS: whatever the
   string denotes (any two environments), the result is the same — no parsing,
   no signature or claim check took place *)
Theorem C19_refused_blind :
  forall (E1 E2 : Middleware.env) (st : Middleware.inst) (now : time) (t : Session.istr),
    LimiterGate.verify_token_limited E1 st now t false = LimiterGate.verify_token_limited E2 st now t false.
Proof. exact LimiterGate.refused_blind. Qed.
Print Assumptions C19_refused_blind.

(* "traffic on already authenticated sessions is not subject to this limit":
   a request on a protected path whose cookies hold an authenticated session for
   an ID token t that is acceptable now and not within the refresh grace period
   (fresh_at), with an e-mail stored, never reaches VerifyToken: for either
   decision of the limiter, any ready instance state, any random draw and any
   provider answer, the state is returned as it was, no provider call is made,
   and the response is the one the unlimited ladder gives from ANY ready
   instance state. *)
Theorem C19_sessions_exempt :
  forall (E : Middleware.env) (cfg : Middleware.config) (now : time) (rq : Middleware.request) (t : Session.istr),
    WorldSpec.gated E cfg rq = true ->
    Session.authenticated now (WorldSpec.carried cfg now rq) = true ->
    Session.get_access (Middleware.nchunks E) (WorldSpec.carried cfg now rq) = Session.TTok t ->
    W_C04.fresh_at E cfg now t = true ->
    Session.get_str 6 (Session.s_main (WorldSpec.carried cfg now rq)) <> 0%N ->
    forall (admitted : bool) (st st' : Middleware.inst)
           (rnd rnd' : Session.istr * Session.istr * Session.istr) (ans ans' : option Middleware.answer),
      Middleware.i_ready st = true -> Middleware.i_ready st' = true ->
      fst (LimiterGate.serve_limited E cfg admitted st now rq rnd ans) = st
      /\ fst (Middleware.serve E cfg st now rq rnd ans) = st
      /\ snd (LimiterGate.serve_limited E cfg admitted st now rq rnd ans)
         = snd (Middleware.serve E cfg st' now rq rnd' ans')
      /\ Middleware.r_calls (snd (LimiterGate.serve_limited E cfg admitted st now rq rnd ans)) = [].
Proof. exact LimiterGate.sessions_exempt. Qed.
Print Assumptions C19_sessions_exempt.

(* the reason: on that branch the ladder does not call its verifier at all —
   with ANY function in the place of VerifyToken the step is the same *)
Theorem C19_sessions_never_verify :
  forall (E : Middleware.env) (cfg : Middleware.config)
         (V : Middleware.inst -> time -> Session.istr -> Middleware.inst * bool)
         (st : Middleware.inst) (now : time) (rq : Middleware.request)
         (rnd : Session.istr * Session.istr * Session.istr) (ans : option Middleware.answer) (t : Session.istr),
    Middleware.i_ready st = true -> WorldSpec.gated E cfg rq = true ->
    Session.authenticated now (WorldSpec.carried cfg now rq) = true ->
    Session.get_access (Middleware.nchunks E) (WorldSpec.carried cfg now rq) = Session.TTok t ->
    W_C04.fresh_at E cfg now t = true ->
    Session.get_str 6 (Session.s_main (WorldSpec.carried cfg now rq)) <> 0%N ->
    LimiterGate.serve_with E cfg V st now rq rnd ans
    = (st, W_C04.steady_resp E cfg rq (WorldSpec.carried cfg now rq)).
Proof. exact LimiterGate.sessions_exempt_with. Qed.
Print Assumptions C19_sessions_never_verify.

(* Non-vacuity (deployment of Proofs/W_Example.v): token 10 is acceptable and
   not yet verified; admitted, the login completes and the token is cached;
   refused, the callback answers 500, stores nothing and leaves the instance as
   it was; the request carrying the valid session is forwarded identically
   under both decisions. *)
Example C19_limiter_nonvacuous :
  (let cb := W_Example.ex_callback W_Example.ex_jar_pending in
  let valid := W_Example.ex_req 5 W_Example.ex_jar_auth in
  let run adm rq ans := LimiterGate.serve_limited W_Example.exE W_Example.excfg adm W_Example.ex_inst
                                                  W_Example.ex_now rq W_Example.ex_rnd ans in
  (snd (LimiterGate.verify_token_limited W_Example.exE W_Example.ex_inst W_Example.ex_now 10 true) = true
   /\ LimiterGate.verify_token_limited W_Example.exE W_Example.ex_inst W_Example.ex_now 10 false
      = (W_Example.ex_inst, false))
  /\ (Middleware.r_status (snd (run true cb (Some (Middleware.AOk 10 0)))) = 302%N
      /\ lookup 10%N (Cache.items (Middleware.i_tcache (fst (run true cb (Some (Middleware.AOk 10 0)))))) <> None)
  /\ (Middleware.r_status (snd (run false cb (Some (Middleware.AOk 10 0)))) = 500%N
      /\ Middleware.r_cookies (snd (run false cb (Some (Middleware.AOk 10 0)))) = []
      /\ fst (run false cb (Some (Middleware.AOk 10 0))) = W_Example.ex_inst)
  /\ (WorldSpec.forwarded (snd (run false valid None)) = true
      /\ run false valid None = run true valid None
      /\ fst (run false valid None) = W_Example.ex_inst))%N.
Proof. exact LimiterGate.limiter_example. Qed.
