(* Property C15 — redirects stay where they should.
   Only the property theorems, each closed by `exact`, with Print Assumptions
   beneath.  Model: Model/Middleware.v (serve, local_path_bytes); monitor:
   Spec/WorldSpec.c15_step, Spec/Url.same_origin_path; proofs: Proofs/W_C15.v. *)
From VF Require Import Base.Prelude Model.Cache Model.Session Model.Middleware Model.World
     Corr.WorldCorr Spec.WorldSpec.
From VF Require Import Proofs.WorldBase Proofs.W_C15 Proofs.W_C07.
Open Scope N_scope.

(* For ALL byte strings: what isLocalRedirectPath accepts, a browser resolves
   on the current origin (one leading slash, not followed by a slash or
   backslash, no TAB/CR/LF that browsers strip, no leading control bytes). *)
Theorem C15_local_path : forall b : list N, local_path_bytes b = true -> same_origin_path b = true.
Proof. exact local_path_same_origin. Qed.
Print Assumptions C15_local_path.

(* Every 3xx of the model points to the discovered authorization endpoint, the
   discovered end-session endpoint (with the configured post-logout URI), the
   configured post-logout URI, or a same-origin absolute path; every other
   response carries no Location. *)
Theorem C15_step : forall (E : env) (cfg : config) (st : inst) (now : time) (rq : request)
                          (rnd : istr * istr * istr) (ans : option answer),
  env_ok E -> cfg_ok cfg -> i_ready st = true -> i_auth_url st <> 0 ->
  c15_step E cfg (i_auth_url st) (i_end_session st) rq (snd (serve E cfg st now rq rnd ans)) = true.
Proof. exact c15_serve. Qed.
Print Assumptions C15_step.

Theorem C15_not_ready : forall (E : env) (cfg : config) (st : inst) (now : time) (rq : request)
                               (rnd : istr * istr * istr) (ans : option answer) (a e : istr),
  i_ready st = false -> c15_step E cfg a e rq (snd (serve E cfg st now rq rnd ans)) = true.
Proof. exact c15_serve_not_ready. Qed.
Print Assumptions C15_not_ready.

(* Non-vacuity: the login of the example history returns to the stored URI "/a",
   and every step satisfies the monitor *)
Example C15_nonvacuous :
  let run := browser_run c07_ex_env c07_ex_cfg [] (c07_ex_events 3000000000%Z) in
  forallb (fun s => c15_step c07_ex_env c07_ex_cfg 20 21 (w_rq s) (w_obs s)) run = true
  /\ map (fun s => r_loc (w_obs s)) run = [Some (LAuth 20 40 41 0 0 0); Some (LPath 30); None]
  /\ bytes_of c07_ex_env 30 = [47; 97].
Proof. vm_compute. repeat split. Qed.

(* the pinned behaviour: the stored URI was used without the check *)
Example C15_refuted_without_check :
  same_origin_path [47; 47; 101] = false /\ local_path_bytes [47; 47; 101] = false
  /\ same_origin_path [47; 92; 101] = false /\ local_path_bytes [47; 92; 101] = false.
Proof. vm_compute. repeat split. Qed.
