(* Property C03 — a login completes only with the state, nonce and PKCE
   verifier of the initiation it answers, and consumes them.
   This file contains only the property theorems, each closed by `exact`, with
   Print Assumptions beneath.  The model is Model/Middleware.v (serve), the
   monitors are in Spec/WorldSpec.v, the proofs in Proofs/W_C03.v. *)
From VF Require Import Base.Prelude Model.Cache Model.Session Model.Middleware Corr.WorldCorr Spec.WorldSpec.
From VF Require Import Proofs.WorldBase Proofs.W_C03 Proofs.W_BExample Proofs.W_C03I.
Open Scope N_scope.

(* ---------------------------------------------------------------- step part *)

(* Every step of the model satisfies the per-step monitor c03_step (the same
   boolean the correspondence check applies to the Go implementation): a callback
   that establishes a session carried state = the csrf value of the main cookie
   sealed under the deployment key, had a code and no error parameter, presented
   the cookie's verifier at the token endpoint, received a token whose nonce is
   the cookie's (non-empty) nonce, and emits a main cookie with state, nonce and
   verifier cleared; with no pending login in the cookies the token endpoint is
   not contacted; at most one exchange call, only with a code and no error. *)
Theorem C03_binding_step :
  forall (E : env) (cfg : config) (st : inst) (now : time) (rq : request)
         (rnd : istr * istr * istr) (ans : option answer),
    env_ok E -> cfg_ok cfg -> i_ready st = true ->
    c03_step E cfg now rq ans (snd (serve E cfg st now rq rnd ans)) = true.
Proof. exact c03_serve. Qed.
Print Assumptions C03_binding_step.

(* Every initiation answers 302 to the authorization endpoint showing exactly
   the drawn state and nonce (and the drawn verifier's challenge under PKCE),
   and stores exactly those values in the main cookie it emits (whatever
   cookies were emitted before it in the same response), unauthenticated. *)
Theorem C03_initiation :
  forall (cfg : config) (rq : request) (csrf nonce verifier : istr) (st : inst) (sd : sdata)
         (cookies : list setcookie) (calls : list pcall),
    let r := initiate cfg rq (csrf, nonce, verifier) st sd cookies calls in
    let ch := if c_pkce cfg then verifier else 0 in
    r_status r = 302
    /\ r_loc r = Some (LAuth (i_auth_url st) csrf nonce ch (q_scheme rq) (q_host rq))
    /\ exists p, emitted_main r = Some p
                 /\ get_str 3 p = csrf /\ get_str 4 p = nonce /\ get_str 5 p = ch
                 /\ get_bool 1 p = false.
Proof. exact c03_initiation. Qed.
Print Assumptions C03_initiation.

(* Conversely, on a step of serve: a response that redirects to the
   authorization endpoint shows the values drawn for THIS step and stores
   exactly them in the emitted main cookie. *)
Theorem C03_initiation_step :
  forall (E : env) (cfg : config) (st : inst) (now : time) (rq : request)
         (rnd : istr * istr * istr) (ans : option answer),
    i_ready st = true ->
    forall b s n c sc h,
      r_loc (snd (serve E cfg st now rq rnd ans)) = Some (LAuth b s n c sc h) ->
      s = fst (fst rnd) /\ n = snd (fst rnd) /\ c = (if c_pkce cfg then snd rnd else 0)
      /\ r_status (snd (serve E cfg st now rq rnd ans)) = 302
      /\ exists p, emitted_main (snd (serve E cfg st now rq rnd ans)) = Some p
                   /\ get_str 3 p = s /\ get_str 4 p = n /\ get_str 5 p = c /\ get_bool 1 p = false.
Proof. exact c03_serve_initiation. Qed.
Print Assumptions C03_initiation_step.

(* The same as the boolean monitor the correspondence check applies to every
   observed response (so a login redirect whose cookies are deletions, or store
   other values than the URL shows, is a violation with the response as witness):
   no premise, any instance state. *)
Theorem C03_initiation_monitor :
  forall (E : env) (cfg : config) (st : inst) (now : time) (rq : request)
         (rnd : istr * istr * istr) (ans : option answer),
    c03_init_step (snd (serve E cfg st now rq rnd ans)) = true.
Proof. exact c03_init_serve. Qed.
Print Assumptions C03_initiation_monitor.

(* Non-vacuity: in a concrete world meeting the premises, an initiation stores
   (60, 61, 62); the callback carrying that cookie with state 60 exchanges the
   code with verifier 62, accepts the token whose nonce is 61, establishes a
   session and clears the three values; the same callback with another state is
   refused with 400 before any token-endpoint call. *)
Example C03_nonvacuous :
  let E := b_ex_env in let cfg := b_ex_cfg in let st := b_ex_inst in
  let now := (1000 * 1000000000)%Z in
  let pending : jar := [(CMain, Sealed 7 CMain [(3, VS 60); (4, VS 61); (5, VS 62); (7, VS 30)])] in
  let init := snd (serve E cfg st now (b_ex_req 30 0 0 [] []) (60, 61, 62) None) in
  let rq := b_ex_req 31 60 70 [] pending in
  let r := snd (serve E cfg st now rq (0, 0, 0) (Some (AOk 50 80))) in
  let bad := snd (serve E cfg st now (b_ex_req 31 66 70 [] pending) (0, 0, 0) (Some (AOk 50 80))) in
  env_ok E /\ cfg_ok cfg /\ i_ready st = true
  /\ r_loc init = Some (LAuth 40 60 61 62 5 6)
  /\ emitted_main init = Some [(3, VS 60); (4, VS 61); (5, VS 62); (7, VS 30)]
  /\ establishes E cfg now rq r = true
  /\ r_calls r = [PExchange 70 5 6 62]
  /\ emitted_main r = Some [(1, VB true); (2, VZ 1000); (3, VS 0); (4, VS 0); (5, VS 0); (6, VS 20); (7, VS 0)]
  /\ c03_step E cfg now rq (Some (AOk 50 80)) r = true
  /\ r_status bad = 400 /\ r_calls bad = [] /\ r_cookies bad = [].
Proof.
  split; [exact b_ex_env_ok|]. split; [exact b_ex_cfg_ok|]. vm_compute. repeat split.
Qed.

(* ---------------------------------------------------------------- history part *)

From VF Require Import Model.World Proofs.W_C11 Proofs.W_C03H.

(* Along EVERY honest-browser history of the model — one browser whose cookie
   jar changes only through the Set-Cookie headers it receives, each request
   served by an arbitrary ready instance state — Spec/WorldSpec.c03_browser
   holds: a callback establishes a session only with the state, nonce and (with
   PKCE) non-empty verifier of that browser's MOST RECENT login redirect since
   the last established session, and a callback whose state already completed a
   login establishes nothing and contacts no token endpoint.  fresh_values of
   the run holds too.
   Premise rnds_fresh: the random triples the events would draw are pairwise
   distinct and non-empty.  It is a premise on the random source: a login
   redirect shows exactly the triple drawn for its step (C03_initiation_step),
   so fresh_values of a model run says no more than that.  Only initiating
   steps consume their triple, but which steps initiate is decided by the run:
   C03_history asks it of all events, C03_history_run of the initiating steps
   only (as fresh_values / verifiers_set of the run).  Distinct states are
   necessary: W_C03H.C03_needs_distinct_states. *)
Theorem C03_history :
  forall (E : env) (cfg : config) (evs : list event),
    env_ok E -> cfg_ok cfg -> events_ready evs ->
    rnds_fresh (map ev_rnd evs) = true ->
    c03_browser E cfg None [] (browser_run E cfg [] evs) = true
    /\ fresh_values (browser_run E cfg [] evs) = true.
Proof. exact C03_history_thm. Qed.
Print Assumptions C03_history.

Theorem C03_history_run :
  forall (E : env) (cfg : config) (evs : list event),
    env_ok E -> cfg_ok cfg -> events_ready evs ->
    fresh_values (browser_run E cfg [] evs) = true ->
    verifiers_set cfg (browser_run E cfg [] evs) = true ->
    c03_browser E cfg None [] (browser_run E cfg [] evs) = true.
Proof. exact C03_history_run_thm. Qed.
Print Assumptions C03_history_run.

(* Non-vacuity: a login (60, 61, 62), the same callback replayed (400, no
   token-endpoint call, nothing established), a forwarded request, a logout, a
   second initiation (63, 64, 65) and the old callback again (400): premises
   and conclusion hold.  With a random source that repeats the first triple
   the replayed callback completes the second login and the monitor fails. *)
Example C03_history_nonvacuous :
  let run := browser_run b_ex_env b_ex_cfg [] c3_ex_events in
  env_ok b_ex_env /\ cfg_ok b_ex_cfg /\ events_ready c3_ex_events
  /\ rnds_fresh (map ev_rnd c3_ex_events) = true
  /\ c03_browser b_ex_env b_ex_cfg None [] run = true
  /\ fresh_values run = true
  /\ map (fun s => r_status (w_obs s)) run = [302; 302; 400; 200; 302; 302; 400]
  /\ map (fun s => establishes b_ex_env b_ex_cfg (w_now s) (w_rq s) (w_obs s)) run
     = [false; true; false; false; false; false; false]
  /\ map (fun s => r_calls (w_obs s)) run = [[]; [PExchange 70 5 6 62]; []; []; []; []; []]
  /\ rnds_fresh (map ev_rnd c3_repeat_events) = false
  /\ c03_browser b_ex_env b_ex_cfg None [] (browser_run b_ex_env b_ex_cfg [] c3_repeat_events) = false.
Proof.
  split; [exact b_ex_env_ok|]. split; [exact b_ex_cfg_ok|]. split; [exact c3_ex_ready|].
  vm_compute. repeat split.
Qed.
