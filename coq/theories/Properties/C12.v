(* Property C12 — the cache returns only the latest unexpired value for a key.
   This file contains only the property theorems, each closed by `exact`, with
   Print Assumptions beneath.  The model is Model/Cache.v, the history
   specification Spec/CacheSpec.v, the proofs Proofs/CacheProofs.v. *)
From VF Require Import Base.Prelude Model.Cache Spec.CacheSpec Proofs.CacheProofs Proofs.CacheWrapper.
Open Scope Z_scope.

(* Full statement over histories: for every capacity and every finite history of
   Set/Get/Delete/Cleanup with non-decreasing instants, every lookup result
   satisfies both clauses of the specification: (soundness) a returned value is
   the latest one stored under that key, not deleted since, lifetime not
   elapsed; (completeness) while no more than `capacity` distinct keys have been
   stored, the latest live value IS returned; and no other operation returns
   anything.  This is the same boolean that the correspondence check applies to
   the Go implementation's observed outputs. *)
Theorem C12_history : forall (capacity : nat) (h : list (time * op)),
  monotone h = true -> check_history capacity h (snd (run (empty capacity) h)) = true.
Proof. exact run_check_history. Qed.
Print Assumptions C12_history.

(* Soundness without any assumption on the instants. *)
Theorem C12_sound : forall (capacity : nat) (h : list (time * op)) (now : time) (k : key) (v : Z),
  snd (get now k (fst (run (empty capacity) h))) = Some v ->
  exists e, latest_rev (rev h) k = Some (v, e) /\ now <= e.
Proof. exact get_sound. Qed.
Print Assumptions C12_sound.

(* Entries stored with a non-positive lifetime are never observable: a value
   returned at an instant later than every operation of the history was stored
   with a strictly positive lifetime that has not elapsed. *)
Theorem C12_nonpositive : forall (capacity : nat) (h : list (time * op)) (now : time) (k : key) (v : Z),
  (forall t o, In (t, o) h -> t < now) ->
  snd (get now k (fst (run (empty capacity) h))) = Some v ->
  exists t0 ttl, In (t0, OSet k v ttl) h /\ 0 < ttl /\ now <= t0 + ttl.
Proof. exact get_positive_ttl. Qed.
Print Assumptions C12_nonpositive.

(* Cleanup removes exactly the entries whose lifetime has elapsed (in
   particular the "within 10% of expiry" disjunct in the code removes nothing
   that is still live), keeps every other entry and its value, the order of the
   survivors' membership and the capacity. *)
Theorem C12_cleanup_exact : forall (now : time) (c : cache),
  wf c ->
  (forall k, lookup k (items (cleanup now c)) =
             match lookup k (items c) with
             | Some e => if Z.ltb (e_exp e) now then None else Some e
             | None => None
             end)
  /\ (forall k, In k (order (cleanup now c)) <->
                In k (order c) /\ exists e, lookup k (items c) = Some e /\ now <= e_exp e)
  /\ cap (cleanup now c) = cap c.
Proof. exact cleanup_exact. Qed.
Print Assumptions C12_cleanup_exact.

Theorem C12_cleanup_keeps_live : forall (now : time) (e : entry),
  cleanup_cond now e = expired now e.
Proof. exact cleanup_cond_expired. Qed.
Print Assumptions C12_cleanup_keeps_live.

(* Cleanup composes: a Cleanup at `now` followed by a Cleanup at `now' >= now`
   leaves exactly the lookups of a single Cleanup at `now'`; in particular a
   second Cleanup at the same instant changes nothing (idempotence), so the
   5-minute background Cleanup and a manual one cannot differ in effect. *)
Theorem C12_cleanup_absorbs : forall (now now' : time) (c : cache),
  wf c -> now <= now' ->
  forall k, lookup k (items (cleanup now' (cleanup now c))) = lookup k (items (cleanup now' c)).
Proof. exact cleanup_absorbs. Qed.
Print Assumptions C12_cleanup_absorbs.

Theorem C12_cleanup_idempotent : forall (now : time) (c : cache),
  wf c ->
  forall k, lookup k (items (cleanup now (cleanup now c))) = lookup k (items (cleanup now c)).
Proof. exact cleanup_idempotent_lookup. Qed.
Print Assumptions C12_cleanup_idempotent.

(* non-vacuity: a reachable state with one elapsed and one live entry; the first
   Cleanup removes the elapsed one, the second changes nothing *)
Example C12_cleanup_idempotent_nonvacuous :
  let c := fst (run (empty 4) [(1, OSet 1%N 10 2); (1, OSet 2%N 20 100)]) in
  map fst (items c) = [1%N; 2%N]
  /\ map fst (items (cleanup 5 c)) = [2%N]
  /\ map fst (items (cleanup 5 (cleanup 5 c))) = [2%N].
Proof. vm_compute. repeat split. Qed.

(* C12_complete is the completeness clause of C12_history read on its own:
   see complete_get in Spec/CacheSpec.v. *)
Theorem C12_complete : forall (c : cache) (rh : list (time * op)) (t0 now : time) (o : op),
  wf c -> t0 <= now ->
  (length (stored_keys ((now, o) :: rh)) <= cap c)%nat ->
  holds_live c rh t0 -> holds_live (fst (step c (now, o))) ((now, o) :: rh) now.
Proof. exact holds_live_step. Qed.
Print Assumptions C12_complete.

(* Every reachable state is internally consistent: items, order and elems
   describe the same key set without repetition. *)
Theorem C12_wellformed : forall (capacity : nat) (h : list (time * op)),
  wf (fst (run (empty capacity) h)).
Proof. exact wf_run. Qed.
Print Assumptions C12_wellformed.

(* Non-vacuity: a concrete history meets the premise and exercises a hit, an
   expiry, a delete, an overwrite and an eviction. *)
Example C12_nonvacuous :
  let h := [(1, OSet 1%N 10 100); (2, OSet 2%N 20 5); (3, OGet 1%N); (9, OGet 2%N); (10, OSet 3%N 30 50);
            (11, OSet 4%N 40 50); (12, OGet 1%N); (13, ODel 3%N); (14, OGet 3%N); (15, OSet 4%N 41 1);
            (16, OGet 4%N)] in
  monotone h = true
  /\ snd (run (empty 2) h) = [None; None; Some 10; None; None; None; None; None; None; None; Some 41]
  /\ check_history 2 h (snd (run (empty 2) h)) = true.
Proof. vm_compute. repeat split. Qed.

(* The token cache.  The Go code reaches the cache through a thin wrapper,
   TokenCache (helpers.go): every operation of the wrapper is the cache's own
   operation on the key "t-" ++ token.  token |-> "t-" ++ token is an injective
   renaming of the caller's keys, so TokenCache is "the cache behind an
   injective renaming".  Proofs/CacheWrapper.v shows by a step-by-step
   simulation (the wrapped cache goes through exactly the renamed states,
   because every decision the model takes about keys is an equality test, and
   an injective function preserves and reflects equality) that such a cache
   produces, on the caller's history, exactly the outputs of a plain cache on
   that history.  Hence every C12 statement holds of TokenCache with the
   caller's keys; this is what justifies the correspondence check judging the
   wrapper's observed histories, after stripping the prefix, with the same
   model and the same monitor.  rename_hist f h is the history the inner cache
   sees when the caller issues h. *)
Theorem C12_wrapper_outputs : forall (f : key -> key),
  (forall a b, f a = f b -> a = b) ->
  forall (capacity : nat) (h : list (time * op)),
  snd (run (empty capacity) (rename_hist f h)) = snd (run (empty capacity) h).
Proof. exact wrapper_outputs. Qed.
Print Assumptions C12_wrapper_outputs.

(* C12_history for the wrapped cache: the outputs of the inner cache on the
   renamed history, judged against the caller's history h. *)
Theorem C12_wrapper_history : forall (f : key -> key),
  (forall a b, f a = f b -> a = b) ->
  forall (capacity : nat) (h : list (time * op)),
  monotone h = true ->
  check_history capacity h (snd (run (empty capacity) (rename_hist f h))) = true.
Proof. exact wrapper_history. Qed.
Print Assumptions C12_wrapper_history.

(* Non-vacuity: a renaming whose image overlaps the caller's keys (1 |-> 3,
   3 |-> 7), on a history with a hit, an eviction (capacity 1), a miss and a
   cleanup; both sides are equal and contain a Some. *)
Example C12_wrapper_nonvacuous :
  let f := fun k : key => (2 * k + 1)%N in
  let h := [(1, OSet 1%N 10 100); (2, OGet 1%N); (3, OSet 3%N 30 100); (4, OGet 1%N);
            (5, OCleanup); (6, OGet 3%N)] in
  rename_hist f h = [(1, OSet 3%N 10 100); (2, OGet 3%N); (3, OSet 7%N 30 100); (4, OGet 3%N);
                     (5, OCleanup); (6, OGet 7%N)]
  /\ snd (run (empty 1) (rename_hist f h)) = [None; Some 10; None; None; None; Some 30]
  /\ snd (run (empty 1) h) = [None; Some 10; None; None; None; Some 30]
  /\ check_history 1 h (snd (run (empty 1) (rename_hist f h))) = true.
Proof. vm_compute. repeat split. Qed.
