(* Property C06 — only users with an allowed e-mail domain (and, when roles are
   configured, an allowed role or group) are served or logged in.
   This file contains only the property theorems, each closed by `exact`, with
   Print Assumptions beneath.  Model: Model/Middleware.v (serve); monitor:
   Spec/WorldSpec.c06_step; proofs: Proofs/W_C06.v. *)
From VF Require Import Base.Prelude Model.Cache Model.Session Model.Middleware Corr.WorldCorr Spec.WorldSpec.
From VF Require Import Proofs.WorldBase Proofs.W_C06 Proofs.W_BExample.
Open Scope N_scope.

(* Every step of the model satisfies c06_step: a gated request is forwarded
   only under a non-empty effective e-mail whose domain is allowed and with an
   effective token whose roles/groups are allowed; a login is accepted only for
   an allowed, non-empty e-mail taken from the verified token, and the stored
   e-mail is that token's. *)
Theorem C06_step :
  forall (E : env) (cfg : config) (st : inst) (now : time) (rq : request)
         (rnd : istr * istr * istr) (ans : option answer),
    env_ok E -> cfg_ok cfg -> i_ready st = true ->
    c06_step E cfg now rq ans (snd (serve E cfg st now rq rnd ans)) = true.
Proof. exact c06_serve. Qed.
Print Assumptions C06_step.

(* The domain check, byte for byte and for ALL strings: with a non-empty list
   of allowed domains an e-mail passes exactly when it contains exactly one '@'
   (byte 64) and what follows it equals a listed domain. *)
Theorem C06_allowed_domain :
  forall (E : env) (cfg : config) (email : istr),
    allowed_domain E cfg email = true <->
    (c_domains cfg = [] \/
     exists local dom,
       bytes_of E email = local ++ 64 :: dom /\ ~ In 64 local /\ ~ In 64 dom
       /\ exists d, In d (c_domains cfg) /\ bytes_of E d = dom).
Proof. exact allowed_domain_spec. Qed.
Print Assumptions C06_allowed_domain.

Theorem C06_split_at :
  forall (s a b : list N), split_at s = [a; b] <-> s = a ++ 64 :: b /\ ~ In 64 a /\ ~ In 64 b.
Proof. exact split_at_two. Qed.
Print Assumptions C06_split_at.

(* Non-vacuity: with the domain list ["ex"], a valid session of "a@ex" is
   forwarded, the same session for "a@ev" is refused with 403, and a login whose
   verified token says "a@ev" is refused with 403 without any cookie. *)
Example C06_nonvacuous :
  let E := b_ex_env in let cfg := b_ex_cfg in let st := b_ex_inst in
  let now := (1010 * 1000000000)%Z in
  let sess (email t : istr) : jar :=
    [(CMain, Sealed 7 CMain [(1, VB true); (2, VZ 1000); (6, VS email)]);
     (CAcc, Sealed 7 CAcc [(1, VC [PSlice t 0]); (2, VB true)])] in
  let good := snd (serve E cfg st now (b_ex_req 30 0 0 [] (sess 20 50)) (60, 61, 62) None) in
  let evil := snd (serve E cfg st now (b_ex_req 30 0 0 [] (sess 22 51)) (60, 61, 62) None) in
  let pending : jar := [(CMain, Sealed 7 CMain [(3, VS 60); (4, VS 61); (5, VS 62); (7, VS 30)])] in
  let login := snd (serve E cfg st now (b_ex_req 31 60 70 [] pending) (0, 0, 0) (Some (AOk 51 80))) in
  env_ok E /\ cfg_ok cfg /\ i_ready st = true
  /\ forwarded good = true /\ r_status good = 200
  /\ c06_step E cfg now (b_ex_req 30 0 0 [] (sess 20 50)) None good = true
  /\ forwarded evil = false /\ r_status evil = 403
  /\ r_status login = 403 /\ r_cookies login = [] /\ r_calls login = [PExchange 70 5 6 62]
  /\ allowed_domain E cfg 20 = true /\ allowed_domain E cfg 22 = false.
Proof.
  split; [exact b_ex_env_ok|]. split; [exact b_ex_cfg_ok|]. vm_compute. repeat split.
Qed.
