(* Property C04 — an established session is served without instance-local
   state: by a freshly started instance at any point, or by requests routed
   among several instances.
   This file contains only the property theorems, each closed by `exact`, with
   Print Assumptions beneath.  The model is Model/Middleware.v (serve) and
   Model/World.v (honest-browser histories, each event naming an arbitrary
   instance state), the monitor is Spec/WorldSpec.c04_browser (the same boolean
   the correspondence check applies to the Go implementation), the proofs are
   in Proofs/W_C04.v (stateless, steady) and Proofs/W_C04S.v (completion step,
   monitor Spec/WorldSpec.c04_step). *)
From VF Require Import Base.Prelude Model.Cache Model.Session Model.Middleware Model.World Corr.WorldCorr Spec.WorldSpec.
From VF Require Import Proofs.WorldBase Proofs.W_C07 Proofs.W_C04 Proofs.W_BExample Proofs.W_Example Proofs.W_C04S.
Open Scope N_scope.

(* A gated request whose cookies hold an authenticated session for ID token t
   (e-mail stored, non-empty and of an allowed domain; roles allowed) while t is
   accepted and more than the grace period + 2 s from expiry gets the SAME
   response from EVERY ready instance state st1, st2 — empty or warm
   verification caches, any blacklist, any discovered endpoints — whatever
   random values the step would draw and whatever the provider would answer:
   status 200, forwarded (or the answered CORS preflight), no provider call, no
   Set-Cookie. *)
Theorem C04_stateless :
  forall (E : env) (cfg : config) (now : time) (rq : request) (t : istr),
    gated E cfg rq = true ->
    authenticated now (carried cfg now rq) = true ->
    get_access (nchunks E) (carried cfg now rq) = TTok t ->
    get_str 6 (s_main (carried cfg now rq)) <> 0 ->
    domain_ok E cfg (get_str 6 (s_main (carried cfg now rq))) = true ->
    roles_ok E cfg (TTok t) = true ->
    comfortably_valid E cfg now t = true ->
    forall (st1 st2 : inst) (rnd1 rnd2 : istr * istr * istr) (ans1 ans2 : option answer),
      i_ready st1 = true -> i_ready st2 = true ->
      let r1 := snd (serve E cfg st1 now rq rnd1 ans1) in
      let r2 := snd (serve E cfg st2 now rq rnd2 ans2) in
      r1 = r2 /\ r_calls r1 = [] /\ r_cookies r1 = []
      /\ N.eqb (r_status r1) 200 = true
      /\ (forwarded r1 = true \/ (q_options rq = true /\ q_origin rq <> 0 /\ r_cors r1 = true)).
Proof. exact C04_stateless_thm. Qed.
Print Assumptions C04_stateless.

(* Along EVERY honest-browser history of the model, each event served by an
   arbitrary ready instance state: once a login or refresh stored token t, every
   gated request made while t is comfortably valid (and its e-mail / roles are
   allowed) is forwarded — or is the answered CORS preflight — with no provider
   call, until a logout or the next stored token.
   Premises beyond env_ok / cfg_ok, each shown necessary by an Example in
   Proofs/W_C04.v:
     events_sound  every serving instance is ready and its verification cache is
                   sound (inst_ok: true of a fresh instance, preserved by serve);
                   C04_needs_inst_ok
     nondecreasing the instants of the history do not go backwards;
                   C04_needs_nondecreasing
     no_timeout    no request carries a session past the 24 h absolute timeout —
                   by design such a session is not served; C04_needs_no_timeout *)
Theorem C04_steady :
  forall (E : env) (cfg : config) (evs : list event) (t0 : time),
    env_ok E -> cfg_ok cfg -> events_sound E evs ->
    nondecreasing t0 evs = true ->
    no_timeout cfg (browser_run E cfg [] evs) = true ->
    c04_browser E cfg None (browser_run E cfg [] evs) = true.
Proof. exact C04_steady_thm. Qed.
Print Assumptions C04_steady.

(* Non-vacuity: a login storing token 50 on a fresh instance, then two gated
   requests served by two different instance states (a fresh one; one with other
   endpoints and warm caches): premises and conclusion hold, both requests are
   forwarded with no call and no cookie while the token is comfortably valid,
   and the two instances give the very same response to the same request. *)
Example C04_nonvacuous :
  let run := browser_run b_ex_env b_ex_cfg [] (c4_ex_events 80 1002) in
  env_ok b_ex_env /\ cfg_ok b_ex_cfg /\ events_sound b_ex_env (c4_ex_events 80 1002)
  /\ nondecreasing 0%Z (c4_ex_events 80 1002) = true
  /\ no_timeout b_ex_cfg run = true
  /\ c04_browser b_ex_env b_ex_cfg None run = true
  /\ map (fun s => stored_by b_ex_env b_ex_cfg s) run = [None; Some 50; None; None]
  /\ map (fun s => (r_status (w_obs s), forwarded (w_obs s), r_calls (w_obs s), r_cookies (w_obs s)))
         (skipn 2 run) = [(200, true, [], []); (200, true, [], [])]
  /\ map (fun s => comfortably_valid b_ex_env b_ex_cfg (w_now s) 50) (skipn 2 run) = [true; true]
  /\ (let rq := w_rq (nth 2 run (mkStep 0 0 0%Z (b_ex_req 30 0 0 [] []) (0, 0, 0) None resp0 0)) in
      gated b_ex_env b_ex_cfg rq = true
      /\ authenticated (c4_s 1002) (carried b_ex_cfg (c4_s 1002) rq) = true
      /\ get_access (nchunks b_ex_env) (carried b_ex_cfg (c4_s 1002) rq) = TTok 50
      /\ snd (serve b_ex_env b_ex_cfg c4_inst_a (c4_s 1002) rq (1, 2, 3) None)
         = snd (serve b_ex_env b_ex_cfg c4_inst_b (c4_s 1002) rq (4, 5, 6) (Some (AOk 51 9)))).
Proof.
  split; [exact b_ex_env_ok|]. split; [exact b_ex_cfg_ok|]. split; [exact (c4_ex_events_sound 80)|].
  vm_compute. repeat split.
Qed.

(* Completion.  For EVERY instance state (ready or not, any caches), instant,
   request, random draw and provider answer, the response of one step satisfies
   Spec/WorldSpec.c04_step: if the provider answered with tokens (AOk id _) and
   the step made exactly one code exchange and answered 302 to a local path (a
   completed login), or made exactly one refresh grant and forwarded the request
   (a completed refresh), then that very response stores an authenticated main
   cookie and ID token id (stores_session) -- the session the later requests of
   C04_steady are served from is in the browser as soon as the login or refresh
   is reported complete.  Only env_ok is needed (the empty string is no token,
   every token needs at least one chunk). *)
Theorem C04_completion_step : forall (E : env) (cfg : config) (st : inst) (now : time) (rq : request)
    (rnd : istr * istr * istr) (ans : option answer),
  env_ok E -> c04_step E ans (snd (serve E cfg st now rq rnd ans)) = true.
Proof. exact c04_serve. Qed.
Print Assumptions C04_completion_step.

(* Non-vacuity: on the example deployment of Proofs/W_Example.v, the callback of
   a browser in the middle of a login (state 13, nonce 12), answered with ID
   token 10 and refresh token 16, takes the guarded branch of c04_step: 302 to a
   local path after exactly one code exchange, and the response stores the
   authenticated session of token 10. *)
Example C04_completion_nonvacuous :
  let r := snd (serve exE excfg ex_inst ex_now (ex_callback ex_jar_pending) ex_rnd (Some (AOk 10 16))) in
  env_ok exE
  /\ r_status r = 302 /\ is_lpath (r_loc r) = true
  /\ r_calls r = [PExchange 14 20 21 0]
  /\ emits_auth r = true /\ emitted_id exE r = Some (TTok 10)
  /\ stores_session exE 10 r = true
  /\ c04_step exE (Some (AOk 10 16)) r = true.
Proof. split; [exact exE_ok|]. vm_compute. repeat split. Qed.
