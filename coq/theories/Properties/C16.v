(* Property C16 — error responses never reflect request data unescaped.
   Only the property theorems, each closed by `exact`, with Print Assumptions
   beneath.  Model: Model/Html.v (html.EscapeString and the error page, byte
   level) and Model/Middleware.v (which body kind every error site produces);
   proofs: Proofs/HtmlProofs.v, Proofs/W_C17.v; correspondence with the Go code:
   Corr/HtmlCorr.v on the cases of harness/zz_vf_escape_test.go (escaping) and
   Corr/WorldCorr.v on the world histories (body kinds, flag 1). *)
From VF Require Import Base.Prelude Model.Html Model.Cache Model.Session Model.Middleware Spec.WorldSpec.
From VF Require Import Proofs.HtmlProofs Proofs.W_C17.
Open Scope N_scope.

(* For every byte string: the escaped form contains none of the bytes
   60 62 34 39, and every ampersand in it begins one of the five entities. *)
Theorem C16_escape_safe : forall s : list N,
  Forall (fun c => markup_byte c = false) (html_escape s)
  /\ amps_ok (html_escape s) = true
  /\ (forall a b, html_escape s = a ++ 38 :: b -> exists c t r, In (c, t) entities /\ b = t ++ r).
Proof. exact (fun s => conj (escape_no_markup s) (conj (escape_amps_ok s) (escape_amp s))). Qed.
Print Assumptions C16_escape_safe.

(* Decoding the five entities gives the message back: escaping loses nothing
   and is injective. *)
Theorem C16_unescape_escape : forall s : list N, html_unescape_basic (html_escape s) = s.
Proof. exact unescape_escape. Qed.
Print Assumptions C16_unescape_escape.

(* The error page: whatever the message (request data included), what stands
   between the fixed prefix (ending in <p>) and the fixed suffix (starting with
   </p>) is html_escape of it, holds no markup byte, and decodes to the message. *)
Theorem C16_page : forall pre suf msg : list N,
  let mid := between (length pre) (length suf) (page pre suf msg) in
  mid = html_escape msg
  /\ Forall (fun c => markup_byte c = false) mid
  /\ html_unescape_basic mid = msg.
Proof.
  exact (fun pre suf msg => conj (between_page pre suf msg)
                                 (conj (page_no_markup pre suf msg) (page_recovers pre suf msg))).
Qed.
Print Assumptions C16_page.

(* Every response of the model, for every request in every state: no anomaly
   flag (flag 1 = request data reflected unescaped / malformed JSON / an error
   body that is neither escaped HTML, encoder-built JSON nor text/plain), and
   an HTML or JSON error body only ever goes with a status >= 400.  The body
   kinds are an enumeration (BNone | BPlain | BHtml m | BJson m | BJson401): the
   model has no other way to answer. *)
Theorem C16_step : forall (E : env) (cfg : config) (st : inst) (now : time) (rq : request)
                          (rnd : istr * istr * istr) (ans : option answer),
  let r := snd (serve E cfg st now rq rnd ans) in
  r_flags r = []
  /\ c16_step r = true
  /\ match r_body r with BHtml _ | BJson _ => 400 <= r_status r | _ => True end.
Proof.
  exact (fun E cfg st now rq rnd ans =>
           conj (flags_serve E cfg st now rq rnd ans)
                (conj (c16_serve E cfg st now rq rnd ans)
                      (proj2 (serve_resp_wf E cfg st now rq rnd ans)))).
Qed.
Print Assumptions C16_step.

(* Non-vacuity: the bytes of <script>alert('x')& followed by a double quote and </script> *)
Example C16_nonvacuous :
  let s := [60;115;99;114;105;112;116;62;97;108;101;114;116;40;39;120;39;41;38;34;60;47;115;99;114;105;112;116;62] in
  html_escape s =
    [38;108;116;59;115;99;114;105;112;116;38;103;116;59;97;108;101;114;116;40;38;35;51;57;59;120;38;35;51;57;59;41;
     38;97;109;112;59;38;35;51;52;59;38;108;116;59;47;115;99;114;105;112;116;38;103;116;59]
  /\ existsb markup_byte s = true
  /\ existsb markup_byte (html_escape s) = false
  /\ html_unescape_basic (html_escape s) = s
  /\ html_unescape_basic [38;120;59;38] = [38;120;59;38].
Proof. vm_compute. repeat split. Qed.
