(* Property C05 — concurrent requests are handled independently (PARTIAL: see
   DESIGN.md; data races, the Go memory model and runtime aborts are outside
   any Gallina model and are searched for by the -race stress run, which is
   testing).  What is proved: the ownership discipline of the session-object
   pool implies non-interference for every schedule, and the source-text facts
   say the code follows the discipline. *)
From VF Require Import Base.Prelude Model.Pool Proofs.PoolProofs.
From VFP Require Import ParamsPool.
Open Scope N_scope.

(* For any number of in-flight handlers that use a pooled object only between
   taking it and putting it back, and for EVERY interleaving: every read a
   handler makes returns what that handler itself last wrote (never another
   request's state, nonce, tokens or identity), and every object is either in
   the pool or owned by exactly one handler. *)
Theorem C05_noninterference : forall (progs : list (list mop)) (schedule : list nat),
  forallb (disciplined false) progs = true ->
  all_ok (prun (start progs) schedule) = true /\ inv (prun (start progs) schedule).
Proof. exact pool_noninterference. Qed.
Print Assumptions C05_noninterference.

(* The discipline is necessary: with the pinned Clear (object put back while the
   handler goes on using it) a two-request schedule contaminates a response. *)
Theorem C05_refuted_if_clear_puts :
  disciplined false prog_A_pinned = false /\
  all_ok (prun (start [prog_A_pinned; prog_B]) [0; 0; 0; 0; 1; 1; 0; 1]%nat) = false.
Proof. split; [exact pinned_not_disciplined|exact pinned_contaminates]. Qed.
Print Assumptions C05_refuted_if_clear_puts.

(* The code follows the discipline: every sessionPool.Put in the package is in
   GetSession, on a local object, immediately followed by `return nil, ...`, so
   no caller ever holds a pointer to a pooled object (facts extracted from the
   source text by tools/poolfacts on every run). *)
Definition put_site_ok (s : N * (bool * bool)) : bool :=
  N.eqb (fst s) 1 && fst (snd s) && snd (snd s).

Theorem C05_put_discipline : forallb put_site_ok pool_put_sites = true.
Proof. vm_compute. reflexivity. Qed.
Print Assumptions C05_put_discipline.

Example C05_nonvacuous :
  let progs := [[MGet; MWrite 7; MRead; MWrite 8; MRead]; [MGet; MWrite 9; MRead; MPut]; [MGet; MRead]] in
  forallb (disciplined false) progs = true
  /\ all_ok (prun (start progs) [0; 1; 1; 0; 1; 2; 1; 2; 0; 0; 0]%nat) = true.
Proof. vm_compute. split; reflexivity. Qed.
