(* Property C18 — every cookie is HttpOnly, SameSite=Lax, Path=/, Secure when
   forced, at most 4096 bytes, lifetime at most 24 h.
   Only the property theorems, with Print Assumptions beneath.

   Sizes.  VFP.ParamsCookie is MEASURED on the real SessionManager by
   harness/zz_vf_cookiesize_test.go on every run of bin/check C18: the length of
   the Set-Cookie line of a chunk cookie and of a token cookie for EVERY payload
   length 0..maxCookieSize (the larger of Secure on / off, chunk name with a
   two-digit index), and of the main cookie for e-mail lengths 0..2600 with the
   other fields at their largest.  The theorems below evaluate those tables
   (vm_compute) and combine them with the chunking bound, so they fail to
   compile when a measured line exceeds the limit or a chunk length is refused.

   Attributes.  Name prefix, Path=/, HttpOnly, SameSite=Lax, Max-Age <= 86400 and
   Secure under forceHTTPS are checked by the world harness on every raw
   Set-Cookie line of every step (flag 2), sizes again by flag 3; the model
   never raises a flag (C18_attrs), and the world correspondence compares the
   flags the harness found with the model's empty list on every step. *)
From VF Require Import Base.Prelude Model.Codec Model.CookieSize Model.Cache Model.Session Model.Middleware Spec.WorldSpec.
From VF Require Import Proofs.CookieSizeProofs Proofs.W_C17.
From VFP Require Import ParamsCookie.
Open Scope N_scope.

(* every measured chunk cookie was accepted and fits *)
Theorem C18_chunk_lines : forallb (entry_ok limit) chunk_lines = true.
Proof. vm_compute. reflexivity. Qed.
Print Assumptions C18_chunk_lines.

Theorem C18_token_lines : forallb (entry_ok limit) token_lines = true.
Proof. vm_compute. reflexivity. Qed.
Print Assumptions C18_token_lines.

(* the main cookie either fits or is refused by the store (line 0), for every swept e-mail length *)
Theorem C18_main_lines : forallb (entry_within limit) main_lines = true.
Proof. vm_compute. reflexivity. Qed.
Print Assumptions C18_main_lines.

(* the tables cover exactly the payload lengths 0..max_cookie_size, in order, and
   every one of them is accepted within the limit *)
Theorem C18_chunks_covered :
  map fst chunk_lines = map N.of_nat (seq 0 (S (N.to_nat max_cookie_size)))
  /\ map fst token_lines = map N.of_nat (seq 0 (S (N.to_nat max_cookie_size)))
  /\ covered limit chunk_lines (N.to_nat max_cookie_size) = true
  /\ covered limit token_lines (N.to_nat max_cookie_size) = true
  /\ limit = 4096 /\ 0 < max_cookie_size.
Proof. vm_compute. repeat split; reflexivity. Qed.
Print Assumptions C18_chunks_covered.

(* For EVERY compressed token text s (any length, any content): the token cookie
   stores s when it fits a single cookie and nothing otherwise, the chunk
   cookies store the pieces of splitIntoChunks; nothing is lost; and every one
   of these cookies has a measured line of at most 4096 bytes. *)
Theorem C18_size : forall s : list N,
  let max := N.to_nat max_cookie_size in
  token_field max s ++ concat (chunk_fields max s) = s
  /\ fits 4096 token_lines (length (token_field max s))
  /\ Forall (fun piece => (1 <= length piece <= max)%nat /\ fits 4096 chunk_lines (length piece))
            (chunk_fields max s).
Proof.
  intros s max.
  destruct C18_chunks_covered as [_ [_ [Hc [Ht [Hl Hm]]]]].
  assert (Hmax : (0 < max)%nat) by (unfold max; lia).
  rewrite Hl in Hc, Ht.
  destruct (stored_cookies_fit 4096 token_lines chunk_lines max Hmax Ht Hc s) as [H1 H2].
  split; [exact (stored_text max Hmax s)|]. split; [exact H1|].
  apply Forall_forall. intros p Hp. split.
  - exact (proj1 (Forall_forall _ _) (chunk_fields_len max Hmax s) p Hp).
  - exact (proj1 (Forall_forall _ _) H2 p Hp).
Qed.
Print Assumptions C18_size.

(* every Max-Age the sweep saw is at most 24 h *)
Theorem C18_max_age : forallb (fun a => Z.leb a 86400) max_ages = true /\ max_ages <> [].
Proof. vm_compute. split; [reflexivity|discriminate]. Qed.
Print Assumptions C18_max_age.

(* no response of the model carries flag 2 (a Set-Cookie without the required
   attributes) or flag 3 (a Set-Cookie line over 4096 bytes), for every request
   in every state *)
Theorem C18_attrs : forall (E : env) (cfg : config) (st : inst) (now : time) (rq : request)
                           (rnd : istr * istr * istr) (ans : option answer),
  let r := snd (serve E cfg st now rq rnd ans) in
  r_flags r = [] /\ c18_step r = true.
Proof.
  exact (fun E cfg st now rq rnd ans =>
           conj (flags_serve E cfg st now rq rnd ans) (c18_serve E cfg st now rq rnd ans)).
Qed.
Print Assumptions C18_attrs.

(* Non-vacuity: a text of 2 * max + 5 bytes is stored as an empty token cookie
   and three chunk cookies of max, max and 5 bytes; the full chunk is a line of
   more than 3000 bytes, so the bound is not slack by an order of magnitude. *)
Example C18_nonvacuous :
  let max := N.to_nat max_cookie_size in
  let s := repeat 65 (2 * max + 5) in
  token_field max s = []
  /\ map (@length N) (chunk_fields max s) = [max; max; 5%nat]
  /\ (exists n, line_of chunk_lines max = Some n /\ 3000 <= n <= 4096)
  /\ (exists n, line_of chunk_lines 5 = Some n /\ 1 <= n <= 1000)
  /\ entry_ok limit (7, 5000) = false /\ entry_ok limit (7, 0) = false.
Proof.
  vm_compute. repeat split; try reflexivity;
    eexists; (split; [reflexivity|split; intros H; discriminate H]).
Qed.
