(* Property C10 — the identity headers the downstream application sees are
   exactly those derived from the verified session; nothing a client sent under
   an identity header name reaches it.
   This file contains only the property theorem, closed by `exact`, with Print
   Assumptions beneath.  Model: Model/Middleware.v (serve); monitor:
   Spec/WorldSpec.c10_step; proofs: Proofs/W_C10.v. *)
From VF Require Import Base.Prelude Model.Cache Model.Session Model.Middleware Corr.WorldCorr Spec.WorldSpec.
From VF Require Import Proofs.WorldBase Proofs.W_C10 Proofs.W_BExample.
Open Scope N_scope.

(* Every step of the model satisfies c10_step: on a gated path every header the
   downstream handler sees is either a client header under a NON-identity name,
   or X-Forwarded-User / X-Auth-Request-User = the effective e-mail,
   X-Auth-Request-Token = the effective token, X-User-Groups / X-User-Roles =
   the string elements of the token's well-typed claims, or a templated header
   = its template executed on the effective token. *)
Theorem C10_step :
  forall (E : env) (cfg : config) (st : inst) (now : time) (rq : request)
         (rnd : istr * istr * istr) (ans : option answer),
    env_ok E -> cfg_ok cfg -> i_ready st = true ->
    c10_step E cfg now rq ans (snd (serve E cfg st now rq rnd ans)) = true.
Proof. exact c10_serve. Qed.
Print Assumptions C10_step.

(* Non-vacuity: a client that supplies X-Forwarded-User (1), X-Auth-Request-Token
   (3), the templated header 0 (100) and an unrelated header (7) with a valid
   session: only the unrelated one survives (1007); 1, 2, 3, 4 and 100 carry the
   session's values. *)
Example C10_nonvacuous :
  let E := b_ex_env in let cfg := b_ex_cfg in let st := b_ex_inst in
  let now := (1010 * 1000000000)%Z in
  let sess : jar :=
    [(CMain, Sealed 7 CMain [(1, VB true); (2, VZ 1000); (6, VS 20)]);
     (CAcc, Sealed 7 CAcc [(1, VC [PSlice 50 0]); (2, VB true)])] in
  let rq := b_ex_req 30 0 0 [1; 3; 7; 100] sess in
  let r := snd (serve E cfg st now rq (60, 61, 62) None) in
  env_ok E /\ cfg_ok cfg /\ i_ready st = true /\ gated E cfg rq = true
  /\ r_fwd r = Some [(1, HStr 20); (2, HStr 20); (3, HStr 50); (4, HList [91; 92]); (6, HStr 30);
                     (100, HStr 90); (1007, HStr 0)]
  /\ c10_step E cfg now rq None r = true.
Proof.
  split; [exact b_ex_env_ok|]. split; [exact b_ex_cfg_ok|]. vm_compute. repeat split.
Qed.
