(* Property C14 — a token is accepted only while it is valid; verdicts served
   from the verification cache never outlive the token; a revoked token is
   rejected.  The kernel: VerifyToken with its cache and blacklist.
   Only the property theorems, each closed by `exact`, with Print Assumptions
   beneath.  Model: Model/Middleware.v (verify_token), Model/Cache.v,
   Model/Revoke.v (RevokeToken, histories); proofs: Proofs/VerifyProofs.v;
   invariant and premises: Proofs/WorldBase.v. *)
From VF Require Import Base.Prelude Model.Cache Model.Session Model.Middleware Model.Revoke Corr.WorldCorr Spec.WorldSpec.
From VF Require Import Proofs.WorldBase Proofs.VerifyProofs Proofs.W_Example.
Open Scope N_scope.

(* History-level statement: for every history of VerifyToken / RevokeToken calls
   and passages of (non-negative) time on a fresh instance, every `true`
   verdict — whether computed or served from the verification cache — implies
   that the token passes signature, issuer, audience and time-window checks AT
   THAT INSTANT. *)
Theorem C14_history : forall (E : env) (ready : bool) (a e : istr) (now : time) (h : list vstep),
  env_ok E -> waits_nonneg h = true ->
  forall now' t, In (now', t, true) (vrun E (fresh_inst ready a e) now h) -> accept_at now' (tok E t) = true.
Proof. exact vrun_sound_fresh. Qed.
Print Assumptions C14_history.

(* The same from any state satisfying the invariant. *)
Theorem C14_history_from : forall (E : env) (h : list vstep) (st : inst) (now : time),
  env_ok E -> inst_ok E st now -> waits_nonneg h = true ->
  forall now' t, In (now', t, true) (vrun E st now h) -> accept_at now' (tok E t) = true.
Proof. exact vrun_sound. Qed.
Print Assumptions C14_history_from.

(* One call: soundness (a cache hit included) ... *)
Theorem C14_sound : forall (E : env) (st : inst) (now : time) (t : istr),
  env_ok E -> inst_ok E st now -> snd (verify_token E st now t) = true -> accept_at now (tok E t) = true.
Proof. exact verify_token_sound. Qed.
Print Assumptions C14_sound.

(* ... and completeness: an acceptable token presented for the first time (not
   blacklisted, jti not seen) is accepted. *)
Theorem C14_complete : forall (E : env) (st : inst) (now : time) (t : istr),
  inst_ok E st now -> fresh_for E st t -> accept_at now (tok E t) = true ->
  snd (verify_token E st now t) = true.
Proof. exact verify_token_complete. Qed.
Print Assumptions C14_complete.

(* The invariant is kept by VerifyToken and by the passage of time. *)
Theorem C14_invariant : forall (E : env) (st : inst) (now : time) (t : istr),
  env_ok E -> inst_ok E st now -> inst_ok E (fst (verify_token E st now t)) now.
Proof. exact inst_ok_verify. Qed.
Print Assumptions C14_invariant.

Theorem C14_invariant_time : forall (E : env) (st : inst) (now now' : time),
  inst_ok E st now -> (now <= now')%Z -> inst_ok E st now'.
Proof. exact inst_ok_mono. Qed.
Print Assumptions C14_invariant_time.

(* Every entry VerifyToken adds to the verification cache expires exactly at
   the token's own `exp` (in ns): a cached accept never outlives the token. *)
Theorem C14_ttl : forall (E : env) (st : inst) (now : time) (t k : istr) (e : entry),
  lookup k (items (i_tcache (fst (verify_token E st now t)))) = Some e ->
  lookup k (items (i_tcache st)) = Some e
  \/ (k = t /\ e_exp e = (ti_exp (tok E t) * sec)%Z /\ accept_at now (tok E t) = true
      /\ snd (verify_token E st now t) = true).
Proof. exact VerifyProofs.C14_ttl. Qed.
Print Assumptions C14_ttl.

(* A rejected token is not cached: the verification cache is what the initial
   lookup left of it, holds nothing for t and nothing new. *)
Theorem C14_failed_not_cached : forall (E : env) (st : inst) (now : time) (t : istr),
  snd (verify_token E st now t) = false ->
  i_tcache (fst (verify_token E st now t)) = fst (get now t (i_tcache st))
  /\ lookup t (items (i_tcache (fst (verify_token E st now t)))) = None
  /\ (forall k e, lookup k (items (i_tcache (fst (verify_token E st now t)))) = Some e ->
                  lookup k (items (i_tcache st)) = Some e).
Proof. exact VerifyProofs.C14_failed_not_cached. Qed.
Print Assumptions C14_failed_not_cached.

(* RevokeToken (as repaired: the blacklist entry lasts until max(24 h, the end
   of the token's own acceptance window)): the very next VerifyToken of the
   token answers false, from any state and whatever the token says (even if it
   was cached as verified) ... *)
Theorem C14_revoke_next : forall (E : env) (st : inst) (now : time) (t : istr),
  snd (verify_token E (revoke E st now t) now t) = false.
Proof. exact revoke_next. Qed.
Print Assumptions C14_revoke_next.

(* ... and it is NEVER accepted again: for every history h of VerifyToken /
   RevokeToken calls on ANY tokens and passages of (non-negative) time after the
   revocation, every verdict on t along the way is false, and so is a
   verification of t in the state and at the instant the history ends — either
   the blacklist entry is still there, or it has lapsed, and then the token's
   own acceptance window (exp + 120 s) has lapsed too.
   The premise says the blacklist never evicts: the entries it held before the
   revocation, plus the revocation's, plus one per later call (each call adds
   at most one: a jti, or a revoked token) fit its capacity.  Without it the
   statement is false (C14_eviction_witness below): the blacklist is a bounded
   LRU cache shared with the jti replay list. *)
Theorem C14_revoked_never_accepted : forall (E : env) (st : inst) (now : time) (t : istr) (h : list vstep),
  env_ok E -> waits_nonneg h = true ->
  (length (items (i_black st)) + S (inserts h) <= cap (i_black st))%nat ->
  (forall now', ~ In (now', t, true) (vrun E (revoke E st now t) now h))
  /\ snd (verify_token E (fst (vstate E (revoke E st now t) now h))
                          (snd (vstate E (revoke E st now t) now h)) t) = false.
Proof. exact revoked_never_accepted_room. Qed.
Print Assumptions C14_revoked_never_accepted.

(* The step-level kernel of it: a token that is `banned` in a state (absent
   from the verification cache and, if it could ever be accepted, covered by a
   blacklist entry that outlives its acceptance window or past that window) is
   rejected at that instant. *)
Theorem C14_banned_rejected : forall (E : env) (st : inst) (t : istr) (now : time),
  banned E st t now -> snd (verify_token E st now t) = false.
Proof. exact banned_rejects. Qed.
Print Assumptions C14_banned_rejected.

Theorem C14_revoke_bans : forall (E : env) (st : inst) (now : time) (t : istr),
  banned E (revoke E st now t) t now.
Proof. exact banned_revoke. Qed.
Print Assumptions C14_revoke_bans.

(* Non-vacuity: token 10 of W_Example.v expires at 1000 s (accepted until
   1120 s with the clock-skew allowance).  Verified at 500 s it is accepted and
   cached; at 600 s the verdict is a cache hit; at 1100 s the cache entry is
   gone (it expired with the token at 1000 s) and the token is re-verified and
   still within the allowance; at 1200 s it is rejected; a string that is not a
   token is rejected; after a revocation the cached token is rejected. *)
Example C14_nonvacuous :
  env_ok exE
  /\ vrun exE ex_inst ex_now
          [Verify 10; Wait (100 * sec)%Z; Verify 10; Wait (500 * sec)%Z; Verify 10; Wait (100 * sec)%Z; Verify 10; Verify 9]
     = [((500 * sec)%Z, 10, true); ((600 * sec)%Z, 10, true); ((1100 * sec)%Z, 10, true);
        ((1200 * sec)%Z, 10, false); ((1200 * sec)%Z, 9, false)]
  /\ snd (get (600 * sec)%Z 10 (i_tcache (fst (verify_token exE ex_inst ex_now 10)))) = Some 1%Z
  /\ snd (get (1100 * sec)%Z 10 (i_tcache (fst (verify_token exE ex_inst ex_now 10)))) = None
  /\ vrun exE ex_inst ex_now [Verify 10; Revoke 10; Verify 10; Wait (3600 * sec)%Z; Verify 10]
     = [((500 * sec)%Z, 10, true); ((500 * sec)%Z, 10, false); ((4100 * sec)%Z, 10, false)]
  (* the long-lived token 16 (exp 48 h ahead), revoked: still rejected after 25 h, 47 h and 49 h *)
  /\ vrun exE ex_inst ex_now [Verify 16; Revoke 16; Wait (90000 * sec)%Z; Verify 16;
                              Wait (79200 * sec)%Z; Verify 16; Wait (7200 * sec)%Z; Verify 16]
     = [((500 * sec)%Z, 16, true); ((90500 * sec)%Z, 16, false); ((169700 * sec)%Z, 16, false);
        ((176900 * sec)%Z, 16, false)].
Proof. split; [exact exE_ok|]. vm_compute. repeat split. Qed.

(* The behaviour before the repair, kept as a refuted witness: with a fixed
   24 h blacklist entry, `Revoke t; Wait 25 h; Verify t` on a token that expires
   48 h ahead answers true — the revoked token verifies again. *)
Definition revoke_24h (st : inst) (now : time) (t : istr) : inst :=
  mkInst (i_ready st) (i_auth_url st) (i_end_session st)
         (delete t (i_tcache st)) (set now t 1%Z day (i_black st)).

Example C14_refuted_fixed_24h :
  let later := (ex_now + 90000 * sec)%Z in
  accept_at later (tok exE 16) = true
  /\ snd (verify_token exE (revoke_24h ex_inst ex_now 16) later 16) = true
  /\ snd (verify_token exE (revoke exE ex_inst ex_now 16) later 16) = false.
Proof. vm_compute. repeat split. Qed.

(* The capacity premise of C14_revoked_never_accepted is necessary: the
   blacklist is a 500-entry LRU cache that also receives the jti of every
   verified token.  Revoke token 16, verify 500 other tokens carrying distinct
   jti values (all at the same instant): the 500th store evicts the least
   recently used entry — the revocation — and token 16 verifies again. *)
Example C14_eviction_witness :
  let others := map (fun n => Verify (N.of_nat n)) (seq 1000 500) in
  last (vrun exE ex_inst ex_now ([Revoke 16] ++ others ++ [Verify 16])) (0%Z, 0, false)
  = (ex_now, 16, true)
  /\ (length (items (i_black ex_inst)) + S (inserts (others ++ [Verify 16%N])) = 502)%nat
  /\ cap (i_black ex_inst) = 500%nat.
Proof. vm_compute. repeat split. Qed.
