(* Property C13 — the cache stays within capacity, evicts expired-then-LRU, and
   is safe under concurrency.  This file contains only the property theorems,
   each closed by `exact` (the lock facts by computation on the generated
   table), with Print Assumptions beneath, and non-vacuity examples.
   Model: Model/Cache.v; monitor: Spec/CacheLruSpec.v; lock rule:
   Spec/LockSpec.v; proofs: Proofs/CacheLru.v, Proofs/Locked.v. *)
From VF Require Import Base.Prelude Model.Cache Spec.CacheSpec Spec.CacheLruSpec Spec.LockSpec
                       Proofs.CacheProofs Proofs.Locked Proofs.CacheLru.
From VFP Require ParamsLock.
Open Scope Z_scope.

(* Full statement over histories: for every capacity n >= 1 and EVERY finite
   history of Set/Get/Delete/Cleanup (any length, any instants), what the model
   does satisfies the C13 monitor after every operation: at most n entries; a new
   key stored into a full cache makes exactly one key disappear, an expired one
   if any is expired at that instant, otherwise the least recently used (Set and
   successful Get count as use, recency computed from the history alone); in all
   other situations only expired entries (or the argument of Delete) disappear.
   This is the same boolean the correspondence check applies to the Go
   implementation's observations. *)
Theorem C13_history : forall (n : nat) (h : list (time * op)),
  (0 < n)%nat ->
  check_lru n h (snd (run (empty n) h)) (map (fun c => keys (items c)) (states (empty n) h)) = true.
Proof. exact run_check_lru. Qed.
Print Assumptions C13_history.

(* Every state reached from the empty cache of capacity n >= 1 holds at most n entries. *)
Theorem C13_capacity : forall (n : nat) (h : list (time * op)) (c : cache),
  (0 < n)%nat -> In c (states (empty n) h) -> (length (items c) <= n)%nat /\ cap c = n.
Proof. exact capacity_respected. Qed.
Print Assumptions C13_capacity.

(* Victim, explicit form.  Set of a new key k into a full well-formed cache
   removes exactly one key x = victim now c, stores k at the back of the usage
   order and leaves every other entry (key, value, expiry) and their relative
   order untouched ... *)
Theorem C13_victim : forall (now : time) (k : key) (v ttl : Z) (c : cache),
  wf c -> (0 < cap c)%nat -> lookup k (items c) = None -> (cap c <= length (items c))%nat ->
  exists x,
    victim now c = Some x
    /\ In x (keys (items c)) /\ x <> k
    /\ items (set now k v ttl c) = remove_assoc x (items c) ++ [(k, mkEntry v (now + ttl))]
    /\ order (set now k v ttl c) = remove_key x (order c) ++ [k]
    /\ cap (set now k v ttl c) = cap c
    /\ lookup x (items (set now k v ttl c)) = None
    /\ lookup k (items (set now k v ttl c)) = Some (mkEntry v (now + ttl))
    /\ (forall k', k' <> x -> k' <> k -> lookup k' (items (set now k v ttl c)) = lookup k' (items c))
    /\ length (items (set now k v ttl c)) = length (items c).
Proof. exact set_full_victim. Qed.
Print Assumptions C13_victim.

(* ... where the victim is the first key of the usage order whose entry is
   expired at `now` if there is one, otherwise the front of the usage order. *)
Theorem C13_victim_choice : forall (now : time) (c : cache) (x : key),
  victim now c = Some x ->
  (exists l1 l2, order c = l1 ++ x :: l2 /\ key_expired now (items c) x = true
                 /\ forall y, In y l1 -> key_expired now (items c) y = false)
  \/ ((forall y, In y (order c) -> key_expired now (items c) y = false)
      /\ exists l2, order c = x :: l2).
Proof. exact victim_spec. Qed.
Print Assumptions C13_victim_choice.

(* Use.  A Get that hits, a Set that overwrites and a Set of a new key put k at
   the back of the usage order; the list of the other keys is literally
   unchanged (for a new key: minus the victim when the cache was full). *)
Theorem C13_use : forall (now : time) (k : key) (c : cache),
  wf c -> (0 < cap c)%nat ->
  (forall e, lookup k (items c) = Some e -> expired now e = false ->
     order (fst (get now k c)) = remove_key k (order c) ++ [k]
     /\ remove_key k (order (fst (get now k c))) = remove_key k (order c)
     /\ items (fst (get now k c)) = items c)
  /\ (forall v ttl e0, lookup k (items c) = Some e0 ->
     order (set now k v ttl c) = remove_key k (order c) ++ [k]
     /\ remove_key k (order (set now k v ttl c)) = remove_key k (order c))
  /\ (forall v ttl, lookup k (items c) = None ->
     order (set now k v ttl c) = order (make_room now c) ++ [k]
     /\ remove_key k (order (set now k v ttl c)) = order (make_room now c)
     /\ (make_room now c = c \/ exists x, victim now c = Some x /\ make_room now c = remove x c)).
Proof. exact use_moves_to_back. Qed.
Print Assumptions C13_use.

(* Retention: "an unexpired entry is never lost while fewer than capacity other
   keys have been used since its own last use".  In a run from the empty cache
   of capacity n >= 1: if step (t, o), after any history h1, uses k (Set k, or
   Get k returning a value) and in the following steps h2 key k is never the
   argument of Delete, its entry (as the history describes it) is unexpired at
   the instant of every step, and fewer than n DISTINCT other keys are used
   (Set, or Get returning a value), then k is in the cache after h2. *)
Theorem C13_retention : forall (n : nat) (h1 : list (time * op)) (t : time) (o : op)
                               (h2 : list (time * op)) (k : key),
  (0 < n)%nat ->
  use_of o (snd (step (fst (run (empty n) h1)) (t, o))) = Some k ->
  (forall t', ~ In (t', ODel k) h2) ->
  live_through k ((t, o) :: rev h1) h2 ->
  (length (nodup N.eq_dec (remove_key k (used (fst (step (fst (run (empty n) h1)) (t, o))) h2))) < n)%nat ->
  In k (keys (items (fst (run (empty n) (h1 ++ (t, o) :: h2))))).
Proof. exact retention. Qed.
Print Assumptions C13_retention.

(* The same clause for ANY observations the monitor accepts (in particular the
   Go implementation's, on every generated case): the per-step conditions of the
   monitor imply retention, so the monitor states no less than the property.
   (Extra premise: k is not overwritten in h2 by an entry that is expired on
   arrival — the property lets a cache drop such an entry at once.) *)
Theorem C13_monitor_retention :
  forall (capacity : nat) (h1 : list (time * op)) (t : time) (o : op) (h2 : list (time * op))
         (outs1 : list (option Z)) (out : option Z) (outs2 : list (option Z))
         (pres1 : list (list key)) (after : list key) (pres2 : list (list key)) (k : key),
  check_lru capacity (h1 ++ (t, o) :: h2) (outs1 ++ out :: outs2) (pres1 ++ after :: pres2) = true ->
  length outs1 = length h1 -> length pres1 = length h1 ->
  use_of o out = Some k -> In k after ->
  (forall t', ~ In (t', ODel k) h2) ->
  (forall t' v ttl, In (t', OSet k v ttl) h2 -> 0 <= ttl) ->
  live_through k ((t, o) :: rev h1) h2 ->
  (length (nodup N.eq_dec (remove_key k (uses_of h2 outs2))) < capacity)%nat ->
  In k (last pres2 after).
Proof. exact monitor_retention. Qed.
Print Assumptions C13_monitor_retention.

(* Concurrency, generic part (see the header of Proofs/Locked.v for what is and
   is not modelled): for any sequential object `step`, any bodies that compute
   it when run alone, any number of threads each executing
   Lock; micro-steps of one body; Unlock, and ANY schedule: whenever the lock is
   free the shared state and the returned values are those of the sequential
   execution of the operations in lock-acquisition order, each thread received
   exactly its share of them, and each thread's operations appear in program
   order. *)
Theorem C13_locked_linearizable :
  forall (S Op Out : Type) (step : S -> Op -> S * Out) (body : Op -> prog S Out),
  (forall op s, run_prog (body op) s = step s op) ->
  forall (s0 : S) (progs : nat -> list Op) (schedule : list nat),
  let cf := exec body (init s0 progs) schedule in
  holder cf = None ->
  seq_run step s0 (map snd (acq cf)) = (shared cf, rets cf)
  /\ (forall i, outs (threads cf i) = map snd (filter (mine_out i) (combine (acq cf) (rets cf))))
  /\ (forall i, map snd (filter (mine i) (acq cf)) ++ todo (threads cf i) = progs i).
Proof. exact locked_linearizable. Qed.
Print Assumptions C13_locked_linearizable.

(* No deadlock in that machine: while some thread has work left, some thread can move. *)
Theorem C13_no_deadlock :
  forall (S Op Out : Type) (step : S -> Op -> S * Out) (body : Op -> prog S Out),
  (forall op s, run_prog (body op) s = step s op) ->
  forall (s0 : S) (progs : nat -> list Op) (schedule : list nat),
  let cf := exec body (init s0 progs) schedule in
  (exists i, todo (threads cf i) <> [] \/ cur (threads cf i) <> None) ->
  exists i, enabled cf i.
Proof. exact locked_no_deadlock. Qed.
Print Assumptions C13_no_deadlock.

(* Concurrency, instantiated for the cache: under the lock discipline, whenever
   no operation is in flight the cache is the state of a sequential run (in
   lock-acquisition order), hence well formed, within capacity, and the C13
   monitor holds of that history and of the values handed to the threads. *)
Theorem C13_concurrent :
  forall (body : time * op -> prog cache (option Z)) (n : nat) (progs : nat -> list (time * op))
         (schedule : list nat),
  (forall ev s, run_prog (body ev) s = step s ev) ->
  (0 < n)%nat ->
  let cf := exec body (init (empty n) progs) schedule in
  holder cf = None ->
  let h := map snd (acq cf) in
  run (empty n) h = (shared cf, rets cf)
  /\ (forall i, outs (threads cf i) = map snd (filter (mine_out i) (combine (acq cf) (rets cf))))
  /\ (forall i, map snd (filter (mine i) (acq cf)) ++ todo (threads cf i) = progs i)
  /\ wf (shared cf)
  /\ (length (items (shared cf)) <= n)%nat
  /\ check_lru n h (rets cf) (map (fun c => keys (items c)) (states (empty n) h)) = true.
Proof. exact cache_concurrent. Qed.
Print Assumptions C13_concurrent.

(* The lock discipline itself, read off the source text of the package on this
   run (coq/gen/params/ParamsLock.v, written by tools/lockfacts): every method
   of Cache fits the thread shape of the theorem above — what touches
   items/order/elems/maxSize runs between c.mutex.Lock() and the deferred
   Unlock of the same call chain, helpers are reachable only from there, no
   method that locks is entered with the lock held ... *)
Theorem C13_lock_discipline :
  forallb (method_locked VFP.ParamsLock.cache_methods) VFP.ParamsLock.cache_methods = true.
Proof. vm_compute. reflexivity. Qed.
Print Assumptions C13_lock_discipline.

(* ... Set/Get/Delete/Cleanup exist and take the lock themselves, and nothing
   outside the methods of Cache mentions the guarded fields. *)
Theorem C13_lock_entry_points :
  lock_discipline VFP.ParamsLock.cache_methods cache_entry_points
                  VFP.ParamsLock.cache_outside_access = true.
Proof. vm_compute. reflexivity. Qed.
Print Assumptions C13_lock_entry_points.

(* Non-vacuity.  A concrete history of capacity 2 that overflows twice: the
   first eviction prefers the expired entry (key 2) over the least recently
   used, the second takes the least recently used (key 3, because key 1 was
   read since); the monitor accepts what the model does and REJECTS the same
   observation with the other key evicted, or with three entries kept. *)
Example C13_nonvacuous :
  let h := [(1, OSet 1%N 10 100); (2, OSet 2%N 20 5); (9, OSet 3%N 30 100); (10, OGet 1%N);
            (11, OSet 4%N 40 100); (12, OGet 3%N); (13, OGet 1%N)] in
  snd (run (empty 2) h) = [None; None; None; Some 10; None; None; Some 10]
  /\ map (fun c => order c) (states (empty 2) h)
     = [[1]; [1; 2]; [1; 3]; [3; 1]; [1; 4]; [1; 4]; [4; 1]]%N
  /\ check_lru 2 h (snd (run (empty 2) h)) (map (fun c => keys (items c)) (states (empty 2) h)) = true
  /\ check_lru 2 h (snd (run (empty 2) h)) [[1]; [1; 2]; [2; 3]; [2; 3]; [3; 4]; [3; 4]; [3; 4]]%N = false
  /\ check_lru 2 h (snd (run (empty 2) h)) [[1]; [1; 2]; [1; 3]; [3; 1]; [3; 4]; [3; 4]; [3; 4]]%N = false
  /\ check_lru 2 h (snd (run (empty 2) h)) [[1]; [1; 2]; [1; 2; 3]; [1; 2; 3]; [1; 2; 3]; [1; 2; 3]; [1; 2; 3]]%N = false.
Proof. vm_compute. repeat split. Qed.

(* the premises of the retention theorem are satisfiable: capacity 2, key 1 is
   read at instant 10; afterwards only ONE other distinct key (4) is used — the
   Get of key 3 misses because 3 was evicted — so key 1 is still there *)
Example C13_retention_nonvacuous :
  let h1 := [(1, OSet 1%N 10 100); (2, OSet 2%N 20 5); (9, OSet 3%N 30 100)] in
  let h2 := [(11, OSet 4%N 40 100); (12, OGet 3%N); (13, OSet 4%N 41 100)] in
  use_of (OGet 1%N) (snd (step (fst (run (empty 2) h1)) (10, OGet 1%N))) = Some 1%N
  /\ live_through 1%N ((10, OGet 1%N) :: rev h1) h2
  /\ nodup N.eq_dec (remove_key 1%N (used (fst (step (fst (run (empty 2) h1)) (10, OGet 1%N))) h2)) = [4%N]
  /\ In 1%N (keys (items (fst (run (empty 2) (h1 ++ (10, OGet 1%N) :: h2))))).
Proof. vm_compute. repeat split; try reflexivity. left; reflexivity. Qed.
