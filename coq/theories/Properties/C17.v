(* Property C17 — malformed or hostile input never crashes the handler or
   produces a 5xx of the middleware's own making — together with the
   response-level clauses of C16 (error bodies), C18 (cookie attributes and
   size) and C09 (no secret readable in a cookie), which for the model reduce
   to "the response carries no anomaly flag".
   Only the property theorems, each closed by `exact`, with Print Assumptions
   beneath.  Monitors: Spec/WorldSpec.v (c17_step, c16_step, c18_step,
   c09_step); proofs: Proofs/W_C17.v. *)
From VF Require Import Base.Prelude Model.Cache Model.Session Model.Middleware Corr.WorldCorr Spec.WorldSpec.
From VF Require Import Proofs.WorldBase Proofs.VerifyProofs Proofs.W_C17 Proofs.W_Example.
Open Scope N_scope.

(* For every input of a ready instance: no panic flag, never the harness's
   "no response" status, a 5xx only on the callback path when the PROVIDER
   interaction failed (the code exchange was refused, or the ID token it
   returned is unacceptable now or lacks / mismatches the nonce or lacks the
   e-mail), and a main cookie that cannot be decoded on a protected path is
   answered by the login redirect rewriting all three base cookies (401 for
   JSON clients whose refresh failed).  The premise on the answer says the
   returned ID token is presented to this instance for the first time (neither
   it nor its jti is blacklisted): a replayed token is rejected with 500 too,
   and is a provider failure the monitor does not name. *)
Theorem C17_step : forall (E : env) (cfg : config) (st : inst) (now : time) (rq : request)
                          (rnd : istr * istr * istr) (ans : option answer),
  env_ok E -> cfg_ok cfg -> inst_ok E st now -> i_ready st = true ->
  (forall id rt, ans = Some (AOk id rt) -> fresh_for E st id) ->
  c17_step E cfg (i_auth_url st) now rq ans (snd (serve E cfg st now rq rnd ans)) = true.
Proof. exact c17_serve. Qed.
Print Assumptions C17_step.

(* No model response ever carries an anomaly flag, in any state (ready or not). *)
Theorem C17_no_flags : forall (E : env) (cfg : config) (st : inst) (now : time) (rq : request)
                              (rnd : istr * istr * istr) (ans : option answer),
  r_flags (snd (serve E cfg st now rq rnd ans)) = [].
Proof. exact flags_serve. Qed.
Print Assumptions C17_no_flags.

(* C16: nothing reflected, and an HTML / JSON error body only with a status >= 400. *)
Theorem C16_step : forall (E : env) (cfg : config) (st : inst) (now : time) (rq : request)
                          (rnd : istr * istr * istr) (ans : option answer),
  c16_step (snd (serve E cfg st now rq rnd ans)) = true.
Proof. exact c16_serve. Qed.
Print Assumptions C16_step.

Theorem C18_step : forall (E : env) (cfg : config) (st : inst) (now : time) (rq : request)
                          (rnd : istr * istr * istr) (ans : option answer),
  c18_step (snd (serve E cfg st now rq rnd ans)) = true.
Proof. exact c18_serve. Qed.
Print Assumptions C18_step.

Theorem C09_step : forall (E : env) (cfg : config) (st : inst) (now : time) (rq : request)
                          (rnd : istr * istr * istr) (ans : option answer),
  c09_step (snd (serve E cfg st now rq rnd ans)) = true.
Proof. exact c09_serve. Qed.
Print Assumptions C09_step.

(* Non-vacuity: on the concrete deployment of W_Example.v a protected request
   with an undecodable main cookie takes the guarded branch of the monitor
   (login redirect covering the base cookies), a callback whose code exchange
   is refused is a 500 the monitor attributes to the provider, and the premises
   hold. *)
Example C17_nonvacuous :
  let junk := ex_req 5 ex_jar_junk in
  let cb := ex_callback ex_jar_pending in
  let run rq ans := snd (serve exE excfg ex_inst ex_now rq ex_rnd ans) in
  (env_ok exE /\ cfg_ok excfg /\ inst_ok exE ex_inst ex_now
   /\ forall id, fresh_for exE ex_inst id)
  /\ (gated exE excfg junk = true /\ unusable excfg CMain junk = true
      /\ is_auth_redirect 30 (run junk None) = true
      /\ covers (run junk None) CMain = true /\ covers (run junk None) CAcc = true
      /\ covers (run junk None) CRef = true
      /\ c17_step exE excfg 30 ex_now junk None (run junk None) = true)
  /\ (r_status (run cb (Some (AErr false))) = 500
      /\ provider_failure exE excfg ex_now cb (Some (AErr false)) (run cb (Some (AErr false))) = true
      /\ c17_step exE excfg 30 ex_now cb (Some (AErr false)) (run cb (Some (AErr false))) = true
      /\ c16_step (run cb (Some (AErr false))) = true).
Proof.
  split; [split; [exact exE_ok|split; [exact excfg_ok|split; [apply inst_ok_fresh|intros id; apply fresh_for_fresh]]]|].
  vm_compute. repeat split.
Qed.
