(* Property C17 — malformed or hostile input never crashes the handler or
   produces a 5xx of the middleware's own making — together with the
   response-level clauses of C16 (error bodies), C18 (cookie attributes and
   size) and C09 (no secret readable in a cookie), which for the model reduce
   to "the response carries no anomaly flag".
   Only the property theorems, each closed by `exact`, with Print Assumptions
   beneath.  Monitors: Spec/WorldSpec.v (c17_step, c16_step, c18_step,
   c09_step); proofs: Proofs/W_C17.v. *)
From VF Require Import Base.Prelude Model.Cache Model.Session Model.Middleware Corr.WorldCorr Spec.WorldSpec.
From VF Require Import Proofs.WorldBase Proofs.VerifyProofs Proofs.ServeLemmas Proofs.SessionProofs Proofs.W_C17 Proofs.W_C17H Proofs.W_C17P Proofs.W_C03I Proofs.W_Example.
From VF Require Import Proofs.W_C17Age.
Open Scope N_scope.

(* For every input of a ready instance: no panic flag, never the harness's
   "no response" status, a 5xx only on the callback path when the PROVIDER
   interaction failed (the code exchange was refused, or the ID token it
   returned is unacceptable now or lacks / mismatches the nonce or lacks the
   e-mail), and a main cookie that cannot be decoded on a protected path is
   answered by the login redirect rewriting all three base cookies (401 for
   JSON clients whose refresh failed).  The premise on the answer says the
   returned ID token is presented to this instance for the first time (neither
   it nor its jti is blacklisted): a replayed token is rejected with 500 too,
   and is a provider failure the monitor does not name. *)
Theorem C17_step : forall (E : env) (cfg : config) (st : inst) (now : time) (rq : request)
                          (rnd : istr * istr * istr) (ans : option answer),
  env_ok E -> cfg_ok cfg -> inst_ok E st now -> i_ready st = true ->
  (forall id rt, ans = Some (AOk id rt) -> fresh_for E st id) ->
  c17_step E cfg (i_auth_url st) now rq ans (snd (serve E cfg st now rq rnd ans)) = true.
Proof. exact c17_serve. Qed.
Print Assumptions C17_step.

(* No model response ever carries an anomaly flag, in any state (ready or not). *)
Theorem C17_no_flags : forall (E : env) (cfg : config) (st : inst) (now : time) (rq : request)
                              (rnd : istr * istr * istr) (ans : option answer),
  r_flags (snd (serve E cfg st now rq rnd ans)) = [].
Proof. exact flags_serve. Qed.
Print Assumptions C17_no_flags.

(* C16: nothing reflected, and an HTML / JSON error body only with a status >= 400. *)
Theorem C16_step : forall (E : env) (cfg : config) (st : inst) (now : time) (rq : request)
                          (rnd : istr * istr * istr) (ans : option answer),
  c16_step (snd (serve E cfg st now rq rnd ans)) = true.
Proof. exact c16_serve. Qed.
Print Assumptions C16_step.

Theorem C18_step : forall (E : env) (cfg : config) (st : inst) (now : time) (rq : request)
                          (rnd : istr * istr * istr) (ans : option answer),
  c18_step (snd (serve E cfg st now rq rnd ans)) = true.
Proof. exact c18_serve. Qed.
Print Assumptions C18_step.

Theorem C09_step : forall (E : env) (cfg : config) (st : inst) (now : time) (rq : request)
                          (rnd : istr * istr * istr) (ans : option answer),
  c09_step (snd (serve E cfg st now rq rnd ans)) = true.
Proof. exact c09_serve. Qed.
(* HEALING.  Whatever the browser's cookies are when a login completes -- junk,
   values made under another or an older key, renamed or truncated cookies under
   ANY of the names the middleware reads, as long as the numbered chunk cookies
   present form a prefix 0..a-1 / 0..r-1 (prefix_at; a browser only ever holds
   such jars unless someone deletes a middle chunk by hand) -- the Set-Cookie
   headers of the successful callback (302) leave a jar in which every cookie is
   sealed under the deployment key for its own name, with no chunk cookie beyond
   the new counts, and from which the next request reads exactly the ID token,
   refresh token and main-cookie values the callback stored.  So a login started
   from unusable cookies completes without manual cookie deletion. *)
Theorem C17_login_heals : forall (E : env) (cfg : config) (st : inst) (now now' : time) (rq : request)
                                 (rnd : istr * istr * istr) (ans : option answer) (ca cr : nat),
  i_ready st = true -> is_excluded E cfg rq = false -> is_logout cfg rq = false -> is_callback cfg rq = true ->
  prefix_at ca cr (q_jar rq) ->
  let r := snd (serve E cfg st now rq rnd ans) in
  let j' := apply_cookies (c_key cfg) (q_jar rq) (r_cookies r) in
  r_status r = 302 ->
  exists id rt, ans = Some (AOk id rt)
    /\ contiguous (c_key cfg) j'
    /\ holds_session (c_key cfg) j' (callback_sd E now (carried cfg now rq) id rt)
    /\ (session_too_old now' (s_main (callback_sd E now (carried cfg now rq) id rt)) = false ->
        let sv := callback_sd E now (carried cfg now rq) id rt in
        get_access (nchunks E) (load (c_key cfg) now' j') = get_access (nchunks E) sv
        /\ get_refresh (nchunks E) (load (c_key cfg) now' j') = get_refresh (nchunks E) sv
        /\ s_main (load (c_key cfg) now' j') = s_main sv).
Proof. exact (fun E cfg st now now' rq rnd ans ca cr => h_serve_heals E cfg st now rq rnd ans ca cr now'). Qed.
Print Assumptions C17_login_heals.

(* one Save whose chunk lists cover the jar (cov) heals any prefix jar: the
   session-level statement behind it, for every session value *)
Theorem C17_save_heals : forall (k : N) (j : jar) (sd : sdata) (ca cr : nat),
  prefix_at ca cr j ->
  cov ca (length (s_achunks sd)) (s_marked_a sd) (s_jar_a sd) ->
  cov cr (length (s_rchunks sd)) (s_marked_r sd) (s_jar_r sd) ->
  holds_session k (apply_cookies k j (save_cookies sd)) sd.
Proof. exact save_heals. Qed.
Print Assumptions C17_save_heals.

(* The premise of C17_login_heals is an invariant of the browser's jar.
   `prefix j` says: for some a, r the numbered chunk cookies present in j are
   exactly 0..a-1 / 0..r-1 (prefix_at a r j), whatever any cookie contains.
   Every response of the middleware, in any state and for any request, maps a
   prefix jar to a prefix jar (a Save deletes chunk cookies only from the number
   it writes up to the number present in the request, and only the first Save of
   a response deletes at all); and a client that replaces cookie VALUES under
   the same names keeps the jar a prefix jar (so does dropping a whole main /
   token cookie: W_C17P.prefix_remove_base; the empty jar is one:
   W_C17P.prefix_empty).  Together with C17_login_heals: the healing premise
   holds for every jar reachable from the empty jar by middleware responses and
   by client tampering with cookie values or dropping whole main / token
   cookies -- only deleting a MIDDLE chunk cookie by hand leaves the class. *)
Theorem C17_prefix_invariant : forall (E : env) (cfg : config) (st : inst) (now : time) (rq : request)
    (rnd : istr * istr * istr) (ans : option answer),
  prefix (q_jar rq) ->
  prefix (apply_cookies (c_key cfg) (q_jar rq) (r_cookies (snd (serve E cfg st now rq rnd ans)))).
Proof. exact c_serve_prefix. Qed.
Print Assumptions C17_prefix_invariant.

Theorem C17_prefix_tamper : forall (j j2 : jar), map fst j2 = map fst j -> prefix j -> prefix j2.
Proof. exact prefix_same_names. Qed.
Print Assumptions C17_prefix_tamper.

(* Every login redirect stores, in cookies that are SET (not deleted), exactly the
   state, nonce and verifier its URL shows: the recovery redirect really starts a
   login that can be completed. *)
Theorem C17_redirect_starts_login :
  forall (E : env) (cfg : config) (st : inst) (now : time) (rq : request)
         (rnd : istr * istr * istr) (ans : option answer),
    c03_init_step (snd (serve E cfg st now rq rnd ans)) = true.
Proof. exact c03_init_serve. Qed.
Print Assumptions C17_redirect_starts_login.

Print Assumptions C09_step.

(* Non-vacuity: on the concrete deployment of W_Example.v a protected request
   with an undecodable main cookie takes the guarded branch of the monitor
   (login redirect covering the base cookies), a callback whose code exchange
   is refused is a 500 the monitor attributes to the provider, and the premises
   hold. *)
Example C17_nonvacuous :
  let junk := ex_req 5 ex_jar_junk in
  let cb := ex_callback ex_jar_pending in
  let run rq ans := snd (serve exE excfg ex_inst ex_now rq ex_rnd ans) in
  (env_ok exE /\ cfg_ok excfg /\ inst_ok exE ex_inst ex_now
   /\ forall id, fresh_for exE ex_inst id)
  /\ (gated exE excfg junk = true /\ unusable excfg CMain junk = true
      /\ is_auth_redirect 30 (run junk None) = true
      /\ covers (run junk None) CMain = true /\ covers (run junk None) CAcc = true
      /\ covers (run junk None) CRef = true
      /\ c17_step exE excfg 30 ex_now junk None (run junk None) = true)
  /\ (r_status (run cb (Some (AErr false))) = 500
      /\ provider_failure exE excfg ex_now cb (Some (AErr false)) (run cb (Some (AErr false))) = true
      /\ c17_step exE excfg 30 ex_now cb (Some (AErr false)) (run cb (Some (AErr false))) = true
      /\ c16_step (run cb (Some (AErr false))) = true).
Proof.
  split; [split; [exact exE_ok|split; [exact excfg_ok|split; [apply inst_ok_fresh|intros id; apply fresh_for_fresh]]]|].
  vm_compute. repeat split.
Qed.

(* Non-vacuity of the healing theorem: a browser in the middle of a login whose
   jar also holds a junk refresh cookie, a junk ID-token chunk 0 and an ID-token
   chunk 1 sealed under another key.  The callback succeeds (302), the premises
   of C17_login_heals hold with a = 2, r = 0, the healed jar is exactly the three
   fresh cookies, and the next protected request from it is forwarded. *)
Example C17_heals_nonvacuous :
  let j := (CRef, Junk) :: (CAccChunk 0, Junk) :: (CAccChunk 1, Sealed 9 (CAccChunk 1) [(1, VC [PSlice 10 0])])
           :: ex_jar_pending in
  let rq := ex_callback j in
  let r := snd (serve exE excfg ex_inst ex_now rq ex_rnd (Some (AOk 10 16))) in
  let j' := apply_cookies (c_key excfg) j (r_cookies r) in
  (i_ready ex_inst = true /\ is_excluded exE excfg rq = false /\ is_logout excfg rq = false
   /\ is_callback excfg rq = true /\ r_status r = 302)
  /\ prefix_at 2 0 j
  /\ map fst j' = [CRef; CAcc; CMain]
  /\ forwarded (snd (serve exE excfg (fst (serve exE excfg ex_inst ex_now rq ex_rnd (Some (AOk 10 16))))
                           (ex_now + 1000000000)%Z (ex_req 5 j') ex_rnd None)) = true.
Proof.
  cbv zeta. split; [vm_compute; repeat split|]. split; [|vm_compute; repeat split].
  unfold prefix_at. split; [|split].
  - repeat constructor; cbn; intros H; repeat (destruct H as [H|H]; try discriminate H); exact H.
  - intros i. cbn. split.
    + intros [H|[H|[H|[H|[]]]]]; try discriminate H; inversion H; lia.
    + intros H. destruct i as [|[|i]]; [tauto|tauto|lia].
  - intros i. cbn. split.
    + intros [H|[H|[H|[H|[]]]]]; discriminate H.
    + intros H. lia.
Qed.

(* SESSIONS OLDER THAN THE 24-HOUR LIMIT.  A main cookie that opens under the configured key but whose session began
   more than 24 h before the request is unusable like any other: on every gated path, for every ready instance state,
   whatever else the jar holds (valid tokens, a refresh token) and whatever the provider would answer, the response
   is the login redirect, nothing is forwarded and the provider is not contacted.  Only premise: the instance is
   ready (C17_age_needs_ready shows it is needed: a not-ready instance answers 503). *)
Theorem C17_overage_session : forall (E : env) (cfg : config) (st : inst) (now : time) (rq : request)
                                     (rnd : istr * istr * istr) (ans : option answer),
  i_ready st = true ->
  c17_age_step E cfg (i_auth_url st) now rq (snd (serve E cfg st now rq rnd ans)) = true.
Proof. exact c17_age_serve. Qed.
Print Assumptions C17_overage_session.

Theorem C17_overage_redirect : forall (E : env) (cfg : config) (st : inst) (now : time) (rq : request)
                                      (rnd : istr * istr * istr) (ans : option answer),
  i_ready st = true -> gated E cfg rq = true -> overage cfg now rq = true ->
  let p := serve E cfg st now rq rnd ans in
  fst p = st /\ is_auth_redirect (i_auth_url st) (snd p) = true /\ r_fwd (snd p) = None /\ r_calls (snd p) = [].
Proof. exact c17_age_serve_redirect. Qed.
Print Assumptions C17_overage_redirect.

Example C17_age_nonvacuous := c17_age_nonvacuous.
Example C17_age_needs_ready := c17_age_needs_ready.
