(* Property C01 — a protected resource is reached only with a valid session.
   Only the property theorems, each closed by `exact`, with Print Assumptions
   beneath.  Model: Model/Middleware.v (serve), Model/Session.v; monitor:
   Spec/WorldSpec.v (c01_step = c01_gate && c01_issue, the same boolean the
   correspondence check applies to the Go implementation's responses);
   proofs: Proofs/W_C01.v over Proofs/ServeLemmas.v and Proofs/VerifyProofs.v;
   premises: Proofs/WorldBase.v. *)
From VF Require Import Base.Prelude Model.Cache Model.Session Model.Middleware Corr.WorldCorr Spec.WorldSpec.
From VF Require Import Proofs.WorldBase Proofs.VerifyProofs Proofs.W_C01 Proofs.W_Example.
Open Scope N_scope.

(* For every environment denoting real strings and tokens, every configuration,
   every state of a ready instance satisfying the verification-cache invariant,
   every request (any cookies: forged, stale, of another deployment, chunked),
   every random draw and every provider answer, the response satisfies the
   step monitor:
     - a request on an excluded path is forwarded with its headers untouched and
       no cookie is set;
     - a request on a protected path is forwarded ONLY when it carries cookies of
       this deployment holding an authenticated, unexpired session whose ID
       token is acceptable now, or when this very step refreshed the session
       with the carried refresh token and the provider returned an acceptable
       ID token; otherwise it is not forwarded and the answer is the login
       redirect to the discovered authorization endpoint or a status >= 400;
     - callback and logout requests are never forwarded;
     - an authenticated session cookie, or an ID token other than the carried
       one, is only ever stored at the end of such a successful refresh or of a
       successful code exchange on the callback path, and the stored token is
       the one that was verified at that moment. *)
Theorem C01_step : forall (E : env) (cfg : config) (st : inst) (now : time) (rq : request)
                          (rnd : istr * istr * istr) (ans : option answer),
  env_ok E -> cfg_ok cfg -> inst_ok E st now -> i_ready st = true ->
  c01_step E cfg (i_auth_url st) now rq ans (snd (serve E cfg st now rq rnd ans)) = true.
Proof. exact c01_serve. Qed.
Print Assumptions C01_step.

(* The premise about the instance state is an invariant: it holds for a fresh
   instance, is preserved by every step, and survives the passage of time; and
   no step changes readiness or the discovered endpoints.  So C01_step applies
   to every step of every history of requests with non-decreasing instants. *)
Theorem C01_invariant_fresh : forall (E : env) (ready : bool) (a e : istr) (now : time),
  inst_ok E (fresh_inst ready a e) now.
Proof. exact inst_ok_fresh. Qed.
Print Assumptions C01_invariant_fresh.

Theorem C01_invariant_step : forall (E : env) (cfg : config) (st : inst) (now : time) (rq : request)
                                    (rnd : istr * istr * istr) (ans : option answer),
  env_ok E -> inst_ok E st now -> inst_ok E (fst (serve E cfg st now rq rnd ans)) now.
Proof. exact inst_ok_serve. Qed.
Print Assumptions C01_invariant_step.

Theorem C01_invariant_time : forall (E : env) (st : inst) (now now' : time),
  inst_ok E st now -> (now <= now')%Z -> inst_ok E st now'.
Proof. exact inst_ok_mono. Qed.
Print Assumptions C01_invariant_time.

Theorem C01_endpoints_stable : forall (E : env) (cfg : config) (st : inst) (now : time) (rq : request)
                                      (rnd : istr * istr * istr) (ans : option answer),
  i_ready (fst (serve E cfg st now rq rnd ans)) = i_ready st
  /\ i_auth_url (fst (serve E cfg st now rq rnd ans)) = i_auth_url st
  /\ i_end_session (fst (serve E cfg st now rq rnd ans)) = i_end_session st.
Proof. exact serve_endpoints. Qed.
Print Assumptions C01_endpoints_stable.

(* Non-vacuity: on a concrete deployment satisfying the premises (W_Example.v)
   a request whose jar holds a valid session IS forwarded (with the identity
   headers), the same request without cookies is answered by the login redirect,
   an excluded path is forwarded untouched, and a callback completing a pending
   login with an acceptable token establishes a session storing that token —
   and the monitor holds on each. *)
Example C01_nonvacuous :
  let valid := ex_req 5 ex_jar_auth in
  let bare := ex_req 5 [] in
  let open := ex_req 4 [] in
  let cb := ex_callback ex_jar_pending in
  let run rq ans := snd (serve exE excfg ex_inst ex_now rq ex_rnd ans) in
  (env_ok exE /\ cfg_ok excfg /\ inst_ok exE ex_inst ex_now)
  /\ (carries_valid_session exE excfg ex_now valid = true
      /\ r_fwd (run valid None)
         = Some [(1, HStr 11); (2, HStr 11); (3, HStr 10); (6, HStr 5); (1007, HStr 0)])
  /\ (forwarded (run bare None) = false /\ is_auth_redirect 30 (run bare None) = true)
  /\ r_fwd (run open None) = Some [(1001, HStr 0); (1007, HStr 0)]
  /\ (establishes exE excfg ex_now cb (run cb (Some (AOk 10 0))) = true
      /\ emitted_id exE (run cb (Some (AOk 10 0))) = Some (TTok 10)
      /\ r_loc (run cb (Some (AOk 10 0))) = Some (LPath 5))
  /\ (c01_step exE excfg 30 ex_now valid None (run valid None) = true
      /\ c01_step exE excfg 30 ex_now bare None (run bare None) = true
      /\ c01_step exE excfg 30 ex_now cb (Some (AOk 10 0)) (run cb (Some (AOk 10 0))) = true).
Proof.
  split; [split; [exact exE_ok|split; [exact excfg_ok|apply inst_ok_fresh]]|].
  vm_compute. repeat split.
Qed.
