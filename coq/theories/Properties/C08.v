(* Property C08 — an expired (or nearly expired) ID token is renewed with the
   stored refresh token: one refresh grant; a good answer is stored and the
   request served under the new identity; a bad answer ends the session's use
   and a refresh token reported invalid is dropped.
   This file contains only the property theorem, closed by `exact`, with Print
   Assumptions beneath.  Model: Model/Middleware.v (serve); monitor:
   Spec/WorldSpec.c08_step; proofs: Proofs/W_C08.v. *)
From VF Require Import Base.Prelude Model.Cache Model.Session Model.Middleware Corr.WorldCorr Spec.WorldSpec.
From VF Require Import Proofs.WorldBase Proofs.W_C08 Proofs.W_BExample.
Open Scope N_scope.

(* Premises: the environment and configuration are sane, the instance's
   verification cache is sound at this instant (it is for a fresh instance and
   stays so along every history), and the token the provider returns is
   presented for the first time (not on the instance's replay blacklist). *)
Theorem C08_step :
  forall (E : env) (cfg : config) (st : inst) (now : time) (rq : request)
         (rnd : istr * istr * istr) (ans : option answer),
    env_ok E -> cfg_ok cfg -> inst_ok E st now -> i_ready st = true ->
    (forall id rt, ans = Some (AOk id rt) -> fresh_for E st id) ->
    c08_step E cfg (i_auth_url st) now rq ans (snd (serve E cfg st now rq rnd ans)) = true.
Proof. exact c08_serve. Qed.
Print Assumptions C08_step.

(* Non-vacuity: a session whose ID token (52) expired long ago and that holds
   refresh token 81, answered with the valid token 50 and the new refresh token
   82, makes exactly one refresh grant with 81, stores 50 / 82 and is forwarded
   as "a@ex" with token 50; answered invalid_grant it is sent to the login page
   and the refresh token is gone. *)
Example C08_nonvacuous :
  let E := b_ex_env in let cfg := b_ex_cfg in let st := b_ex_inst in
  let now := (2000 * 1000000000)%Z in
  let sess : jar :=
    [(CMain, Sealed 7 CMain [(1, VB true); (2, VZ 1990); (6, VS 20)]);
     (CAcc, Sealed 7 CAcc [(1, VC [PSlice 52 0]); (2, VB true)]);
     (CRef, Sealed 7 CRef [(1, VC [PSlice 81 0]); (2, VB true)])] in
  let rq := b_ex_req 30 0 0 [] sess in
  let ok := snd (serve E cfg st now rq (60, 61, 62) (Some (AOk 50 82))) in
  let ko := snd (serve E cfg st now rq (60, 61, 62) (Some (AErr true))) in
  env_ok E /\ cfg_ok cfg /\ inst_ok E st now /\ i_ready st = true /\ (forall t, fresh_for E st t)
  /\ gated E cfg rq = true /\ refresh_due E cfg now rq = true
  /\ r_calls ok = [PRefresh (TTok 81)]
  /\ emitted_id E ok = Some (TTok 50) /\ emitted_rt E ok = Some (TTok 82) /\ emits_auth ok = true
  /\ r_fwd ok = Some [(1, HStr 20); (2, HStr 20); (3, HStr 50); (4, HList [91; 92]); (6, HStr 30); (100, HStr 90)]
  /\ c08_step E cfg 40 now rq (Some (AOk 50 82)) ok = true
  /\ r_calls ko = [PRefresh (TTok 81)] /\ forwarded ko = false /\ is_auth_redirect 40 ko = true
  /\ emitted_rt E ko = Some TEmpty
  /\ c08_step E cfg 40 now rq (Some (AErr true)) ko = true.
Proof.
  split; [exact b_ex_env_ok|]. split; [exact b_ex_cfg_ok|]. split; [apply b_ex_inst_ok|].
  split; [reflexivity|]. split; [exact b_ex_fresh|]. vm_compute. repeat split.
Qed.
