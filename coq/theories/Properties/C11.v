(* Property C11 — logout ends the session.
   Only the property theorems, each closed by `exact`, with Print Assumptions
   beneath.  Model: Model/Middleware.v (serve, handle_logout), Model/Session.v
   (Clear), Model/World.v; monitors: Spec/WorldSpec.c11_step, c11_browser;
   proofs: Proofs/W_C11.v over Proofs/SessionProofs.v and Proofs/W_Cookies.v.

   Premise beyond Proofs/WorldBase.v: the logout path is not on the exclusion
   list (ServeHTTP tests exclusions first; see c11_needs_logout_not_excluded). *)
From VF Require Import Base.Prelude Model.Cache Model.Session Model.Middleware Model.World
     Corr.WorldCorr Spec.WorldSpec.
From VF Require Import Proofs.WorldBase Proofs.SessionProofs Proofs.W_C11 Proofs.W_C07.
Open Scope N_scope.

(* The logout response: 302, not forwarded, every cookie the middleware would
   read from this browser (main, access, refresh and every chunk cookie the
   request carried) replaced by an empty one, Location = the end-session
   endpoint with the carried ID token as hint and the post-logout URI, or the
   post-logout URI itself when there is no endpoint or no token. *)
Theorem C11_step : forall (E : env) (cfg : config) (st : inst) (now : time) (rq : request)
                          (rnd : istr * istr * istr) (ans : option answer),
  env_ok E -> cfg_ok cfg -> i_ready st = true -> excluded E cfg (c_logout cfg) = false ->
  c11_step E cfg (i_end_session st) now rq (snd (serve E cfg st now rq rnd ans)) = true.
Proof. exact c11_serve. Qed.
Print Assumptions C11_step.

(* Along every honest-browser history (any instances, any instants): after a
   logout response was applied to the browser's jar, no gated request is
   forwarded and no refresh grant is attempted until a callback establishes a
   session. *)
Theorem C11_history : forall (E : env) (cfg : config) (evs : list event),
  env_ok E -> cfg_ok cfg -> excluded E cfg (c_logout cfg) = false -> events_ready evs ->
  c11_browser E cfg false (browser_run E cfg [] evs) = true.
Proof. exact C11_ends. Qed.
Print Assumptions C11_history.

(* Clear through the browser: nothing is read back *)
Theorem C11_clear : forall (nchunks : istr -> nat) (k : N) (now now' : time) (j : jar) (sd : sdata),
  contiguous k j -> pre nchunks k now j sd ->
  let sd' := load k now' (apply_cookies k j (snd (clear sd))) in
  s_main sd' = [] /\ s_acc sd' = [] /\ s_ref sd' = []
  /\ Forall (fun p => p = []) (s_achunks sd') /\ Forall (fun p => p = []) (s_rchunks sd')
  /\ get_access nchunks sd' = TEmpty /\ get_refresh nchunks sd' = TEmpty
  /\ authenticated now' sd' = false.
Proof. exact clear_load_reads. Qed.
Print Assumptions C11_clear.

(* Non-vacuity: login, forwarded request, logout (end-session redirect with the
   ID token as hint), then the same request is answered by the login redirect *)
Definition c11_ex_logout : request := mkReq false 9 9 2 0 0 0 0 false 0 0 0 false [] [].

Definition c11_ex_events : list event :=
  c07_ex_events 3000000000%Z
  ++ [ mkEvent (fresh_inst true 20 21) 4000000000%Z c11_ex_logout (0, 0, 0) None;
       mkEvent (fresh_inst true 20 21) 5000000000%Z c07_ex_gated (46, 47, 48) None ].

Example C11_nonvacuous :
  let run := browser_run c07_ex_env c07_ex_cfg [] c11_ex_events in
  excluded c07_ex_env c07_ex_cfg (c_logout c07_ex_cfg) = false
  /\ forallb (fun e => i_ready (ev_st e)) c11_ex_events = true
  /\ c11_browser c07_ex_env c07_ex_cfg false run = true
  /\ forallb (fun s => c11_step c07_ex_env c07_ex_cfg 21 (w_now s) (w_rq s) (w_obs s)) run = true
  /\ map (fun s => r_status (w_obs s)) run = [302; 302; 200; 302; 302]
  /\ map (fun s => forwarded (w_obs s)) run = [false; false; true; false; false]
  /\ map (fun s => r_loc (w_obs s)) (skipn 3 run)
     = [Some (LEndSession 21 (TTok 50) (LPostRel 0 0 1)); Some (LAuth 20 46 47 0 0 0)].
Proof. vm_compute. repeat split. Qed.
