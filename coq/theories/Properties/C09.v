(* Property C09 — session cookies are opaque and tamper-evident without the
   session key.  Only the property theorems, with Print Assumptions beneath.

   Model: Model/Secrecy.v (symbolic attacker over the cookies of
   Model/Session.v) — HMAC unforgeable, AES-CTR hiding: ASSUMPTIONS of the
   model (trusted base), not theorems.  VFP.ParamsCrypto.cookie_encrypted is
   MEASURED on the running code by harness/zz_vf_cryptoparams_test.go on every
   run of bin/check C09 (can a decoder without the key read any planted secret in
   a fresh cookie); C09_opaque_param evaluates it, so this file stops compiling
   when the encryption is removed.  Proofs: Proofs/SecrecyProofs.v,
   Proofs/SecrecyNI.v. *)
From VF Require Import Base.Prelude Model.Cache Model.Session Model.Middleware Model.Secrecy Spec.WorldSpec.
From VF Require Import Proofs.SessionProofs Proofs.SecrecyProofs Proofs.SecrecyNI Proofs.W_C17 Proofs.W_Example.
From VFP Require Import ParamsCrypto.
Open Scope N_scope.

(* the measured parameter: payloads are encrypted (and the measuring decoder
   did see through a signed-only cookie in its self-test, on a non-empty sample) *)
Theorem C09_opaque_param :
  cookie_encrypted = true /\ decoder_selftest = true /\ Nat.ltb 0 cookies_inspected = true.
Proof. vm_compute. repeat split; reflexivity. Qed.
Print Assumptions C09_opaque_param.

(* Knowledge does not grow: whatever the attacker derives from the cookies it
   has seen, the keys it holds and what it knew beforehand, every atom of a
   derived value was known beforehand or sits in an observed cookie that it can
   open (payloads unencrypted, or its key held). *)
Theorem C09_knowledge_bound : forall (enc : bool) (K : list N) (I0 : list val) (obs : list cookie) (v : val) (a : atom),
  derives enc K I0 obs (FVal v) -> In a (atoms_val v) -> known_atom enc K I0 obs a.
Proof. exact (fun enc K I0 obs v a H => derives_bound enc K I0 obs (FVal v) H a). Qed.
Print Assumptions C09_knowledge_bound.

(* Opaqueness.  If payloads are encrypted then for every cookie set by any
   response of the request ladder (any list of steps: any states, instants,
   requests, provider answers) and every secret field of it — state, nonce,
   PKCE verifier, e-mail in the main cookie; the ID / refresh token text in the
   token and chunk cookies — an attacker that derives the value, or any atom of
   it that it did not know beforehand, holds the deployment's session key. *)
Theorem C09_opaque : cookie_encrypted = true ->
  forall (E : env) (cfg : config) (runs : list run) (K : list N) (I0 : list val)
         (n : cname) (p : payload) (v : val) (a : atom),
  In (Sealed (c_key cfg) n p) (emitted E cfg runs) -> secret_of n p v ->
  In a (atoms_val v) -> ~ initially_known I0 a ->
  derives cookie_encrypted K I0 (emitted E cfg runs) (FVal v) ->
  In (c_key cfg) K.
Proof.
  exact (fun He E cfg runs K I0 n p v a _ _ Ha Hni Hd =>
           serve_opaque cookie_encrypted E cfg runs K I0 v a He Hd Ha Hni).
Qed.
Print Assumptions C09_opaque.

(* Tamper evidence, codec level: the only value that decodes under key k for
   cookie name n to payload p is the cookie sealed under k for n with p —
   anything modified, truncated, renamed or minted under another key is Junk or
   a Sealed with another key / name, and decodes to nothing. *)
Theorem C09_tamper : forall (k : N) (n : cname) (c : cookie) (p : payload),
  decode k n c = Some p -> c = Sealed k n p.
Proof. exact decode_sealed. Qed.
Print Assumptions C09_tamper.

(* Tamper evidence, attacker level: whatever cookie value an attacker without
   the key can construct from everything the deployment ever emitted, if the
   deployment accepts it under name n with payload p then the deployment itself
   emitted exactly that cookie, for that name, with that payload. *)
Theorem C09_unforgeable : forall (enc : bool) (E : env) (cfg : config) (runs : list run) (K : list N) (I0 : list val)
                                 (n : cname) (c : cookie) (p : payload),
  derives enc K I0 (emitted E cfg runs) (FCookie c) -> ~ In (c_key cfg) K ->
  decode (c_key cfg) n c = Some p -> In (Sealed (c_key cfg) n p) (emitted E cfg runs).
Proof. exact serve_unforgeable. Qed.
Print Assumptions C09_unforgeable.

(* Non-interference: cookies that do not decode under the configured key for
   their own name (junk, other key, renamed) are never session content —
   GetSession loads the same session content with or without them ... *)
Theorem C09_load_ignores_undecodable : forall (k : N) (now : time) (j : jar),
  NoDup (names j) ->
  let sd := load k now j in
  let sd' := load k now (filter (decodable k) j) in
  s_main sd' = s_main sd /\ s_acc sd' = s_acc sd /\ s_ref sd' = s_ref sd
  /\ s_achunks sd' = s_achunks sd /\ s_rchunks sd' = s_rchunks sd
  /\ s_marked_a sd' = s_marked_a sd /\ s_marked_r sd' = s_marked_r sd /\ s_live sd' = s_live sd.
Proof. exact load_filter_content. Qed.
Print Assumptions C09_load_ignores_undecodable.

(* ... hence the whole ladder gives the same new state and the same response
   for a request whose undecodable cookies are removed, provided the walk that
   schedules chunk-cookie DELETIONS counts the same cookies in both jars (since
   fix 098055b that walk deliberately counts undecodable chunk cookies too, so
   that they are deleted: C17; the premise always holds when the undecodable
   cookies are main / token cookies or lie behind a gap).  Without the premise
   the two responses differ at most in those deletion Set-Cookie headers: that
   unconditional statement is C09_undecodable_ignored below, of which this
   theorem is the special case of literally equal responses. *)
Theorem C09_undecodable_ignored_partial : forall (E : env) (cfg : config) (st : inst) (now : time) (rq : request)
                                         (rnd : istr * istr * istr) (ans : option answer),
  NoDup (names (q_jar rq)) -> same_chunk_walk (c_key cfg) (q_jar rq) ->
  serve E cfg st now rq rnd ans
  = serve E cfg st now (with_jar rq (filter (decodable (c_key cfg)) (q_jar rq))) rnd ans.
Proof. exact (fun E cfg st now rq rnd ans H W => eq_sym (serve_ignores_undecodable E cfg st now rq rnd ans H W)). Qed.
Print Assumptions C09_undecodable_ignored_partial.

(* ... and with no premise on the walk: for every request (cookie names unique,
   as in any Cookie header net/http parses into a jar) the ladder gives the same
   new instance state, and the same response up to deletion headers (resp_sim:
   status, Location, body, forwarded identity headers, CORS, provider calls and
   flags are equal; the Set-Cookie headers that SET a cookie are the same, in
   the same order; the headers that DELETE one (Max-Age < 0) may differ, and
   every such header names a token chunk cookie, never the main or a token
   cookie) for the request whose undecodable cookies are removed.  An
   undecodable cookie thus never contributes session content; the only thing
   it can cause is the deletion of chunk cookies. *)
Theorem C09_undecodable_ignored : forall (E : env) (cfg : config) (st : inst) (now : time) (rq : request)
    (rnd : istr * istr * istr) (ans : option answer),
  NoDup (names (q_jar rq)) ->
  let x  := serve E cfg st now rq rnd ans in
  let x' := serve E cfg st now (with_jar rq (filter (decodable (c_key cfg)) (q_jar rq))) rnd ans in
  fst x = fst x' /\ resp_sim (snd x) (snd x').
Proof. exact serve_undecodable_sim. Qed.
Print Assumptions C09_undecodable_ignored.

(* no response of the model carries flag 4 (a planted secret readable in a
   cookie value without the key): what the world correspondence compares with
   the flags the harness computes on every Set-Cookie of every step *)
Theorem C09_step : forall (E : env) (cfg : config) (st : inst) (now : time) (rq : request)
                          (rnd : istr * istr * istr) (ans : option answer),
  let r := snd (serve E cfg st now rq rnd ans) in
  r_flags r = [] /\ c09_step r = true.
Proof.
  exact (fun E cfg st now rq rnd ans =>
           conj (flags_serve E cfg st now rq rnd ans) (c09_serve E cfg st now rq rnd ans)).
Qed.
Print Assumptions C09_step.

(* The premise matters: with signed-only cookies (enc = false) the e-mail (11)
   set by a successful callback of the example deployment, and the text of its
   ID token, are derivable by an attacker holding NO key and knowing nothing. *)
Example C09_refuted_when_signed_only :
  let runs := [(ex_inst, ex_now, ex_callback ex_jar_pending, ex_rnd, Some (AOk 10 16))] in
  derives false [] [] (emitted exE excfg runs) (FVal (VS 11))
  /\ derives false [] [] (emitted exE excfg runs) (FVal (VC [PSlice 10 0]))
  /\ ~ initially_known [] (AStr 11) /\ ~ In (c_key excfg) [].
Proof.
  intros runs.
  assert (Ho : emitted exE excfg runs =
               [Sealed 7 CMain [(1, VB true); (2, VZ 500%Z); (3, VS 0); (4, VS 0); (5, VS 0); (6, VS 11); (7, VS 0)];
                Sealed 7 CAcc [(1, VC [PSlice 10 0]); (2, VB true)];
                Sealed 7 CRef [(1, VC [PSlice 16 0]); (2, VB true)]]) by (vm_compute; reflexivity).
  rewrite Ho. split; [|split; [|split]].
  - apply d_field with (p := [(1, VB true); (2, VZ 500%Z); (3, VS 0); (4, VS 0); (5, VS 0); (6, VS 11); (7, VS 0)]) (f := 6).
    + apply d_plain with (k := 7) (n := CMain); [reflexivity|]. apply d_obs. cbn [In]. tauto.
    + cbn [In]. tauto.
  - apply d_field with (p := [(1, VC [PSlice 10 0]); (2, VB true)]) (f := 1).
    + apply d_plain with (k := 7) (n := CAcc); [reflexivity|]. apply d_obs. cbn [In]. tauto.
    + cbn [In]. tauto.
  - intros [v [[] _]].
  - intros [].
Qed.

(* Non-vacuity of the theorems: in the same run the e-mail IS a secret field of
   an emitted cookie with a non-trivial atom; holding the key opens it (so
   C09_opaque's conclusion is not vacuous); and a request carrying, besides the
   session of a logged-in browser, a junk refresh cookie and a chunk cookie
   sealed under another key is served exactly like the request without them. *)
Example C09_nonvacuous :
  let runs := [(ex_inst, ex_now, ex_callback ex_jar_pending, ex_rnd, Some (AOk 10 16))] in
  let p := [(1, VB true); (2, VZ 500%Z); (3, VS 0); (4, VS 0); (5, VS 0); (6, VS 11); (7, VS 0)] in
  (In (Sealed (c_key excfg) CMain p) (emitted exE excfg runs) /\ secret_of CMain p (VS 11)
   /\ In (AStr 11) (atoms_val (VS 11))
   /\ derives true [7] [] (emitted exE excfg runs) (FVal (VS 11)))
  /\ (let j := (CRef, Junk) :: (CAccChunk 0, Sealed 9 (CAccChunk 0) [(1, VC [PSlice 10 0])]) :: ex_jar_auth in
      NoDup (names j)
      /\ filter (decodable 7) j = ex_jar_auth
      /\ r_status (snd (serve exE excfg ex_inst ex_now (ex_req 5 j) ex_rnd None)) = 200
      /\ serve exE excfg ex_inst ex_now (ex_req 5 j) ex_rnd None
         = serve exE excfg ex_inst ex_now (ex_req 5 ex_jar_auth) ex_rnd None)
  /\ decode 7 CMain (Sealed 9 CMain []) = None /\ decode 7 CAcc (Sealed 7 CMain []) = None
  /\ decode 7 CMain Junk = None.
Proof.
  intros runs p.
  assert (Ho : emitted exE excfg runs =
               [Sealed 7 CMain p; Sealed 7 CAcc [(1, VC [PSlice 10 0]); (2, VB true)];
                Sealed 7 CRef [(1, VC [PSlice 16 0]); (2, VB true)]]) by (vm_compute; reflexivity).
  split; [|split].
  - rewrite Ho. split; [left; reflexivity|]. split; [exists 6; cbn; tauto|]. split; [left; reflexivity|].
    apply d_field with (p := p) (f := 6).
    + apply d_open with (k := 7) (n := CMain); [left; reflexivity|]. apply d_obs. cbn [In]. tauto.
    + unfold p. cbn [In]. tauto.
  - cbv zeta. split; [|vm_compute; repeat split].
    repeat constructor; cbn; intros H; repeat (destruct H as [H|H]; try discriminate H); exact H.
  - vm_compute. repeat split.
Qed.

(* The weakening to "up to deletion headers" is needed, and the deletion
   headers are real: the successful callback of the example deployment, from a
   jar holding a junk access-token chunk cookie besides the pending login,
   answers with one Set-Cookie more than from the filtered jar — the deletion
   of that junk chunk cookie — and with the same live cookies. *)
Example C09_deletion_differs :
  let j := (CAccChunk 0, Junk) :: ex_jar_pending in
  let r  := snd (serve exE excfg ex_inst ex_now (ex_callback j) ex_rnd (Some (AOk 10 16))) in
  let r' := snd (serve exE excfg ex_inst ex_now (ex_callback ex_jar_pending) ex_rnd (Some (AOk 10 16))) in
  NoDup (names j)
  /\ filter (decodable (c_key excfg)) j = ex_jar_pending
  /\ r_status r = 302
  /\ r_cookies r = r_cookies r' ++ [(CAccChunk 0, [], true)]
  /\ r_cookies r <> r_cookies r'
  /\ live_cookies (r_cookies r) = live_cookies (r_cookies r')
  /\ live_cookies (r_cookies r') = r_cookies r'.
Proof.
  cbv zeta. split; [|split; [|split; [|split; [|split; [|split]]]]]; try (vm_compute; reflexivity).
  - repeat constructor; cbn; intros H; repeat (destruct H as [H|H]; try discriminate H); exact H.
  - vm_compute. intros H. discriminate H.
Qed.
