(* Property C02 - ID-token verification accepts exactly the correctly signed,
   in-time tokens.  This file contains only the property theorems, each closed
   by `exact`, with Print Assumptions beneath.  The model is Model/Jwt.v, the
   specification written from the property text Spec/JwtSpec.v, the proofs
   Proofs/JwtProofs.v.  `measured_impl` is built from gen/params/ParamsJwt.v,
   i.e. from what the harness measured on the tree the check ran against. *)
From VF Require Import Base.Prelude Model.Jwt Spec.JwtSpec Proofs.JwtProofs.
From VFP Require ParamsJwt.
Open Scope Z_scope.

Definition measured_impl : impl :=
  mkImpl ParamsJwt.ec_sig_length_checked ParamsJwt.time_claims_saturate ParamsJwt.nbf_type_checked
         ParamsJwt.verify_has_replay_step ParamsJwt.skew_future_ns ParamsJwt.skew_past_ns
         ParamsJwt.int64_of_huge_pos ParamsJwt.int64_of_huge_neg.

(* For every implementation whose measured switches are the repaired ones and
   whose tolerances are the 120 s / 10 s of the text: for ALL token records,
   key sets, configurations and instants (within 2^61 s of 1970) the verdict of
   the ladder on first presentation equals the specification. *)
Theorem C02_iff : forall im, repaired im = true ->
  forall cfg jw now t, sane_now now -> accept im cfg jw now t = spec cfg jw now t.
Proof. exact accept_spec. Qed.
Print Assumptions C02_iff.

Theorem C02_iff_prop : forall im cfg jw now t, repaired im = true -> sane_now now ->
  (accept im cfg jw now t = true <-> spec cfg jw now t = true).
Proof. exact accept_iff. Qed.
Print Assumptions C02_iff_prop.

(* The code the check ran against IS such an implementation (decided by
   computation on the measured parameters; fails on a tree with F2/F2b/F2c or
   with other tolerances) ... *)
Theorem C02_measured_repaired : repaired measured_impl = true.
Proof. vm_compute. reflexivity. Qed.
Print Assumptions C02_measured_repaired.

(* ... hence the statement for the measured implementation. *)
Theorem C02_measured : forall cfg jw now t, sane_now now ->
  accept measured_impl cfg jw now t = spec cfg jw now t.
Proof. exact (accept_spec measured_impl C02_measured_repaired). Qed.
Print Assumptions C02_measured.

(* First presentation: any replay map not holding the token's jti gives the
   same verdict; VerifyToken on a fresh instance is the same ladder. *)
Theorem C02_first_presentation : forall im cfg jw now seen t, jti_fresh seen t = true ->
  fst (verify im cfg jw now seen t) = accept im cfg jw now t.
Proof. exact first_presentation. Qed.
Print Assumptions C02_first_presentation.

(* Rejections that hold for EVERY value of the measured switches. *)
Theorem C02_alg_none_rejected : forall im cfg jw now t,
  t_alg t = Some ANone -> accept im cfg jw now t = false.
Proof. exact alg_none_rejected. Qed.
Print Assumptions C02_alg_none_rejected.

Theorem C02_hs_rejected : forall im cfg jw now t h,
  t_alg t = Some (AHS h) -> accept im cfg jw now t = false.
Proof. exact hs_rejected. Qed.
Print Assumptions C02_hs_rejected.

Theorem C02_alg_not_named_rejected : forall im cfg jw now t,
  (forall f h, t_alg t <> Some (AStd f h)) -> accept im cfg jw now t = false.
Proof. exact alg_not_named_rejected. Qed.
Print Assumptions C02_alg_not_named_rejected.

Theorem C02_family_confusion_rejected : forall im cfg jw now t f h kid k,
  t_alg t = Some (AStd f h) -> t_kid t = Some kid -> find_key kid jw = Some k ->
  family_of_key k f = false -> accept im cfg jw now t = false.
Proof. exact family_confusion_rejected. Qed.
Print Assumptions C02_family_confusion_rejected.

Theorem C02_unknown_kid_rejected : forall im cfg jw now t kid,
  t_kid t = Some kid -> find_key kid jw = None -> accept im cfg jw now t = false.
Proof. exact unknown_kid_rejected. Qed.
Print Assumptions C02_unknown_kid_rejected.

Theorem C02_missing_kid_rejected : forall im cfg jw now t,
  t_kid t = None -> accept im cfg jw now t = false.
Proof. exact missing_kid_rejected. Qed.
Print Assumptions C02_missing_kid_rejected.

Theorem C02_other_key_rejected : forall im cfg jw now t kid k,
  t_kid t = Some kid -> find_key kid jw = Some k -> k_mat k <> s_mat (t_sig t) ->
  accept im cfg jw now t = false.
Proof. exact other_key_rejected. Qed.
Print Assumptions C02_other_key_rejected.

Theorem C02_other_scheme_rejected : forall im cfg jw now t a,
  t_alg t = Some a -> alg_eqb a (s_alg (t_sig t)) = false -> accept im cfg jw now t = false.
Proof. exact other_scheme_rejected. Qed.
Print Assumptions C02_other_scheme_rejected.

Theorem C02_changed_text_rejected : forall im cfg jw now t,
  s_input_ok (t_sig t) = false -> accept im cfg jw now t = false.
Proof. exact changed_text_rejected. Qed.
Print Assumptions C02_changed_text_rejected.

Theorem C02_bad_signature_rejected : forall im cfg jw now t,
  (s_form (t_sig t) = SGarbage \/ s_form (t_sig t) = SEmpty \/ s_form (t_sig t) = SOddLen) ->
  accept im cfg jw now t = false.
Proof. exact bad_signature_rejected. Qed.
Print Assumptions C02_bad_signature_rejected.

Theorem C02_wrong_claim_type_rejected : forall im cfg jw now t,
  wrong_claim_type t = true -> accept im cfg jw now t = false.
Proof. exact wrong_claim_type_rejected. Qed.
Print Assumptions C02_wrong_claim_type_rejected.

Theorem C02_empty_sub_rejected : forall im cfg jw now t,
  t_sub t = SubStr false -> accept im cfg jw now t = false.
Proof. exact empty_sub_rejected. Qed.
Print Assumptions C02_empty_sub_rejected.

Theorem C02_wrong_issuer_rejected : forall im cfg jw now t i,
  t_iss t = Some i -> i <> c_issuer cfg -> accept im cfg jw now t = false.
Proof. exact wrong_issuer_rejected. Qed.
Print Assumptions C02_wrong_issuer_rejected.

Theorem C02_malformed_rejected : forall im cfg jw now t,
  parse_ok t = false -> accept im cfg jw now t = false.
Proof. exact malformed_rejected. Qed.
Print Assumptions C02_malformed_rejected.

(* Rejections that need the repaired switches. *)
Theorem C02_changed_signature_rejected : forall im cfg jw now t,
  ec_len_checked im = true -> s_form (t_sig t) <> SCanon -> accept im cfg jw now t = false.
Proof. exact changed_signature_rejected. Qed.
Print Assumptions C02_changed_signature_rejected.

Theorem C02_nbf_wrong_type_rejected : forall im cfg jw now t,
  nbf_type_checked im = true -> t_nbf t = NumOther -> accept im cfg jw now t = false.
Proof. exact nbf_wrong_type_rejected. Qed.
Print Assumptions C02_nbf_wrong_type_rejected.

(* Tolerance boundaries, exact to the nanosecond. *)
Theorem C02_exp_boundary : forall im e, repaired im = true -> - two62 < e < two62 ->
  exp_ok im (e * ns_per_s + 120000000000) e = true
  /\ exp_ok im (e * ns_per_s + 120000000000 + 1) e = false.
Proof. exact exp_boundary. Qed.
Print Assumptions C02_exp_boundary.

Theorem C02_iat_nbf_boundary : forall im i, repaired im = true -> - two62 < i < two62 ->
  past_ok im (i * ns_per_s - 10000000000) i = true
  /\ past_ok im (i * ns_per_s - 10000000000 - 1) i = false.
Proof. exact past_boundary. Qed.
Print Assumptions C02_iat_nbf_boundary.

Theorem C02_exp_boundary_token : forall im cfg jw t e i, repaired im = true ->
  - two62 < e < two62 -> i <= e ->
  accept im cfg jw (e * ns_per_s) (with_times t e i NumAbsent) = true ->
  accept im cfg jw (e * ns_per_s + 120000000000) (with_times t e i NumAbsent) = true
  /\ accept im cfg jw (e * ns_per_s + 120000000000 + 1) (with_times t e i NumAbsent) = false.
Proof. exact exp_boundary_token. Qed.
Print Assumptions C02_exp_boundary_token.

(* The pinned code refutes the iff (regression witnesses for F2, F2b, F2c). *)
Theorem C02_refuted_pinned : exists cfg jw now t,
  accept_pinned cfg jw now t = true /\ spec cfg jw now t = false.
Proof. exact refuted_pinned_padded. Qed.
Print Assumptions C02_refuted_pinned.

Theorem C02_refuted_pinned_stripped : exists cfg jw now t,
  accept_pinned cfg jw now t = true /\ spec cfg jw now t = false.
Proof. exact refuted_pinned_stripped. Qed.
Print Assumptions C02_refuted_pinned_stripped.

Theorem C02_refuted_pinned_huge_iat : exists cfg jw now t,
  accept_pinned cfg jw now t = true /\ spec cfg jw now t = false.
Proof. exact refuted_pinned_huge_iat. Qed.
Print Assumptions C02_refuted_pinned_huge_iat.

Theorem C02_refuted_pinned_huge_exp : exists cfg jw now t,
  accept_pinned cfg jw now t = false /\ spec cfg jw now t = true.
Proof. exact refuted_pinned_huge_exp. Qed.
Print Assumptions C02_refuted_pinned_huge_exp.

Theorem C02_refuted_pinned_nbf_type : exists cfg jw now t,
  accept_pinned cfg jw now t = true /\ spec cfg jw now t = false.
Proof. exact refuted_pinned_nbf_type. Qed.
Print Assumptions C02_refuted_pinned_nbf_type.

(* Non-vacuity: concrete valid tokens (RS256 under the RSA key, ES384 under the
   EC key, audience as an array with a non-string member, nbf present) are
   accepted by the repaired model and satisfy the specification; the witnesses
   above are rejected by it. *)
Example C02_nonvacuous :
  accept_repaired ex_cfg ex_jwks ex_now (ex_tok (AStd FRS H256) 10 100 SCanon (Num 1789999990) NumAbsent) = true
  /\ spec ex_cfg ex_jwks ex_now (ex_tok (AStd FRS H256) 10 100 SCanon (Num 1789999990) NumAbsent) = true
  /\ accept_repaired ex_cfg ex_jwks ex_now
       (mkTok true true true true (Some (AStd FES H384)) (Some 11%N) (mkSig 101 (AStd FES H384) true SCanon)
              (Some 1%N) (AudArr [None; Some 7%N; Some 2%N]) (Num 1789999890) (Num 1790000009)
              (Num 1790000010) (Some 5%N) (SubStr true)) = true
  /\ accept_repaired ex_cfg ex_jwks ex_now (ex_tok (AStd FES H256) 11 101 SPadded (Num 1789999990) NumAbsent) = false
  /\ accept_repaired ex_cfg ex_jwks ex_now (ex_tok (AStd FRS H256) 11 100 SCanon (Num 1789999990) NumAbsent) = false.
Proof. vm_compute. repeat split. Qed.
