(* Property C20 — provider discovery failures fail closed and heal without a
   restart.  Only the property theorems, each closed by `exact`, with Print
   Assumptions beneath.  Model: Model/Discovery.v; monitor: Spec/DiscoverySpec.v;
   proofs: Proofs/DiscoveryProofs.v, Proofs/DiscoveryStay.v, Proofs/DiscoveryEp.v; measured constants: gen/params/ParamsDiscovery.v.

   Two initialisations are modelled: `initialize_pinned` (one GetMetadata, give
   up on error — the code as pinned) and `initialize_retrying` (GetMetadata in a
   loop with capped exponential pauses).  `initialize` is whichever of the two
   the harness MEASURED on the tree under verification
   (ParamsDiscovery.init_retries_forever).  The healing theorem is about the
   retrying one; C20_heals_current transfers it to the measured tree. *)
From VF Require Import Base.Prelude Model.Discovery Spec.DiscoverySpec Corr.DiscoveryCorr Proofs.DiscoveryProofs
  Proofs.DiscoveryStay Proofs.DiscoveryEp.
From VFP Require Import ParamsDiscovery.
Open Scope Z_scope.

(* While the middleware is not ready EVERY request — gated, excluded or
   callback path, any patience — gets 503 or 408, is not forwarded, carries no
   Location and no Set-Cookie. *)
Theorem C20_closed : forall (m : mw) (rq : request),
  m_ready m = false ->
  (r_status (serve m rq) = 503 \/ r_status (serve m rq) = 408)
  /\ r_forwarded (serve m rq) = false /\ r_location (serve m rq) = None /\ r_cookies (serve m rq) = false.
Proof. exact serve_closed_not_ready. Qed.
Print Assumptions C20_closed.

(* The same when initialisation "succeeded" with a document that has no issuer. *)
Theorem C20_closed_no_issuer : forall (m : mw) (rq : request),
  d_issuer (m_ep m) = 0%N ->
  (r_status (serve m rq) = 503 \/ r_status (serve m rq) = 408)
  /\ r_forwarded (serve m rq) = false /\ r_location (serve m rq) = None /\ r_cookies (serve m rq) = false.
Proof. exact serve_closed_no_issuer. Qed.
Print Assumptions C20_closed_no_issuer.

(* 408 exactly for the clients that give up before the middleware does. *)
Theorem C20_closed_status : forall (m : mw) (rq : request),
  m_ready m = false ->
  r_status (serve m rq) = if Z.ltb (rq_patience rq) init_wait then 408 else 503.
Proof. exact serve_not_ready_status. Qed.
Print Assumptions C20_closed_status.

(* Invariant over all histories: for every provider script, healthy document,
   client timeout and every finite sequence of refresh ticks, cache clean-up
   ticks, passages of time and changes of the provider's behaviour after the
   initialisation of the measured tree, a ready middleware uses exactly the
   document of the latest successful fetch (all six fields, so none that the
   document had is empty). *)
Theorem C20_endpoints : forall (script : list answer) (h : doc) (T : Z) (events : list event),
  let s := run (initialize fresh_mw (fresh_world script h T)) events in
  m_ready (fst s) = true -> latest_ok (w_log (snd s)) = Some (m_ep (fst s)).
Proof. exact endpoints_latest. Qed.
Print Assumptions C20_endpoints.

Theorem C20_endpoints_retrying : forall (script : list answer) (h : doc) (T : Z) (events : list event),
  let s := run (initialize_retrying fresh_mw (fresh_world script h T)) events in
  m_ready (fst s) = true -> latest_ok (w_log (snd s)) = Some (m_ep (fst s)).
Proof. exact endpoints_latest_retrying. Qed.
Print Assumptions C20_endpoints_retrying.

(* Every redirect issued after any such history goes to the authorization
   endpoint of the latest successfully fetched document. *)
Theorem C20_redirect : forall (script : list answer) (h : doc) (T : Z) (events : list event) (rq : request),
  let s := run (initialize fresh_mw (fresh_world script h T)) events in
  forall l, r_location (serve (fst s) rq) = Some l ->
  exists d, latest_ok (w_log (snd s)) = Some d /\ l = d_auth d /\ m_ep (fst s) = d.
Proof. exact redirect_latest. Qed.
Print Assumptions C20_redirect.

(* Healing: for EVERY finite list of failures fs (any kinds, any length — in
   particular longer than the retry budget of one GetMetadata) followed by a
   healthy provider, and every client timeout T for which the 5-minute cut-off
   inside discoverProviderMetadata cannot fire (budget_ok; true for all
   0 <= T <= 71 s, see C20_budget), the retrying initialisation ends ready, with
   the healthy document's endpoints, after exactly |fs|+1 fetches and at most
   heal_time |fs| T modelled nanoseconds, which is at most the linear bound
   B(|fs|) = |fs| * (16 s + T). *)
Theorem C20_heals : forall (fs : list fault) (h : doc) (T : Z),
  0 <= T -> budget_ok T = true ->
  let s := initialize_retrying fresh_mw (fresh_world (faults fs) h T) in
  m_ready (fst s) = true /\ m_ep (fst s) = h
  /\ w_hits (snd s) = (N.of_nat (length fs) + 1)%N
  /\ 0 <= w_now (snd s) <= heal_time (length fs) T
  /\ heal_time (length fs) T <= heal_bound (length fs) T.
Proof. exact initialize_retrying_heals. Qed.
Print Assumptions C20_heals.

Theorem C20_budget : forall T T0 : Z, 0 <= T <= T0 -> budget_ok T0 = true -> budget_ok T = true.
Proof. exact budget_ok_mono. Qed.
Print Assumptions C20_budget.

Theorem C20_budget_71s : budget_ok (71 * sec) = true.
Proof. exact budget_ok_71s. Qed.
Print Assumptions C20_budget_71s.

(* the explicit, linear B *)
Theorem C20_bound_linear : forall (n : nat) (T : Z),
  heal_bound n T = Z.of_nat n * (16 * sec + T).
Proof. intros n T. reflexivity. Qed.
Print Assumptions C20_bound_linear.

(* Transfer to the tree under verification: when the harness measured that
   initializeMetadata keeps retrying, `initialize` is the retrying one. *)
Theorem C20_heals_current : init_retries_forever = true ->
  forall (fs : list fault) (h : doc) (T : Z),
  0 <= T -> budget_ok T = true ->
  let s := initialize fresh_mw (fresh_world (faults fs) h T) in
  m_ready (fst s) = true /\ m_ep (fst s) = h
  /\ w_hits (snd s) = (N.of_nat (length fs) + 1)%N
  /\ 0 <= w_now (snd s) <= heal_time (length fs) T
  /\ heal_time (length fs) T <= heal_bound (length fs) T.
Proof. exact initialize_heals_measured. Qed.
Print Assumptions C20_heals_current.

(* The pinned initialisation heals only within one retry budget ... *)
Theorem C20_heals_pinned_short : forall (fs : list fault) (h : doc) (T : Z),
  0 <= T -> budget_ok T = true -> (length fs < max_retries)%nat ->
  let s := initialize_pinned fresh_mw (fresh_world (faults fs) h T) in
  m_ready (fst s) = true /\ m_ep (fst s) = h /\ 0 <= w_now (snd s) <= heal_bound (length fs) T.
Proof. exact initialize_pinned_short. Qed.
Print Assumptions C20_heals_pinned_short.

(* ... and is refuted beyond it: after max_retries (measured: 5) or more
   consecutive failures it is not ready and no later tick, passage of time or
   recovery of the provider makes it ready (defect F13). *)
Theorem C20_pinned_never_heals : forall (fs : list fault) (h : doc) (T : Z) (events : list event),
  0 <= T -> budget_ok T = true -> (max_retries <= length fs)%nat ->
  m_ready (fst (run (initialize_pinned fresh_mw (fresh_world (faults fs) h T)) events)) = false.
Proof. exact initialize_pinned_never_heals. Qed.
Print Assumptions C20_pinned_never_heals.

Theorem C20_heals_refuted_pinned :
  exists fs : list fault, length fs = 5%nat /\
  forall (h : doc) (events : list event),
  m_ready (fst (run (initialize_pinned fresh_mw (fresh_world (faults fs) h (15 * sec))) events)) = false.
Proof. exact pinned_refuted_5. Qed.
Print Assumptions C20_heals_refuted_pinned.

(* The monitor applied to what the model does is satisfied: for every provider
   script of failures, every healthy document with an issuer and an
   authorization endpoint, requests before and after, the observations the
   retrying model produces pass check_case. *)
Theorem C20_monitor_model : forall (fs : list fault) (h : doc) (T : Z) (pre : list request) (ops : list op),
  0 <= T -> budget_ok T = true ->
  check_case (model_case (faults fs) h T pre ops) = true.
Proof. exact monitor_model. Qed.
Print Assumptions C20_monitor_model.

(* Non-vacuity: seven failures of all kinds, then healthy: the retrying
   initialisation is ready after 8 fetches within heal_time (with the measured
   constants: 31 s + 1 s + 1 s + 2 s of pauses plus one client timeout for the
   slow answer = 36 s <= 42 s); the pinned one is not ready; a refresh after the
   cached document expired switches to the new document; the monitor accepts
   the model's observations of such a run.  Stated so that it survives a change
   of the retry budget between 1 and 7 attempts. *)
Example C20_nonvacuous :
  let fs := [FRefused; FReset; F500; F503; FMalformed; FTruncated; FSlow] in
  let d1 := mkDoc 11 12 13 14 15 16 in
  let d2 := mkDoc 21 22 23 24 25 26 in
  let T := 1 * sec in
  let s := initialize_retrying fresh_mw (fresh_world (faults fs) d1 T) in
  let s' := run s [EScript [] d2; EAdvance (61 * 60 * sec); ERefresh] in
  budget_ok T = true
  /\ m_ready (fst s) = true /\ m_ep (fst s) = d1 /\ w_hits (snd s) = 8%N
  /\ Z.leb (w_now (snd s)) (heal_time 7 T) = true /\ heal_bound 7 T = 119 * sec
  /\ m_ready (fst (initialize_pinned fresh_mw (fresh_world (faults fs) d1 T))) = false
  /\ r_status (serve fresh_mw (mkReq PExcluded (1 * sec))) = 408
  /\ r_location (serve (fst s) (mkReq PGated (1 * sec))) = Some 12%N
  /\ m_ep (fst s') = d2 /\ w_hits (snd s') = 9%N
  /\ check_case (model_case (faults fs) d1 T [mkReq PGated (40 * 1000000); mkReq PExcluded (40 * sec)]
                            [OServe (mkReq PGated sec); OScript [] d2; OShift (61 * 60 * sec); ORefresh;
                             OServe (mkReq PGated sec)]) = true.
Proof. vm_compute. repeat split. Qed.

(* "Starts serving" means it keeps serving: in a case whose provider script is
   failures only, followed by a healthy provider with a full document, every
   request served by the operations that precede the first change of the
   provider's script -- requests, passages of time (of any length, so across
   expiry of the cached document), refresh ticks, cache clean-up ticks -- is
   answered: none gets the closed 503 / 408.  (In the model a refresh against
   the healthy provider succeeds at its first attempt, where the 5-minute
   cut-off of discoverProviderMetadata cannot fire, so the endpoints are never
   lost; no premise beyond those of C20_monitor_model is needed.) *)
Theorem C20_stays_serving : forall (fs : list fault) (h : doc) (T : Z) (pre : list request) (ops : list op),
  0 <= T -> budget_ok T = true ->
  stays_ok (model_case (faults fs) h T pre ops) = true.
Proof. exact stays_model. Qed.
Print Assumptions C20_stays_serving.

(* Non-vacuity of the clause: seven failures then a full document; a request,
   61 minutes (the cached document expires), a refresh tick, two more requests:
   the clause applies, judges three requests (302, 302, 200) and holds; and it
   can fail: a 503 without forward / Location / cookie is what it rejects, and
   the same case with such an answer recorded for the first request fails it. *)
Example C20_stays_nonvacuous :
  let fs := [FRefused; FReset; F500; F503; FMalformed; FTruncated; FSlow] in
  let d1 := mkDoc 11 12 13 14 15 16 in
  let c := model_case (faults fs) d1 (1 * sec) []
             [OServe (mkReq PGated sec); OShift (61 * 60 * sec); ORefresh;
              OServe (mkReq PGated sec); OServe (mkReq PExcluded sec)] in
  let bad := mkOq PGated sec 503 false None false 1 true true in
  heal_applies c = true
  /\ length (flat_map reqs_of_step (before_script (dc_steps c))) = 3%nat
  /\ map oq_status (flat_map reqs_of_step (before_script (dc_steps c))) = [302; 302; 200]
  /\ stays_ok c = true
  /\ is_closed bad = true
  /\ stays_ok (mkDc 0 false (dc_timeout c) (dc_script c) (dc_healthy c) [] (dc_ready_ms c) (dc_ready_loc c) 0
                    (dc_init_hits c)
                    [(OServe (mkReq PGated sec), Some bad, mkOs 8 true d1 true 60)] (dc_served c)) = false.
Proof. vm_compute. repeat split. Qed.

(* The endpoints in use are those of ONE document the provider handed out: in
   the observations the retrying model produces, after every operation --
   requests, passages of time, refresh ticks (successful or failed, served from
   the cache or not), cache clean-up ticks, changes of the provider's script --
   a ready instance reports six endpoint fields that are, all six together,
   the fields of some document in `dc_served`; never a mixture with an answer
   that was not a successful discovery.  (By the invariant of C20_endpoints a
   ready middleware holds the latest successfully fetched document, and the
   provider's log only grows, so that document is among those handed out by
   the end of the case.  Neither premise of C20_monitor_model is needed.) *)
Theorem C20_endpoints_of_one_document : forall (fs : list fault) (h : doc) (T : Z) (pre : list request) (ops : list op),
  ep_ok (model_case (faults fs) h T pre ops) = true.
Proof. exact ep_model. Qed.
Print Assumptions C20_endpoints_of_one_document.

(* Non-vacuity of the clause: on a run of the model with a change of document
   the clause judges ready steps (all five here) and holds; and it can fail: a
   hand-made case whose only step is ready with revocation / end-session
   endpoints 75 / 76 that the one document handed out (41 42 43 44 0 0) did not
   carry is rejected, the same case reporting exactly that document is
   accepted, and a step that is not ready is not judged. *)
Example C20_endpoints_nonvacuous :
  let fs := [FRefused; F500] in
  let d1 := mkDoc 11 12 13 14 15 16 in
  let d2 := mkDoc 21 22 23 24 25 26 in
  let c := model_case (faults fs) d1 (1 * sec) []
             [OServe (mkReq PGated sec); OScript [] d2; OShift (61 * 60 * sec); ORefresh;
              OServe (mkReq PGated sec)] in
  let served := [mkDoc 41 42 43 44 0 0] in
  let hand ready ep := mkDc 0 false (1 * sec) [] (mkDoc 41 42 43 44 0 0) [] (Some 0) 42 0 1
                            [(ORefresh, None, mkOs 1 ready ep true 60)] served in
  map (fun s : obs_step => os_ready (snd s)) (dc_steps c) = [true; true; true; true; true]
  /\ dc_served c = [d1; d2]
  /\ map (fun s : obs_step => os_ep (snd s)) (dc_steps c) = [d1; d1; d1; d2; d2]
  /\ ep_ok c = true
  /\ ep_ok (hand true (mkDoc 41 42 43 44 75 76)) = false
  /\ ep_ok (hand true (mkDoc 41 42 43 44 0 0)) = true
  /\ ep_ok (hand false (mkDoc 41 42 43 44 75 76)) = true.
Proof. vm_compute. repeat split. Qed.
