(* Property C07 — tokens survive the cookie round trip.
   Only the property theorems, each closed by `exact`, with Print Assumptions
   beneath.  Model: Model/Session.v (cookie jar, Save / Clear, chunking),
   Model/Codec.v (splitIntoChunks), Model/Middleware.v + Model/World.v
   (honest-browser histories); monitor: Spec/WorldSpec.c07_browser (the same
   boolean the correspondence check applies to the Go implementation);
   proofs: Proofs/SessionProofs.v, Proofs/W_Cookies.v, Proofs/W_C07.v, Proofs/W_C07E.v
   (read-back step, monitor Spec/WorldSpec.c07_e2e_step). *)
From VF Require Import Base.Prelude Model.Cache Model.Session Model.Codec Model.Middleware Model.World
     Corr.WorldCorr Spec.WorldSpec.
From VF Require Import Proofs.WorldBase Proofs.SessionProofs Proofs.W_Cookies Proofs.W_C07 Proofs.W_C07E Proofs.W_Example Proofs.W_C17.
From VF Require Import Corr.SessionCorr Proofs.SessionRef.

(* ---- byte level: splitIntoChunks (justifies the symbolic `whole t` of the model) *)

Theorem C07_chunks_concat : forall (A : Type) (n : nat) (s : list A),
  (0 < n)%nat -> concat (split_chunks n s) = s.
Proof. exact split_chunks_concat. Qed.
Print Assumptions C07_chunks_concat.

Theorem C07_chunks_sizes : forall (A : Type) (n : nat) (s : list A),
  (0 < n)%nat -> Forall (fun p => (1 <= length p <= n)%nat) (split_chunks n s).
Proof. exact split_chunks_sizes. Qed.
Print Assumptions C07_chunks_sizes.

Theorem C07_chunks_count : forall (A : Type) (n : nat) (s : list A),
  (0 < n)%nat -> length (split_chunks n s) = cdiv (length s) n.
Proof. exact split_chunks_count. Qed.
Print Assumptions C07_chunks_count.

(* ---- one SessionData: what SetAccessToken stores GetAccessToken returns, one cookie or chunked *)

Theorem C07_dec_whole : forall (nchunks : istr -> nat) (t : istr),
  (1 <= nchunks t)%nat -> dec nchunks (whole nchunks t) = (if N.eqb t 0 then TEmpty else TTok t).
Proof. exact dec_whole. Qed.
Print Assumptions C07_dec_whole.

Theorem C07_read_store : forall (nchunks : istr -> nat) (t : istr) (old : payload),
  (1 <= nchunks t)%nat ->
  let '(tk, ch) := store_token nchunks t old in
  read_token nchunks tk ch = (if N.eqb t 0 then TEmpty else TTok t).
Proof. exact read_store. Qed.
Print Assumptions C07_read_store.

(* ---- through the browser: Save, Set-Cookie application, next GetSession *)

Theorem C07_empty_jar : forall k, contiguous k [].
Proof. exact contiguous_empty. Qed.
Print Assumptions C07_empty_jar.

(* For every contiguous jar, every session derived from it by any sequence of
   setters (tokens of any chunk counts), after the browser applied the cookies of
   Save the jar is contiguous again and the next GetSession — unless past the
   absolute timeout — reads back exactly the saved session. *)
Theorem C07_save_load : forall (nchunks : istr -> nat) (k : N) (now now' : time) (j : jar) (sd : sdata),
  contiguous k j -> pre nchunks k now j sd -> session_too_old now' (s_main sd) = false ->
  let j' := apply_cookies k j (save_cookies sd) in
  contiguous k j'
  /\ load k now' j' = mkSd (s_main sd) (s_acc sd) (s_ref sd) (s_achunks sd) (s_rchunks sd)
                           (length (s_achunks sd)) (length (s_rchunks sd)) false false true.
Proof. exact save_load_roundtrip. Qed.
Print Assumptions C07_save_load.

Theorem C07_save_reads : forall (nchunks : istr -> nat) (k : N) (now now' : time) (j : jar) (sd : sdata),
  contiguous k j -> pre nchunks k now j sd -> session_too_old now' (s_main sd) = false ->
  let sd' := load k now' (apply_cookies k j (save_cookies sd)) in
  get_access nchunks sd' = get_access nchunks sd
  /\ get_refresh nchunks sd' = get_refresh nchunks sd
  /\ s_main sd' = s_main sd
  /\ (forall f, get_str f (s_main sd') = get_str f (s_main sd))
  /\ authenticated now' sd' = authenticated now' sd
  /\ s_achunks sd' = s_achunks sd /\ s_rchunks sd' = s_rchunks sd.
Proof. exact save_load_reads. Qed.
Print Assumptions C07_save_reads.

Theorem C07_clear_reads : forall (nchunks : istr -> nat) (k : N) (now now' : time) (j : jar) (sd : sdata),
  contiguous k j -> pre nchunks k now j sd ->
  let sd' := load k now' (apply_cookies k j (snd (clear sd))) in
  s_main sd' = [] /\ s_acc sd' = [] /\ s_ref sd' = []
  /\ Forall (fun p => p = []) (s_achunks sd') /\ Forall (fun p => p = []) (s_rchunks sd')
  /\ get_access nchunks sd' = TEmpty /\ get_refresh nchunks sd' = TEmpty
  /\ authenticated now' sd' = false.
Proof. exact clear_load_reads. Qed.
Print Assumptions C07_clear_reads.

(* several Saves / Clears within one response *)
Theorem C07_response_jar : forall (nchunks : istr -> nat) (k : N) (now : time) (j : jar)
                                  (sd sv : sdata) (cs : list setcookie),
  contiguous k j -> emit nchunks k now j sd sv cs ->
  holds_session k (apply_cookies k j cs) sv
  /\ length (s_achunks sd) = length (s_achunks sv)
  /\ length (s_rchunks sd) = length (s_rchunks sv).
Proof. exact emit_holds. Qed.
Print Assumptions C07_response_jar.

(* every response of serve is such a sequence (or sets no cookie) *)
Theorem C07_serve_cookies : forall (E : env) (cfg : config) (st : inst) (now : time) (rq : request)
                                   (rnd : istr * istr * istr) (ans : option answer),
  c_emits E cfg now (q_jar rq) (r_cookies (snd (serve E cfg st now rq rnd ans))).
Proof. exact c_serve_emits. Qed.
Print Assumptions C07_serve_cookies.

(* ---- end to end *)

Theorem C07_history : forall (E : env) (cfg : config) (evs : list event),
  env_ok E -> cfg_ok cfg ->
  no_timeout cfg (browser_run E cfg [] evs) = true ->
  c07_browser E cfg None None (browser_run E cfg [] evs) = true.
Proof. exact C07_roundtrip. Qed.
Print Assumptions C07_history.

(* ---- non-vacuity and necessity *)

Theorem C07_example_premises : env_ok c07_ex_env /\ cfg_ok c07_ex_cfg.
Proof. exact (conj c07_ex_env_ok c07_ex_cfg_ok). Qed.

(* login with a 3-chunk ID token, then a forwarded request: premise and
   conclusion hold and the token is handed downstream (header 3); the same
   request after 25 h violates the premise and the monitor *)
Example C07_nonvacuous :
  let run t3 := browser_run c07_ex_env c07_ex_cfg [] (c07_ex_events t3) in
  no_timeout c07_ex_cfg (run 3000000000%Z) = true
  /\ c07_browser c07_ex_env c07_ex_cfg None None (run 3000000000%Z) = true
  /\ map (fun s => r_status (w_obs s)) (run 3000000000%Z) = [302; 302; 200]%N
  /\ map (fun s => written_by s) (run 3000000000%Z) = [None; Some (50, TTok 51); None]%N
  /\ no_timeout c07_ex_cfg (run 90002000000000%Z) = false
  /\ c07_browser c07_ex_env c07_ex_cfg None None (run 90002000000000%Z) = false.
Proof. vm_compute. repeat split. Qed.

(* the repaired defect: without the deletion of stale chunk cookies a 2-chunk
   token stored over a 3-chunk token reads back as junk *)
Example C07_refuted_without_deletion :
  let k := 7%N in
  let j1 := apply_cookies k [] (save_cookies (set_access ex_nc 1%N (load k 0%Z []))) in
  let sd2 := set_access ex_nc 2%N (load k 0%Z j1) in
  get_access ex_nc (load k 0%Z (apply_cookies k j1 (save_cookies sd2))) = TTok 2%N
  /\ get_access ex_nc (load k 0%Z (apply_cookies k j1 (save_cookies_nodel sd2))) = TJunk.
Proof. vm_compute. repeat split. Qed.

(* ---- read-back, per step: what a request reads back from its cookies is what they hold.
   For every environment, configuration, instance state (ready or not), instant, request,
   random values and provider answer -- no premise at all -- the response of serve satisfies
   Spec/WorldSpec.c07_e2e_step: a gated request forwarded with no provider call hands
   downstream, under the ID-token header (code 3), exactly the ID token stored in the request's
   cookies (which is a token, not junk and not empty); and when the provider calls are exactly
   one refresh grant, the refresh token presented is exactly the one stored in the request's
   cookies.  With C07_history (the cookies hold what was last written) this closes the loop. *)
Theorem C07_read_back_step : forall (E : env) (cfg : config) (st : inst) (now : time) (rq : request)
    (rnd : istr * istr * istr) (ans : option answer),
  c07_e2e_step E cfg now rq (snd (serve E cfg st now rq rnd ans)) = true.
Proof. exact c07_e2e_serve. Qed.
Print Assumptions C07_read_back_step.

(* on the example deployment of Proofs/W_Example.v: the logged-in browser's request to the
   protected path is gated and forwarded with no provider call, header 3 carries the stored ID
   token 10, and the monitor holds; the same response with another token under header 3 (or
   with header 3 emptied) is rejected by the monitor, so the clause is not vacuous *)
Example C07_read_back_nonvacuous :
  let rq := ex_req 5 ex_jar_auth in
  let r := snd (serve exE excfg ex_inst ex_now rq ex_rnd None) in
  gated exE excfg rq = true
  /\ r_calls r = []
  /\ r_fwd r = Some [(1, HStr 11); (2, HStr 11); (3, HStr 10); (6, HStr 5); (1007, HStr 0)]%N
  /\ session_token exE excfg ex_now rq = TTok 10%N
  /\ c07_e2e_step exE excfg ex_now rq r = true
  /\ c07_e2e_step exE excfg ex_now rq
       (mkResp 200 None [] BNone (Some [(1, HStr 11); (2, HStr 11); (3, HStr 16)]%N) false [] []) = false
  /\ c07_e2e_step exE excfg ex_now rq
       (mkResp 200 None [] BNone (Some [(1, HStr 11); (2, HStr 11); (3, HStr 0)]%N) false [] []) = false.
Proof. vm_compute. repeat split. Qed.

(* The model raises no anomaly flag; flag 6 is what the harness sets on an observed step when the code's
   session getters disagree with an independent reader of the same cookies (read-back at the session level). *)
Theorem C07_no_read_back_flag : forall (E : env) (cfg : config) (st : inst) (now : time) (rq : request)
    (rnd : istr * istr * istr) (ans : option answer),
  no_flag 6 (snd (serve E cfg st now rq rnd ans)) = true.
Proof. exact (fun E cfg st now rq rnd ans => f_equal (fun l => negb (memk 6 l)) (flags_serve E cfg st now rq rnd ans)). Qed.
Print Assumptions C07_no_read_back_flag.

(* ---- the property at full strength at the level of the session API (Corr/SessionCorr.v, Proofs/SessionRef.v):
   for ANY list of requests of one browser starting from an empty jar, each request being ANY list of calls
   (SetAuthenticated, the five string setters, SetAccessToken, SetRefreshToken, Save, Clear -- in any order, any
   number of Saves), every request reads exactly what the reference "the values last written AND saved" says,
   whatever the number of chunk cookies each token text needs.  wf_reqs asks only: instants within 24 h (a session
   older than that reads as logged out), the string setters write the string fields (3..7), no token setter after a
   Clear that is still followed by a Save (Clear hands the object back); nch_ok: a non-empty token that is saved
   occupies at least one cookie.  The sweep of bin/props/c07.py checks wf_reqs and nch_ok on every case it
   generates and compares the reads of the real getters with both sides of this equation. *)
Theorem C07_api_refinement : forall (nch : istr -> nat) (k : N) (reqs : list sreq),
  wf_reqs reqs = true -> nch_ok nch reqs = true ->
  model_run nch k [] reqs = ref_run ref_empty reqs.
Proof. exact model_refines_ref. Qed.
Print Assumptions C07_api_refinement.

(* on a case accepted by the two premises, "the implementation differs from the model" and "the implementation
   does not read back what was last saved" are the same verdict *)
Theorem C07_api_mismatch_is_violation : forall c : scase,
  wf_reqs (sc_reqs c) = true -> nch_ok (nch_of (sc_nchunks c)) (sc_reqs c) = true ->
  smismatch c = violates_c07s c.
Proof. exact smismatch_is_violation. Qed.
Print Assumptions C07_api_mismatch_is_violation.

(* seven requests: several Saves per request with shorter tokens set in between (3 chunks -> 2 -> 1), a Clear after
   a Save, unsaved tails; premises hold and both sides compute to the same non-trivial reads *)
Example C07_api_nonvacuous := refinement_example.
(* each remaining premise is needed: the reads differ without it *)
Example C07_api_needs_nch := refinement_needs_nch.
Example C07_api_needs_fields := refinement_needs_fields.
Example C07_api_needs_time := refinement_needs_time.
Example C07_api_needs_no_setter_after_clear := refinement_needs_no_setter_after_clear.
