(* Properties C01 and C02 composed: the "acceptable token" of the request gate
   (C01, stated over Middleware.accept_at) is a token satisfying the
   specification of ID-token verification (C02, JwtSpec.spec).
   Only theorems closed by `exact`, with Print Assumptions beneath.
   Models: Model/Jwt.v (accept), Model/Middleware.v (accept_at, serve);
   summary: Model/JwtSummary.v; proofs: Proofs/JwtBridge.v over
   Proofs/JwtProofs.v (C02_iff) and Proofs/W_C01.v (C01_step).
   The Jwt side is qualified (the two models share names). *)
From VF Require Import Base.Prelude Model.Cache Model.Session Model.Middleware Corr.WorldCorr Spec.WorldSpec.
From VF Require Import Proofs.WorldBase.
From VF Require Model.Jwt Spec.JwtSpec Proofs.JwtProofs.
From VF Require Import Model.JwtSummary Proofs.JwtBridge.
Open Scope Z_scope.

(* The two ladders are one: for every measured implementation with the
   repaired switches and the 120 s / 10 s tolerances, every configuration, key
   set, token record and instant, the full ladder on first presentation equals
   the request ladder's accept_at on the summary of the record.  (sane_now is
   kept as in C02_iff; the proof does not use it: C02_bridge_any_instant.) *)
Theorem C02_bridge : forall im cfg jw now t,
  JwtProofs.repaired im = true -> JwtSpec.sane_now now ->
  Jwt.accept im cfg jw now t = accept_at now (summarize im cfg jw t).
Proof. exact bridge. Qed.
Print Assumptions C02_bridge.

(* ... for ANY behaviour switches (the pinned tree included) and ANY instant,
   as long as the tolerances are the ones accept_at has built in *)
Theorem C02_bridge_any_instant : forall im cfg jw now t,
  Jwt.skew_future im = 120000000000 /\ Jwt.skew_past im = 10000000000 ->
  Jwt.accept im cfg jw now t = accept_at now (summarize im cfg jw t).
Proof. exact bridge_tol. Qed.
Print Assumptions C02_bridge_any_instant.

(* accept_at on a summary is the specification of C02 *)
Theorem C02_accept_at_spec : forall im cfg jw now t,
  JwtProofs.repaired im = true -> JwtSpec.sane_now now ->
  accept_at now (summarize im cfg jw t) = JwtSpec.spec cfg jw now t.
Proof. exact accept_at_spec. Qed.
Print Assumptions C02_accept_at_spec.

(* the same when the table holds the claim values as written; here both
   premises are needed (JwtBridge.raw_needs_sane_now, raw_needs_saturation) *)
Theorem C02_accept_at_raw_spec : forall im cfg jw now t,
  JwtProofs.repaired im = true -> JwtSpec.sane_now now ->
  accept_at now (summarize_raw im cfg jw t) = JwtSpec.spec cfg jw now t.
Proof. exact accept_at_raw_spec. Qed.
Print Assumptions C02_accept_at_raw_spec.

(* A request carrying a valid session carries a token satisfying the
   specification of C02. *)
Theorem C01_valid_session_meets_C02_spec :
  forall (E : env) (cfg : config) (im : Jwt.impl) (jcfg : Jwt.config) (jw : list Jwt.jwk)
         (rec : istr -> Jwt.token),
    JwtProofs.repaired im = true -> env_summarized E im jcfg jw rec ->
    forall now rq, JwtSpec.sane_now now ->
      carries_valid_session E cfg now rq = true ->
      exists t, session_token E cfg now rq = TTok t /\ JwtSpec.spec jcfg jw now (rec t) = true.
Proof. exact carried_session_meets_spec. Qed.
Print Assumptions C01_valid_session_meets_C02_spec.

(* For an environment whose token table is given by summaries (env_summarized:
   tok E s is the summary of the record rec s, with its own session-level
   fields), every step of serve from a ready instance satisfying the cache
   invariant: if a request on a protected path is forwarded and the session was
   not refreshed in this very step, then the request's cookies hold an ID token
   t whose record satisfies JwtSpec.spec at this instant — three-part JWS,
   RS/PS/ES algorithm of the selected key's family, genuine signature, iss, aud,
   exp no earlier than two minutes ago, iat / nbf no later than ten seconds
   ahead, non-empty sub. *)
Theorem C01_forward_meets_C02_spec :
  forall (E : env) (cfg : config) (im : Jwt.impl) (jcfg : Jwt.config) (jw : list Jwt.jwk)
         (rec : istr -> Jwt.token),
    JwtProofs.repaired im = true -> env_summarized E im jcfg jw rec ->
    forall (st : inst) (now : time) (rq : request) (rnd : istr * istr * istr) (ans : option answer),
      env_ok E -> cfg_ok cfg -> inst_ok E st now -> i_ready st = true -> JwtSpec.sane_now now ->
      let r := snd (serve E cfg st now rq rnd ans) in
      gated E cfg rq = true -> forwarded r = true -> refreshed_ok E cfg now rq ans r = false ->
      exists t, session_token E cfg now rq = TTok t /\ JwtSpec.spec jcfg jw now (rec t) = true.
Proof. exact c01_forward_meets_c02_spec. Qed.
Print Assumptions C01_forward_meets_C02_spec.

(* ... and when it WAS refreshed in this step, the ID token the provider
   returned satisfies the specification: in both cases the token the forwarded
   request is served under does. *)
Theorem C01_forward_token_meets_C02_spec :
  forall (E : env) (cfg : config) (im : Jwt.impl) (jcfg : Jwt.config) (jw : list Jwt.jwk)
         (rec : istr -> Jwt.token),
    JwtProofs.repaired im = true -> env_summarized E im jcfg jw rec ->
    forall (st : inst) (now : time) (rq : request) (rnd : istr * istr * istr) (ans : option answer),
      env_ok E -> cfg_ok cfg -> inst_ok E st now -> i_ready st = true -> JwtSpec.sane_now now ->
      let r := snd (serve E cfg st now rq rnd ans) in
      gated E cfg rq = true -> forwarded r = true ->
      (exists t, session_token E cfg now rq = TTok t /\ JwtSpec.spec jcfg jw now (rec t) = true)
      \/ (exists id rt, ans = Some (AOk id rt) /\ JwtSpec.spec jcfg jw now (rec id) = true).
Proof. exact c01_forward_token_meets_spec. Qed.
Print Assumptions C01_forward_token_meets_C02_spec.

(* The gate monitor alone (whatever produced the response, the Go
   implementation's observations included): forwarded, gated and not refreshed
   imply a carried valid session. *)
Theorem C01_gate_forwarded_carries :
  forall (E : env) (cfg : config) (a : istr) (now : time) (rq : request) (ans : option answer) (r : response),
    c01_gate E cfg a now rq ans r = true -> gated E cfg rq = true -> forwarded r = true ->
    refreshed_ok E cfg now rq ans r = false -> carries_valid_session E cfg now rq = true.
Proof. exact forwarded_unrefreshed_carries. Qed.
Print Assumptions C01_gate_forwarded_carries.

(* Non-vacuity: an acceptable record and its summary; the summary flips with
   the ladder one nanosecond after exp + 120 s; a signature by another key
   makes the static verdict false. *)
Example C01_C02_nonvacuous :
  let t := corner_tok 1790000300 1789999990 in
  let late := (1790000300 + 120) * Jwt.ns_per_s + 1 in
  Jwt.accept Jwt.repaired_impl JwtProofs.ex_cfg JwtProofs.ex_jwks JwtProofs.ex_now t = true
  /\ summarize Jwt.repaired_impl JwtProofs.ex_cfg JwtProofs.ex_jwks t
     = mkTok true true 1790000300 1789999990 None 0%N 0%N 0%N ClAbsent ClAbsent
  /\ accept_at JwtProofs.ex_now (summarize Jwt.repaired_impl JwtProofs.ex_cfg JwtProofs.ex_jwks t) = true
  /\ accept_at (late - 1) (summarize Jwt.repaired_impl JwtProofs.ex_cfg JwtProofs.ex_jwks t) = true
  /\ accept_at late (summarize Jwt.repaired_impl JwtProofs.ex_cfg JwtProofs.ex_jwks t) = false
  /\ Jwt.accept Jwt.repaired_impl JwtProofs.ex_cfg JwtProofs.ex_jwks late t = false
  /\ ti_static (summarize Jwt.repaired_impl JwtProofs.ex_cfg [Jwt.mkJwk 10 101 Jwt.KRSA true] t) = false.
Proof. exact bridge_nonvacuous. Qed.
