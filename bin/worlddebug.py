#!/usr/bin/env python3
"""debug aid: evaluate world cases (work/<dir>/cases.jsonl) on the model, print first diverging step with both responses"""
import json, os, subprocess, sys
sys.path.insert(0, os.path.dirname(os.path.abspath(__file__)))
import vflib as L
wd = sys.argv[1]
only = int(sys.argv[2]) if len(sys.argv) > 2 else None
cases = L.read_jsonl(os.path.join(wd, "cases.jsonl"))
hdr = "From VF Require Import Base.Prelude Model.Cache Model.Session Model.Middleware Corr.WorldCorr.\nOpen Scope N_scope.\n"
d = os.path.join(L.GEN, "cases", "dbg"); os.makedirs(d, exist_ok=True)
for c in cases:
    if only is not None and c["id"] != only: continue
    p = os.path.join(d, "Dbg.v")
    with open(p, "w") as fh:
        fh.write(hdr + "Definition c := %s.\n" % c["coq"])
        fh.write("Definition fd := Eval vm_compute in first_diff_of c.\nPrint fd.\n")
    rc, out = L.coqc_file(os.path.relpath(p, L.COQ))
    if rc != 0:
        print("case", c["id"], "COQ ERROR", out[-1500:]); break
    import re
    m = re.search(r"fd = (.*?)\n\s*:", out, re.S)
    res = m.group(1).strip() if m else out
    print("case", c["id"], c["kind"], "steps", c["stats"]["steps"], "first_diff:", res)
    if "Some" in res:
        i = int(re.findall(r"\d+", res)[0])
        with open(p, "a") as fh:
            fh.write("Definition mr := Eval vm_compute in nth %d (model_responses (env_of c) (wc_cfg c) (insts0 c) (wc_steps c)) resp0.\nPrint mr.\n" % i)
            fh.write("Definition ob := Eval vm_compute in option_map w_obs (nth_error (wc_steps c) %d).\nPrint ob.\n" % i)
            fh.write("Definition rq := Eval vm_compute in option_map w_rq (nth_error (wc_steps c) %d).\nPrint rq.\n" % i)
        rc, out = L.coqc_file(os.path.relpath(p, L.COQ))
        print(out[out.find("mr ="):][:6000])
        print("OBS summary:", json.dumps(c["obs"][i]))
        acts = c["script"]["actions"]
        print("SCRIPT:", json.dumps(c["script"])[:3000])
        break
