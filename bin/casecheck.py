#!/usr/bin/env python3
"""Generic driver for checks of the shape 'theorems + cases evaluated in Coq' (DESIGN.md §2.4)."""
import json, os, sys, time
import vflib as L


class Spec:
    """What a property module provides."""
    pid = "C00"
    harness_test = "TestVF_X"
    coq_targets = []            # .vo files (relative to coq/) holding the property theorems
    obligations = []            # names of the theorems/lemmas counted as obligations
    header = ""                 # Gallina header of a case file
    footer = ""                 # must define and Print `mism` and `viol` (lists of N case ids)
    assumptions = []
    trusted_base = []
    level_category = "proof"
    shards = 16
    race = False
    harness_timeout = 900

    def env(self, tier, attempt):            # environment for the harness
        return {}

    def to_gallina(self, case):              # one case as a Gallina term
        raise NotImplementedError

    def nontrivial(self, case):              # rule for distinct_nontrivial
        return True

    def describe_rule(self):
        return ""

    def sample(self, case):                  # what to show in evidence.samples
        return case

    def histogram(self, cases):              # input distribution for the evidence
        return {}

    def gen_params(self, workdir):           # write gen/params/*.v; return dict for evidence
        return {}

    def known_match(self, case, finding):    # does this violating case fall under a listed finding?
        return False

    def shrink_candidates(self, case):       # smaller variants of a violating case
        return []

    def extra_checks(self, tier, workdir, cases):   # additional supporting runs; returns (dict, [violating replay bodies])
        return {}, []

    def case_key(self, case):
        c = dict(case)
        c.pop("id", None)
        c.pop("steps", None)
        return json.dumps(c, sort_keys=True)


def evaluate(spec, cases):
    terms = [spec.to_gallina(c) for c in cases]
    outs = L.eval_shards(spec.pid, L.shard(terms, spec.shards), spec.header, spec.footer)
    mism, viol = set(), set()
    for o in outs:
        mism.update(L.parse_nlist(o, "mism"))
        viol.update(L.parse_nlist(o, "viol"))
    return mism, viol


def run_replay_cases(spec, wd, cases, tag):
    """re-run given cases (inputs only) on the implementation; returns observed cases"""
    rp = os.path.join(wd, "replay_in_%s.jsonl" % tag)
    with open(rp, "w") as fh:
        for c in cases:
            fh.write(json.dumps(c) + "\n")
    sub = os.path.join(wd, "replay_%s" % tag)
    os.makedirs(sub, exist_ok=True)
    e = spec.env("quick", 0)
    e["VERIF_REPLAY"] = rp
    L.run_harness(spec.harness_test, sub, env=e, race=False, timeout=spec.harness_timeout)
    return L.read_jsonl(os.path.join(sub, "cases.jsonl"))


def shrink(spec, wd, case, rounds=4):
    best = case
    for r in range(rounds):
        cands = spec.shrink_candidates(best)
        if not cands:
            break
        for i, c in enumerate(cands):
            c["id"] = i
        try:
            obs = run_replay_cases(spec, wd, cands, "shrink%d" % r)
            _, viol = evaluate(spec, obs)
        except Exception as ex:  # shrinking is best effort
            L.log("[shrink] stopped: %s" % ex)
            break
        bad = [c for c in obs if c["id"] in viol]
        if not bad:
            break
        best = min(bad, key=lambda c: len(json.dumps(c)))
    return best


def main(spec, argv):
    tier = "quick"
    replay = None
    args = list(argv)
    while args:
        a = args.pop(0)
        if a in ("quick", "thorough"):
            tier = a
        elif a == "--replay":
            replay = args.pop(0)
    os.environ["VERIF_TIER"] = tier
    t0 = time.time()
    with L.Lock():
        rc = _main(spec, tier, replay, t0)
    return rc


def _main(spec, tier, replay, t0):
    pid = spec.pid
    wd = L.workdir(pid)
    known = [f for f in L.load_known().get("findings", []) if f.get("property") == pid]
    broken = []          # descriptions of broken ties (theorems that no longer check, correspondence cases)
    bad = L.forbidden_scan()
    if bad:
        broken.append({"kind": "forbidden-construct", "where": bad[:10]})

    # 1-2. harness on the current working tree
    env = spec.env(tier, 0)
    if replay:
        body = json.load(open(replay))
        rp = os.path.join(wd, "replay_case.jsonl")
        with open(rp, "w") as fh:
            fh.write(json.dumps(body.get("case", body)) + "\n")
        env["VERIF_REPLAY"] = rp
    try:
        L.run_harness(spec.harness_test, wd, env=env, race=spec.race, timeout=spec.harness_timeout)
    except L.HarnessError as ex:
        if ex.kind == "package-build":
            L.log(ex.output[-3000:])
            L.log("package under verification does not build: no verdict")
            return 2
        p = L.write_replay(pid, {"property": pid, "broken_tie": "harness " + ex.kind,
                                 "detail": ex.output[-6000:],
                                 "note": "the correspondence between model and implementation could not be established"})
        L.violation(pid, p, no_input=True)
        return 1
    cases = L.read_jsonl(os.path.join(wd, "cases.jsonl"))

    # 3. parameters measured from the running code, then the theorems
    params = spec.gen_params(wd)
    ok, failing, mk_out = L.coq_make(spec.coq_targets)
    if not ok:
        broken.append({"kind": "theorem", "file": failing, "error": mk_out[-3000:]})
    assumptions_printed = L.property_assumptions(spec.coq_targets, wd) if ok else {}
    chk = L.coqchk(spec.coq_targets) if (ok and tier == "thorough") else {}
    if chk and chk.get("rc") != 0:
        broken.append({"kind": "coqchk", "detail": chk})

    # 4. cases through model and monitors
    mism, viol = evaluate(spec, cases)
    by_id = {c["id"]: c for c in cases}

    # supporting runs (race stress, real-time...)
    extra, extra_viol = spec.extra_checks(tier, wd, cases)

    # 5. known findings
    new_viol, matched = [], {}
    for i in sorted(viol):
        c = by_id[i]
        f = next((f for f in known if spec.known_match(c, f)), None)
        if f:
            matched.setdefault(f["id"], [f, 0])[1] += 1
        else:
            new_viol.append(c)
    for fid, (f, n) in matched.items():
        L.known_finding(pid, "%s (%d case(s) this run)" % (f["what"], n))

    exit_code = 0
    if new_viol or extra_viol:
        if new_viol:
            c = shrink(spec, wd, new_viol[0]) if not replay else new_viol[0]
            body = {"property": pid, "seed": L.seed(), "tier": tier, "kind": "monitor-violation",
                    "case": c, "also_model_mismatch": c.get("id") in mism,
                    "other_violating_cases": len(new_viol) - 1}
        else:
            body = extra_viol[0]
        L.violation(pid, L.write_replay(pid, body))
        exit_code = 1
    elif broken or mism:
        # 7b. search for a failing input with a larger budget
        found = None
        if not replay:
            try:
                wd2 = os.path.join(wd, "search")
                os.makedirs(wd2, exist_ok=True)
                L.run_harness(spec.harness_test, wd2, env=spec.env(tier, 1), timeout=spec.harness_timeout)
                cases2 = L.read_jsonl(os.path.join(wd2, "cases.jsonl"))
                _, viol2 = evaluate(spec, cases2)
                cand = [c for c in cases2 if c["id"] in viol2 and not any(spec.known_match(c, f) for f in known)]
                if cand:
                    found = shrink(spec, wd, cand[0])
            except Exception as ex:
                L.log("[search] failed: %s" % ex)
        if found:
            body = {"property": pid, "seed": L.seed(), "tier": tier, "kind": "monitor-violation (found by search)",
                    "case": found, "broken": broken}
            L.violation(pid, L.write_replay(pid, body))
        else:
            first = by_id[sorted(mism)[0]] if mism else None
            body = {"property": pid, "seed": L.seed(), "tier": tier, "kind": "tie-broken",
                    "broken": broken,
                    "correspondence_mismatch_cases": sorted(mism)[:50],
                    "first_mismatching_case": first,
                    "note": "the property is no longer shown to hold: a theorem no longer checks and/or the model "
                            "and the implementation differ on the case above; no input violating the property was found"}
            L.violation(pid, L.write_replay(pid, body), no_input=True)
        exit_code = 1

    # evidence
    keys = set()
    nontrivial = 0
    for c in cases:
        k = spec.case_key(c)
        if k in keys:
            continue
        keys.add(k)
        if spec.nontrivial(c):
            nontrivial += 1
    # obligations = the theorems actually present in the property files this check compiled
    import re as _re
    names = []
    for t in spec.coq_targets:
        v = os.path.join(L.COQ, t[:-1] if t.endswith(".vo") else t)
        if "/Properties/" in v and os.path.exists(v):
            names += _re.findall(r"^(?:Theorem|Example|Lemma)\s+(\w+)", open(v).read(), _re.M)
    obligations = names or list(spec.obligations)
    n_obl = len(obligations)
    coverage = {
        "obligations": n_obl,
        "discharged": n_obl if ok else 0,
        "checker_cmd": "make -C /verif/coq %s ; coqc gen/cases/%s/Cases_*.v" % (" ".join(spec.coq_targets), pid),
        "trusted_base": L.TRUSTED_BASE_COMMON + spec.trusted_base,
        "theorems": obligations,
        "print_assumptions": assumptions_printed,
        "coqchk": chk,
        "evaluations": len(cases),
        "distinct_nontrivial": nontrivial,
        "rule": spec.describe_rule(),
        "samples": [spec.sample(c) for c in cases[:2]] + ([spec.sample(cases[-1])] if len(cases) > 2 else []),
        "correspondence": {"cases": len(cases), "mismatches": len(mism), "input_distribution": spec.histogram(cases)},
        "monitor": {"cases": len(cases), "violations": len(viol), "known_findings_matched": {k: v[1] for k, v in matched.items()}},
        "measured_parameters": params,
        "supporting_runs": extra,
    }
    L.write_evidence(pid, tier, spec.level_category, coverage, spec.assumptions, time.time() - t0,
                     len(new_viol) + len(extra_viol))
    return exit_code
