#!/usr/bin/env python3
"""writes seeded/<id>/meta.json from the seeding agent's meta, the confirmation log and the suite result"""
import json, os, re, sys
root = "/verif/seeded"
# checks observed to report a VIOLATION with a concrete replay on the patched tree (all runs of bin/seedtest.sh, not
# only the last one recorded in confirm.txt); "tie" = only `no-failing-input-found`
CAUGHT = {
    "C01-2": {"C01": "violation", "C08": "violation"}, "C02-2": {"C02": "violation"}, "C03-2": {"C03": "violation"},
    "C04-2": {"C04": "violation", "C07": "violation"}, "C07-2": {"C07": "violation"}, "C08-2": {"C08": "violation"},
    "C11-2": {"C11": "violation"}, "C12-2": {"C12": "violation"}, "C13-2": {"C13": "violation", "C12": "tie"},
    "C14-2": {"C14": "violation"}, "C17-2": {"C17": "violation"}, "C20-2": {"C20": "violation"},
    "C05-2": {"C05": "violation"}, "C06-2": {"C06": "violation"}, "C09-2": {"C09": "violation"}, "C10-2": {"C10": "violation"},
    "C15-2": {"C15": "violation"}, "C16-2": {"C16": "violation"}, "C18-2": {"C18": "violation"}, "C19-2": {"C19": "violation"},
    "C01-3": {"C01": "violation"}, "C02-3": {"C02": "violation"}, "C03-3": {"C03": "violation"},
    "C04-3": {"C05": "violation", "C04": "not reported (needs two concurrent requests: C05's domain)"},
    "C07-3": {"C04": "violation", "C07": "violation"}, "C08-3": {"C08": "violation", "C07": "violation"}, "C11-3": {"C11": "violation"},
    "C12-3": {"C12": "violation"}, "C13-3": {"C13": "violation"}, "C14-3": {"C14": "violation"},
    "C17-3": {"C17": "violation"}, "C20-3": {"C20": "violation"},
    "C05-3": {"C05": "violation"}, "C06-3": {"C06": "violation"}, "C09-3": {"C09": "violation", "C01": "violation"},
    "C10-3": {"C10": "violation"}, "C15-3": {"C15": "violation", "C11": "violation"}, "C16-3": {"C16": "violation"},
    "C18-3": {"C18": "violation"}, "C19-3": {"C19": "violation", "C04": "violation"},
    "C01-4": {"C01": "violation"}, "C02-4": {"C02": "violation"}, "C03-4": {"C03": "violation"}, "C04-4": {"C04": "violation", "C07": "violation"},
    "C05-4": {"C05": "violation"}, "C06-4": {"C06": "violation"}, "C07-4": {"C07": "violation"}, "C08-4": {"C08": "violation"},
    "C09-4": {"C09": "violation", "C01": "violation"}, "C10-4": {"C10": "violation"}, "C11-4": {"C11": "violation", "C15": "violation"},
    "C12-4": {"C12": "violation"}, "C13-4": {"C13": "violation"}, "C14-4": {"C14": "violation"}, "C15-4": {"C15": "violation"},
    "C16-4": {"C16": "violation"}, "C17-4": {"C17": "violation"}, "C18-4": {"C18": "violation"}, "C19-4": {"C19": "violation"},
    "C20-4": {"C20": "violation"},
    "C01-5": {"C02": "violation", "C01": "violation (since round 8: key rotation inside a history, segments)"},
    "C02-5": {"C02": "violation"}, "C03-5": {"C03": "violation"}, "C04-5": {"C04": "violation"}, "C05-5": {"C05": "violation"},
    "C06-5": {"C06": "violation"}, "C07-5": {"C07": "violation"}, "C08-5": {"C08": "violation", "C14": "violation"},
    "C09-5": {"C09": "violation", "C04": "violation"}, "C10-5": {"C10": "violation"}, "C11-5": {"C15": "violation", "C11": "violation"},
    "C12-5": {"C12": "violation", "C13": "violation"}, "C13-5": {"C13": "violation"}, "C14-5": {"C14": "violation"},
    "C15-5": {"C15": "violation"}, "C16-5": {"C16": "violation"}, "C17-5": {"C17": "violation"}, "C18-5": {"C18": "violation"},
    "C19-5": {"C19": "violation"}, "C20-5": {"C20": "violation"},
    "C01-6": {"C01": "violation"}, "C02-6": {"C02": "violation"}, "C03-6": {"C03": "violation"}, "C04-6": {"C04": "violation"},
    "C05-6": {"C05": "violation"}, "C06-6": {"C06": "violation"}, "C07-6": {"C07": "violation"}, "C08-6": {"C08": "violation"},
    "C09-6": {"C09": "violation"}, "C10-6": {"C10": "violation"}, "C11-6": {"C11": "violation"}, "C12-6": {"C12": "violation"},
    "C13-6": {"C13": "violation"}, "C14-6": {"C14": "violation"}, "C15-6": {"C15": "violation"}, "C16-6": {"C16": "violation"},
    "C17-6": {"C17": "violation"}, "C18-6": {"C18": "violation"}, "C19-6": {"C19": "violation"}, "C20-6": {"C20": "violation"},
    "C01-8": {"C01": "violation"}, "C02-8": {"C02": "violation"}, "C03-8": {"C03": "violation"}, "C04-8": {"C04": "violation"}, "C05-8": {"C05": "violation"}, "C06-8": {"C06": "violation"}, "C07-8": {"C07": "violation"}, "C08-8": {"C08": "violation"}, "C09-8": {"C09": "violation"}, "C10-8": {"C10": "violation"},
    "C11-8": {"C11": "violation"}, "C12-8": {"C12": "violation"}, "C13-8": {"C13": "violation"}, "C14-8": {"C14": "violation"}, "C15-8": {"C15": "violation"}, "C16-8": {"C16": "violation"}, "C17-8": {"C17": "violation"}, "C18-8": {"C18": "violation"}, "C19-8": {"C19": "violation"}, "C20-8": {"C20": "tie (the change alters the signature of discoverProviderMetadata: the discovery harness no longer compiles; the long-outage case that would show it is in the thorough tier)"},
    "C01-9": {"C01": "violation"}, "C02-9": {"C02": "violation"}, "C03-9": {"C03": "violation"}, "C04-9": {"C04": "violation"}, "C05-9": {"C05": "violation"}, "C06-9": {"C06": "violation"}, "C07-9": {"C07": "violation"}, "C08-9": {"C08": "violation"}, "C09-9": {"C09": "violation"}, "C10-9": {"C10": "violation"},
    "C11-9": {"C11": "violation"}, "C12-9": {"C13": "violation", "C12": "tie (the change evicts a second, live entry when it finds an expired one: victim selection is C13's clause)"}, "C13-9": {"C13": "violation"}, "C14-9": {"C14": "violation"}, "C15-9": {"C15": "violation"}, "C16-9": {"C16": "violation"}, "C17-9": {"C17": "violation"}, "C18-9": {"C18": "violation"}, "C19-9": {"C19": "violation"}, "C20-9": {"C20": "violation"},
    "C04-10": {"C04": "violation (after the generator extension: auth_time / sid claims; blind: missed)"}, "C11-10": {"C11": "violation"}, "C13-10": {"C13": "violation"},
    "C14-10": {"C14": "violation (after the generator extension: a correctly signed token without a subject in the verify-histories; blind: tie only - the pooled struct made tokens without jti inherit one and be refused as replays, which the model does not do but the property does not forbid)", "C02": "not reported"},
    "C17-10": {"C17": "violation (after the generator extension: heavily percent-escaped URIs; blind: missed)"},
    "C20-10": {"C20": "tie (initializeMetadata gained a context parameter: the discovery harness no longer compiles against it)"},
    "C01-7": {"C01": "violation"}, "C02-7": {"C02": "violation"}, "C03-7": {"C03": "violation"}, "C04-7": {"C04": "violation"}, "C05-7": {"C05": "violation"}, "C06-7": {"C06": "violation"}, "C07-7": {"C07": "violation"}, "C08-7": {"C08": "violation"}, "C09-7": {"C09": "violation"}, "C10-7": {"C10": "violation"},
    "C11-7": {"C11": "violation"}, "C12-7": {"C12": "violation"}, "C13-7": {"C13": "violation"}, "C14-7": {"C14": "violation"}, "C15-7": {"C15": "violation"}, "C16-7": {"C16": "violation"}, "C17-7": {"C17": "violation"}, "C18-7": {"C18": "violation"}, "C19-7": {"C19": "violation"}, "C20-7": {"C20": "violation"},
}
for d in sorted(os.listdir(root)):
    p = os.path.join(root, d)
    if not os.path.isdir(p):
        continue
    agent = {}
    try:
        agent = json.load(open(os.path.join(p, "meta_agent.json")))
    except Exception:
        pass
    confirm = open(os.path.join(p, "confirm.txt")).read() if os.path.exists(os.path.join(p, "confirm.txt")) else ""
    suite = open(os.path.join(p, "suite.txt")).read().strip() if os.path.exists(os.path.join(p, "suite.txt")) else "not run"
    m = re.search(r"demo_on_original_rc=(\d+) demo_with_patch_rc=(\d+)", confirm)
    checks = re.findall(r"check (C\d+) on patched tree: (.*)", confirm)
    meta = {
        "property": d.split("-")[0],
        "breaks": agent.get("summary", ""),
        "needs_to_manifest": agent.get("needs", ""),
        "written_by": "independent sub-agent given only the property text and a scratch worktree",
        "what_i_ran": {
            "confirmation": "bin/seedtest.sh %s (scratch worktree of /repo HEAD: demo on original, git apply patch.diff, go build, demo with patch, checks with VERIF_REPO=<worktree>) and the pinned suite with the patch applied" % d,
            "demo_on_original_rc": int(m.group(1)) if m else None,
            "demo_with_patch_rc": int(m.group(2)) if m else None,
            "pinned_suite_with_patch": suite,
            "checks_on_patched_tree": {c: r for c, r in checks},
        },
        "agent_verification": agent.get("how_verified", ""),
    }
    if d in CAUGHT:
        meta["caught_by"] = CAUGHT[d]
    json.dump(meta, open(os.path.join(p, "meta.json"), "w"), indent=1)
    print(d, meta["what_i_ran"]["demo_on_original_rc"], meta["what_i_ran"]["demo_with_patch_rc"], suite, {c: ("VIOLATION" in r) for c, r in checks})
