#!/bin/bash
# debug aid: run one world profile with chosen monitors, summarise which monitors fire
# usage: bin/wprofile.sh <PROFILE> <monitors comma separated> [N]
cd /verif
W00_PROFILE=$1 W00_MONS=$2 W00_N=${3:-100} bin/check W00 quick 2>&1 | grep -v "^\[" | tail -3
cd coq && for f in gen/cases/W00/Cases_*.v; do coqc -Q theories VF $f 2>&1 | tr '\n' ' ' | sed 's/: list N/\n/g' | grep -v "= \[\] *$" | grep -v "^ *$"; done | sort | uniq -c | sort -rn | head -20
