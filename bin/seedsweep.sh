#!/bin/bash
# usage: bin/seedsweep.sh "<seeds>" [ids...] : run the quick checks on /repo under several VERIF_SEED values (flakiness / false-alarm hunt)
seeds=$1; shift
ids="${@:-C01 C02 C03 C04 C05 C06 C07 C08 C09 C10 C11 C12 C13 C14 C15 C16 C17 C18 C19 C20}"
cd /verif
for sd in $seeds; do
  for p in $ids; do
    out=$(VERIF_SEED=$sd bin/check $p quick 2>&1); rc=$?
    [ $rc -ne 0 ] && echo "seed=$sd $p rc=$rc $(echo "$out" | grep -E 'VIOLATION|KNOWN' | head -2 | tr '\n' ' ')"
  done
  echo "seed=$sd done"
done
