#!/usr/bin/env python3
"""Regenerates /verif/MANIFEST.json from the table below and validates it."""
import json, os, subprocess, sys
V = os.path.dirname(os.path.dirname(os.path.abspath(__file__)))

COMMON_NOTE = ("Trusted: Coq 8.16.1 kernel + vm_compute; the hand-written model is tied to the code by the "
               "correspondence check only (generated cases, evaluated inside Coq); the Go harness and bin/*.py; "
               "per-property modelling assumptions are listed in the evidence file and DESIGN.md section 5.")

CHECKS = {
 "C02": dict(
   text="Theorem C02_iff (Properties/C02.v): for every token record, key set, configuration and instant, the executable model of "
        "parseJWT/VerifyJWTSignatureAndClaims/JWT.Verify accepts exactly when the specification written from the property text holds "
        "(three parts, RS/PS/ES allow-list, key selected by kid of the same family, genuine signature over the exact bytes, iss, aud, "
        "exp/iat/nbf tolerances exact to the nanosecond, non-empty sub); corollaries for alg none/HS*, key confusion, unknown kid, changed "
        "text or signature bytes, wrong claim types. The model follows the code through switches MEASURED on every run (tolerances, "
        "signature-length check, saturating time conversion, nbf typing); ~1700 generated tokens (9 algorithms, ~60 single deviations, "
        "pairs, malformed stream) are run on the code, on the model and through an independent strict reference verifier.",
   design_ref="DESIGN.md section 4 C02",
   technique="Rocq proof of an iff between model and specification over all token records; measured-parameter reflection; in-Coq differential correspondence",
   note="RSA/ECDSA/SHA are oracles (symbolic signatures cross-checked against Go's stdlib used strictly); NumericDate read at whole seconds; |now| <= 2^61 s; panic freedom is supported by the malformed stream only (testing); " + COMMON_NOTE),
 "C13": dict(
   text="Theorems (Properties/C13.v) for every capacity >= 1 and every history: the cache never exceeds capacity; inserting a new key into a "
        "full cache removes exactly one entry, the first expired one in recency order if any, else the least recently used (lookups and "
        "stores count as use); hits and stores move the key to the back and keep the others' order; retention (an unexpired entry survives "
        "while fewer than capacity other keys are used since its last use); a generic lock theorem (any interleaving of lock-protected "
        "operations equals the sequential run in lock-acquisition order) instantiated with lock facts extracted from cache.go. "
        "Correspondence: exhaustive enumeration of short histories plus random overflow histories, state compared after every step; "
        "the history monitor of the theorem is applied to the implementation. Concurrency is PARTIAL: -race stress is supporting testing.",
   design_ref="DESIGN.md section 4 C13",
   technique="Rocq proof: rank/recency invariants by induction, generic lock linearizability theorem, go/ast lock facts; in-Coq differential correspondence; -race stress (testing)",
   note="Go mutex semantics and memory model assumed; lock discipline read from source text (tools/lockfacts); " + COMMON_NOTE),
 "C19": dict(
   text="Theorems (Properties/C19.v) about an exact-integer model of x/time/rate's Allow: for every arrival list, with (rate, burst) = (n, n) "
        "at most 2n-1 verifications are admitted in any one-second window and at least as many as a reference n/s bucket on every prefix; "
        "the parameters the code builds through New() are MEASURED on every run and must equal (n, n) (C19_construction, by vm_compute). "
        "The real limiter of an instance is driven with explicit instants and compared decision by decision with the model; the monitor is "
        "applied to the real decisions. 'Refused without being performed' and 'sessions exempt' are supporting tests.",
   design_ref="DESIGN.md section 4 C19",
   technique="Rocq proof: token-bucket invariant and window bound by induction; measured-parameter reflection; in-Coq differential correspondence",
   note="float arithmetic of x/time/rate abstracted to exact arithmetic (decisions within 1e-8 token of the threshold are skipped and counted); " + COMMON_NOTE),
 "C20": dict(
   text="Theorems (Properties/C20.v) about a model of discovery (fetch, bounded retry, metadata cache, initialisation loop, refresh tick, the "
        "readiness gate of ServeHTTP): while not ready every request gets 503/408 and nothing is forwarded or redirected; whenever ready the "
        "endpoints are those of the latest successful fetch; for EVERY finite fault list followed by a healthy provider the retrying "
        "initialisation becomes ready within an explicit linear bound of modelled time. Which initialisation the code has is MEASURED. "
        "Correspondence: instances built with New() against a fake provider with scripted fault sequences, in real time. Liveness in "
        "wall-clock time is PARTIAL (real timers and scheduling are outside the model).",
   design_ref="DESIGN.md section 4 C20",
   technique="Rocq proof: state-machine invariants and induction over fault lists; measured-parameter reflection; real-time correspondence against a scripted fake provider",
   note="the hourly refresh tick is exercised through an accessor that copies the loop body; 30 s pause cap and 5 min cut-off transcribed from source; " + COMMON_NOTE),
 "C05": dict(
   text="PARTIAL. Proved (Properties/C05.v): for any number of in-flight handlers that use a pooled session object only between taking it "
        "from the pool and putting it back, and for EVERY schedule, every read a handler makes returns what that handler itself wrote "
        "(no other request's state, nonce, tokens or identity) and every object is in the pool or owned by exactly one handler; the "
        "pinned 'Clear puts the object back' discipline is refuted by a two-request schedule. Tied to the code by source-text facts "
        "(tools/poolfacts: every sessionPool.Put is in GetSession, on a local object, followed by 'return nil'), re-extracted on every run. "
        "Runtime part (testing, labelled): 16 deterministic pause/resume schedules (request A paused at its k-th response write while "
        "request B of another browser completes) and a -race stress run of concurrent logins/refreshes/logouts with a per-response "
        "consistency monitor, panic recovery and a deadlock watchdog.",
   design_ref="DESIGN.md section 4 C05",
   technique="Rocq proof: ownership invariant over all schedules; go/ast source facts; deterministic-schedule and -race stress runs (testing)",
   note="data races between yield points, the Go memory model and runtime aborts cannot be exhibited by any Gallina model; caches/limiter treated as atomic objects (C13 lock theorem); the hourly metadata refresh goroutine is not simulated; " + COMMON_NOTE),
 "C01": dict(
   text="For every request, instance state satisfying the cache invariant, randomness and provider answer, the response of the model's serve satisfies the gate monitor (Properties/C01.v): a request outside the excluded prefixes, callback and logout paths is forwarded only if it carries cookies sealed under the deployment key holding an authenticated flag and an ID token accepted at that instant, or its stored refresh token has just been exchanged for an accepted token; every other request gets a redirect to the discovered authorization endpoint or a 4xx/5xx and is not forwarded; excluded prefixes pass unchanged; an authenticated session cookie is only ever issued by a successful callback or refresh and stores the token verified at that moment. Correspondence: ~150 world histories per run (jars: none, junk, foreign key, stolen, merged, aged, every token state; methods, Accept/Origin variants, excluded-prefix look-alikes) replayed step by step on the model; the monitor is applied to the implementation's responses.",
   design_ref="DESIGN.md section 4 C01",
   technique='Rocq proof: per-step theorem by case analysis over the ladder + instance invariant preserved by every step; in-Coq differential correspondence on world histories',
   note="symbolic cookies (HMAC/AES idealised), token verification facts are inputs (oracle cross-checked in C02), provider answers and randomness are inputs of a step; " + COMMON_NOTE),
 "C03": dict(
   text="Step theorem (C03_binding_step): a callback establishes a session only with state equal to the state sealed in the carried main cookie, token nonce equal to the carried nonce and the carried PKCE verifier presented at the token endpoint, and consumes all three; without a pending login the token endpoint is not contacted. C03_initiation: every initiation stores exactly the drawn state/nonce/verifier and shows them (and the S256 challenge's preimage) in the redirect. History monitor (most recent initiation of the same browser, replayed callback creates no session and no provider call, freshness) is applied to the implementation on every run; its model-level theorem is C03_history when present in Properties/C03.v.",
   design_ref="DESIGN.md section 4 C03",
   technique='Rocq proof: per-step theorems over serve; history monitor; in-Coq differential correspondence on multi-browser login histories against a provider that enforces single-use codes, redirect_uri and S256',
   note="symbolic cookies (HMAC/AES idealised), token verification facts are inputs (oracle cross-checked in C02), provider answers and randomness are inputs of a step; " + COMMON_NOTE),
 "C04": dict(
   text='C04_stateless/C04_steady (Properties/C04.v): for an honest browser, after a login or refresh stored token t, every later gated request served by ANY instance state (fresh, other instance) while t is more than the grace period from expiry is forwarded with no provider call. Correspondence: login through the real flow, 1-13 requests with instance replacement at every position including between initiation and callback, tokens with/without jti, nbf, 0.3-30 kB, refresh to a token of another size.',
   design_ref="DESIGN.md section 4 C04",
   technique='Rocq proof: history theorem over honest-browser runs of the model (jar round-trip + statelessness of the authenticated branch); in-Coq differential correspondence',
   note="symbolic cookies (HMAC/AES idealised), token verification facts are inputs (oracle cross-checked in C02), provider answers and randomness are inputs of a step; " + COMMON_NOTE),
 "C06": dict(
   text="C06_step: a gated request is forwarded only if the effective e-mail (the refreshed token's when the step refreshed, else the session's) has exactly one '@' with a listed domain and, when roles are configured, the token's well-typed groups/roles arrays contain a listed value; a login is accepted only for an allowed e-mail taken from the verified token. C06_allowed_domain: isAllowedDomain's byte-level characterisation for all strings.",
   design_ref="DESIGN.md section 4 C06",
   technique='Rocq proof: per-step theorem + byte-level string lemma; in-Coq differential correspondence (look-alike e-mails, every claim shape, refresh changing identity)',
   note="symbolic cookies (HMAC/AES idealised), token verification facts are inputs (oracle cross-checked in C02), provider answers and randomness are inputs of a step; " + COMMON_NOTE),
 "C07": dict(
   text="C07 (Properties/C07.v): chunk splitting/joining round trip for all lists; what store_token writes reads back as the token for every chunk count; jar round trip (save, apply Set-Cookie with replace/delete, load) for contiguous jars including deletion of stale chunk cookies; history theorem over honest-browser runs. Correspondence: refresh chains overwriting tokens of 12 sizes (big to small to big), logout, re-login; monitor: what the next request reads back equals what the provider's answer made the previous step write.",
   design_ref="DESIGN.md section 4 C07",
   technique='Rocq proof: Rocq proof: list lemmas, jar invariant, history induction; in-Coq differential correspondence',
   note="symbolic cookies (HMAC/AES idealised), token verification facts are inputs (oracle cross-checked in C02), provider answers and randomness are inputs of a step; " + COMMON_NOTE),
 "C08": dict(
   text='C08_step: when the stored token is expired or within grace and a refresh token is stored, exactly one refresh grant with that token is made; a good answer (accepted token, e-mail) stores new ID token and new-or-old refresh token and forwards under the new identity subject to C06; any failure forwards nothing, answers 401 (JSON) or a login redirect, and an invalid_grant removes the stored refresh token.',
   design_ref="DESIGN.md section 4 C08",
   technique='Rocq proof: per-step theorem over serve (uses the VerifyToken lemmas); in-Coq differential correspondence over minted session shapes x provider behaviours',
   note="symbolic cookies (HMAC/AES idealised), token verification facts are inputs (oracle cross-checked in C02), provider answers and randomness are inputs of a step; " + COMMON_NOTE),
 "C09": dict(
   text='PARTIAL w.r.t. real cryptography (HMAC unforgeability and AES secrecy are assumptions of the symbolic cookie model). Proved: in the symbolic model a cookie is accepted as content only if sealed under the deployment key for that exact name (C09_tamper), undecodable cookies do not influence the response (C09_undecodable_ignored), and with encryption on no secret field is derivable without the key (C09_opaque); whether the running codec encrypts is MEASURED on every run. Correspondence/monitor: every Set-Cookie of every flow goes through a key-less decoder looking for planted secrets; bit flips, truncations, swaps between names and sessions are replayed on the model.',
   design_ref="DESIGN.md section 4 C09",
   technique='Rocq proof: symbolic (Dolev-Yao) proof + measured-parameter reflection; key-less decoder monitor; in-Coq differential correspondence',
   note="symbolic cookies (HMAC/AES idealised), token verification facts are inputs (oracle cross-checked in C02), provider answers and randomness are inputs of a step; " + COMMON_NOTE),
 "C10": dict(
   text="C10_step: every identity header the downstream sees on a forwarded gated request equals the value derived from the effective token/e-mail (templated headers: the template oracle's result) and no client-supplied value survives under an identity name.",
   design_ref="DESIGN.md section 4 C10",
   technique='Rocq proof: per-step non-interference theorem; in-Coq differential correspondence with client-supplied marker values under every identity name',
   note="symbolic cookies (HMAC/AES idealised), token verification facts are inputs (oracle cross-checked in C02), provider answers and randomness are inputs of a step; " + COMMON_NOTE),
 "C11": dict(
   text='C11_step + C11_ends: the logout response replaces every cookie the middleware would read by an empty one and redirects to end-session (token hint, post-logout URI) or the post-logout URI; along every honest-browser history, after logout no gated request is forwarded and no refresh grant is attempted until a callback establishes a session.',
   design_ref="DESIGN.md section 4 C11",
   technique='Rocq proof: per-step theorem + history theorem (uses the jar round trip for clear); in-Coq differential correspondence with chunked sessions',
   note="symbolic cookies (HMAC/AES idealised), token verification facts are inputs (oracle cross-checked in C02), provider answers and randomness are inputs of a step; " + COMMON_NOTE),
 "C15": dict(
   text="C15_step: every 3xx of the model points to the discovered authorization/end-session endpoint, the configured post-logout URI or a path p with same_origin_path p; C15_local_path_same_origin: the sanitiser implies the browser-level classification for ALL byte strings. net/http.Redirect's path cleaning is an oracle (checked on every case).",
   design_ref="DESIGN.md section 4 C15",
   technique='Rocq proof: per-step theorem + byte-level string lemma; in-Coq classification of every observed Location',
   note="symbolic cookies (HMAC/AES idealised), token verification facts are inputs (oracle cross-checked in C02), provider answers and randomness are inputs of a step; " + COMMON_NOTE),
 "C16": dict(
   text="C16_escape_safe / C16_unescape_escape: html_escape output contains no markup byte and round-trips, for all byte strings; C16_step: model bodies are plain, escaped HTML or JSON with status >= 400. Tie: html_escape is compared byte for byte with Go's escaping and with the body sendErrorResponse actually produces; every world response is scanned for request-derived markup.",
   design_ref="DESIGN.md section 4 C16",
   technique='Rocq proof: Rocq string lemmas; differential correspondence of the escaping; raw-body monitor',
   note="symbolic cookies (HMAC/AES idealised), token verification facts are inputs (oracle cross-checked in C02), provider answers and randomness are inputs of a step; " + COMMON_NOTE),
 "C17": dict(
   text="C17_step: no 5xx except the callback's provider-failure answers, no panic, and a gated request with an unusable main cookie gets a login redirect whose Set-Cookies replace main/access/refresh cookies (PARTIAL: Go-level panic freedom beyond the modelled cases rests on the malformed stream under recover()). Healing is checked on every history by a complete login from the resulting jar.",
   design_ref="DESIGN.md section 4 C17",
   technique='Rocq proof: per-step theorem over serve; in-Coq differential correspondence (junk/truncated/flipped/foreign cookies under every name, aged sessions, URIs to 16 kB)',
   note="symbolic cookies (HMAC/AES idealised), token verification facts are inputs (oracle cross-checked in C02), provider answers and randomness are inputs of a step; " + COMMON_NOTE),
 "C18": dict(
   text="C18: Set-Cookie line length table for EVERY chunk payload length 0..maxCookieSize measured from the real store and checked <= 4096 by computation, combined with the chunking bound theorem; main-cookie sweep to the codec's refusal point; attributes of every raw Set-Cookie line of every world step checked by the harness (flag), model emits none.",
   design_ref="DESIGN.md section 4 C18",
   technique='Rocq proof: exhaustive measured table + vm_compute reflection + chunk bound lemma; raw-line monitor on world histories',
   note="symbolic cookies (HMAC/AES idealised), token verification facts are inputs (oracle cross-checked in C02), provider answers and randomness are inputs of a step; " + COMMON_NOTE),
 "C14": dict(
   text="Theorems (Properties/C14.v) about the model of VerifyToken/RevokeToken: an accept implies acceptance by a from-scratch verification at that instant (cache invariant: entries are cached at most until the token's own expiry and were accepted when cached), failed verifications cache nothing, a revocation takes effect on the very next verification and lasts as long as the token could be accepted. Correspondence: histories of verify/revoke/wait over token sets including tokens sharing the signature segment or payload of a valid one; verdict and cache-entry presence compared after every step; the monitor is applied to the implementation.",
   design_ref="DESIGN.md section 4 C14",
   technique="Rocq proof: cache invariant preserved by every step, induction over histories; in-Coq differential correspondence",
   note="long waits simulated by shifting cache expiry times; " + COMMON_NOTE),
 "C12": dict(
   text="Theorems (Properties/C12.v) prove, for the executable model of cache.go and for every capacity and every finite "
        "history of Set/Get/Delete/Cleanup of any length, that every lookup returns only the latest stored, undeleted, "
        "unexpired value and does return it while capacity is not exceeded; that cleanup removes exactly the expired entries; "
        "that every reachable state is well formed. The model is tied to the code on every run by state-level correspondence "
        "(result, LRU list, items, elems, remaining lifetimes after every operation of ~300 generated histories) and the "
        "history monitor of the theorem is applied to the implementation's own outputs to produce replays.",
   design_ref="DESIGN.md section 4 C12",
   technique="Rocq proof: invariant + refinement to a history specification by induction; in-Coq differential correspondence",
   note="clock strictly increasing between operations; time simulated by shifting ExpiresAt; " + COMMON_NOTE),
}

NOT_APPLICABLE = []

# checks whose theorem files are not in the tree yet (enabled as they land)
DISABLED = set(p for p in CHECKS if p not in ('C02','C05','C12','C13','C19','C20') and not os.path.exists(os.path.join(V, 'coq/theories/Properties/%s.v' % p)))

# sentences appended to the level text: theorems and monitor clauses added after the seeded-change rounds
EXTRA = {
 "C18": " The process has a past (every session key was used once by an instance without forceHTTPS) and histories reload the deployment with forceHTTPS flipped: cookies follow the configuration valid now.",
 "C15": " Segments: the provider moves its authorization endpoint under the same issuer; standard authorization errors arrive while a login from a hostile URI is pending.",
 "C14": " Histories include another application (client ID) of the same provider built in the same process, ordinary session requests between revocation and verification, and tokens that expire in the year 2286 and beyond.",
 "C11": " Segments: the provider moves, drops or introduces its end-session endpoint; after the instances' metadata refresh a logout uses what is published now.",
 "C06": " Segments: the deployment is reloaded with other allow-lists; sessions issued before are judged by the lists valid now. A third of all tokens carry provider-flavoured extra claims naming another identity / namespaced roles.",
 "C02": " Every verdict is preceded by unrelated refused tokens with a complete claim set (nothing of them may reach the next token); ECDSA signatures also as ASN.1 DER.",
 "C01": " Histories have segments: the provider rotates its signing key and the instances pick up the new key set (reload, or the cached set runs out); sessions signed with the retired key are not forwarded any more. Gate probes carry proxy routing headers and run under post-logout targets whose path is `/`.",
 "C03": " State and nonce values of one deployment are also compared with each other: two login redirects whose values agree in half of their positions raise a flag (structured, predictable values). C03_initiation_monitor: every response that redirects to the authorization endpoint stores, in a cookie that is set (not deleted), exactly the state / nonce / verifier its URL shows (boolean monitor applied to every observed response).",
 "C04": " C04_completion_step: a response that completes a login (callback 302 to a local path after a successful exchange) or a forwarded refresh stores, in that very response, the authenticated main cookie and the ID token obtained.",
 "C05": " A fifth supporting run puts the provider's token endpoint behind a gateway that answers through redirects and keeps each transaction in a cookie, and overlaps the code exchanges and refreshes of ten browsers: each must get its own answer. A third supporting run overlaps two browsers' refreshing requests with one slow JWKS fetch after the key set expired and was dropped by the cleanup tick; a fourth (no race detector) runs the metadata refresh loop body in a tight loop against login redirects, callbacks and authenticated requests under a deadlock watchdog.",
 "C07": " C07_read_back_step: the ID token forwarded downstream (no provider call intervening) and the refresh token presented to the provider are exactly what the request's cookies hold; histories include tokens of 32-70 KB. C07_api_refinement: for EVERY list of requests of one browser from an empty jar, each request ANY list of session-API calls (setters in any order, any number of Saves, Clear), the model reads exactly the values last written and saved, for every chunk count per token; the sweep `sessionops` runs generated call sequences on the real SessionManager and compares what its getters return with the model and with that reference (premises of the theorem checked on every case).",
 "C09": " C09_load_ignores_undecodable (session content never depends on undecodable cookies) and C09_undecodable_ignored (new state equal, response equal up to deletion headers for chunk cookies) hold unconditionally; the opacity measurement includes a main-cookie size sweep up to and beyond the codec's length cap. Every emitted cookie value is also read as plain text, URL-escaped text and base64 (not only as a securecookie), against the session content AND the request URI; hand-written cookies with look-alike names (the deployment's prefix + 40 suffixes) carrying unique markers are planted before callbacks and ordinary requests, and a marker surfacing in a Location, body, forwarded header or stored cookie is a violation (flag 8).",
 "C12": " A quarter of the histories run through the TokenCache wrapper (prefixed keys, claims maps) around the cache, judged by the same model; C12_wrapper_outputs / C12_wrapper_history: the cache behind ANY injective renaming of keys gives the same outputs, so every C12 statement holds of the wrapper with the caller's keys. Lifetimes range from negative to math.MaxInt64.",
 "C13": " The stress run includes a retention phase (writers re-store their own key live while sweepers call Cleanup; a live entry below capacity must always be found) and an LRU phase (the least recently used entry of a full cache is looked up while other goroutines hold the lock, then one key is stored: the looked-up entry must survive).",
 "C17": " C17_overage_session: a session whose main cookie opens under the key but began more than 24 h ago gets the login redirect on every gated path, for every ready instance state (monitor c17_age_step on every observed step). C17_login_heals / C17_save_heals: a successful callback turns ANY jar whose chunk cookies form a prefix (junk, other keys, renamed cookies under every name) into a contiguous jar holding exactly the stored session; C17_prefix_invariant / C17_prefix_tamper: that premise is preserved by every response and by tampering with cookie values; C17_redirect_starts_login: every login redirect stores the state it shows.",
 "C19": " Supporting runs also check that 35 sessions issued by another instance are all served by a fresh instance with rateLimit 10 (session traffic is exempt) and that a refresh with the limiter drained is refused. The limiter construction is measured for every configured limit 10..130 and a spread up to 10000 (values that do not divide a second, values above 1000); arrival patterns are also run for such limits.",
 "C20": " C20_stays_serving: once healed, no request is turned away while the provider keeps its document, whatever shifts / refresh ticks / cleanups happen; one case runs with the middleware's DEFAULT HTTP client (measured timeout) against a provider that sends headers and stalls the body; C20_endpoints_of_one_document (monitor clause ep_ok): all six endpoint fields of a ready instance are those of ONE document the provider handed out.",
}


def main():
    m = {
      "version": 1,
      "setup_cmd": "bin/setup",
      "hooks": {
        "guard": "verif",
        "enable": "harness files (/verif/harness/zz_vf_*_test.go, //go:build verif) are compiled into package traefikoidc with: "
                  "go test -tags verif -vet=off -mod=vendor -overlay <generated overlay.json> (cwd=/repo); no file under /repo is added or changed",
        "baseline_off_cmd": "cd /repo && go test -mod=vendor -vet=off -count=1 -timeout 25m ./...",
        "source_commits": [],
        "add_only": True,
      },
      "engines": [{"name": "coq-model+correspondence", "path": "coq/ harness/ bin/",
                   "serves_properties": sorted(p for p in CHECKS if p not in DISABLED),
                   "kind_free_text": "Gallina model + Coq theorems; Go overlay harness; cases evaluated in Coq with vm_compute"}],
      "checks": [],
      "not_applicable": NOT_APPLICABLE,
      "notes": "See DESIGN.md. Checks are added as they are built; every listed check runs clean on the tree as committed.",
    }
    for pid in sorted(CHECKS):
        if pid in DISABLED:
            continue
        c = CHECKS[pid]
        m["checks"].append({
          "property_id": pid,
          "quick_cmd": "bin/check %s quick" % pid,
          "thorough_cmd": "bin/check %s thorough" % pid,
          "evidence_file": "/verif/evidence/%s.json" % pid,
          "replay_cmd_template": "bin/check %s quick --replay {path}" % pid,
          "engine": "coq-model+correspondence",
          "level_claimed": {"category": c.get("category", "proof"), "text": c["text"] + EXTRA.get(pid, ""), "design_ref": c["design_ref"]},
          "level_note": c["note"],
          "technique": c["technique"],
        })
    p = os.path.join(V, "MANIFEST.json")
    json.dump(m, open(p, "w"), indent=1)
    r = subprocess.run(["python3-vt", "-c", "import json,jsonschema,sys; jsonschema.validate(json.load(open(sys.argv[1])), json.load(open('/root/.vp/MANIFEST.schema.json'))); print('manifest valid')", p])
    return r.returncode

if __name__ == "__main__":
    sys.exit(main())
