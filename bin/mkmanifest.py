#!/usr/bin/env python3
"""Regenerates /verif/MANIFEST.json from the table below and validates it."""
import json, os, subprocess, sys
V = os.path.dirname(os.path.dirname(os.path.abspath(__file__)))

COMMON_NOTE = ("Trusted: Coq 8.16.1 kernel + vm_compute; the hand-written model is tied to the code by the "
               "correspondence check only (generated cases, evaluated inside Coq); the Go harness and bin/*.py; "
               "per-property modelling assumptions are listed in the evidence file and DESIGN.md section 5.")

CHECKS = {
 "C02": dict(
   text="Theorem C02_iff (Properties/C02.v): for every token record, key set, configuration and instant, the executable model of "
        "parseJWT/VerifyJWTSignatureAndClaims/JWT.Verify accepts exactly when the specification written from the property text holds "
        "(three parts, RS/PS/ES allow-list, key selected by kid of the same family, genuine signature over the exact bytes, iss, aud, "
        "exp/iat/nbf tolerances exact to the nanosecond, non-empty sub); corollaries for alg none/HS*, key confusion, unknown kid, changed "
        "text or signature bytes, wrong claim types. The model follows the code through switches MEASURED on every run (tolerances, "
        "signature-length check, saturating time conversion, nbf typing); ~1700 generated tokens (9 algorithms, ~60 single deviations, "
        "pairs, malformed stream) are run on the code, on the model and through an independent strict reference verifier.",
   design_ref="DESIGN.md section 4 C02",
   technique="Rocq proof of an iff between model and specification over all token records; measured-parameter reflection; in-Coq differential correspondence",
   note="RSA/ECDSA/SHA are oracles (symbolic signatures cross-checked against Go's stdlib used strictly); NumericDate read at whole seconds; |now| <= 2^61 s; panic freedom is supported by the malformed stream only (testing); " + COMMON_NOTE),
 "C13": dict(
   text="Theorems (Properties/C13.v) for every capacity >= 1 and every history: the cache never exceeds capacity; inserting a new key into a "
        "full cache removes exactly one entry, the first expired one in recency order if any, else the least recently used (lookups and "
        "stores count as use); hits and stores move the key to the back and keep the others' order; retention (an unexpired entry survives "
        "while fewer than capacity other keys are used since its last use); a generic lock theorem (any interleaving of lock-protected "
        "operations equals the sequential run in lock-acquisition order) instantiated with lock facts extracted from cache.go. "
        "Correspondence: exhaustive enumeration of short histories plus random overflow histories, state compared after every step; "
        "the history monitor of the theorem is applied to the implementation. Concurrency is PARTIAL: -race stress is supporting testing.",
   design_ref="DESIGN.md section 4 C13",
   technique="Rocq proof: rank/recency invariants by induction, generic lock linearizability theorem, go/ast lock facts; in-Coq differential correspondence; -race stress (testing)",
   note="Go mutex semantics and memory model assumed; lock discipline read from source text (tools/lockfacts); " + COMMON_NOTE),
 "C19": dict(
   text="Theorems (Properties/C19.v) about an exact-integer model of x/time/rate's Allow: for every arrival list, with (rate, burst) = (n, n) "
        "at most 2n-1 verifications are admitted in any one-second window and at least as many as a reference n/s bucket on every prefix; "
        "the parameters the code builds through New() are MEASURED on every run and must equal (n, n) (C19_construction, by vm_compute). "
        "The real limiter of an instance is driven with explicit instants and compared decision by decision with the model; the monitor is "
        "applied to the real decisions. 'Refused without being performed' and 'sessions exempt' are supporting tests.",
   design_ref="DESIGN.md section 4 C19",
   technique="Rocq proof: token-bucket invariant and window bound by induction; measured-parameter reflection; in-Coq differential correspondence",
   note="float arithmetic of x/time/rate abstracted to exact arithmetic (decisions within 1e-8 token of the threshold are skipped and counted); " + COMMON_NOTE),
 "C20": dict(
   text="Theorems (Properties/C20.v) about a model of discovery (fetch, bounded retry, metadata cache, initialisation loop, refresh tick, the "
        "readiness gate of ServeHTTP): while not ready every request gets 503/408 and nothing is forwarded or redirected; whenever ready the "
        "endpoints are those of the latest successful fetch; for EVERY finite fault list followed by a healthy provider the retrying "
        "initialisation becomes ready within an explicit linear bound of modelled time. Which initialisation the code has is MEASURED. "
        "Correspondence: instances built with New() against a fake provider with scripted fault sequences, in real time. Liveness in "
        "wall-clock time is PARTIAL (real timers and scheduling are outside the model).",
   design_ref="DESIGN.md section 4 C20",
   technique="Rocq proof: state-machine invariants and induction over fault lists; measured-parameter reflection; real-time correspondence against a scripted fake provider",
   note="the hourly refresh tick is exercised through an accessor that copies the loop body; 30 s pause cap and 5 min cut-off transcribed from source; " + COMMON_NOTE),
 "C05": dict(
   text="PARTIAL. Proved (Properties/C05.v): for any number of in-flight handlers that use a pooled session object only between taking it "
        "from the pool and putting it back, and for EVERY schedule, every read a handler makes returns what that handler itself wrote "
        "(no other request's state, nonce, tokens or identity) and every object is in the pool or owned by exactly one handler; the "
        "pinned 'Clear puts the object back' discipline is refuted by a two-request schedule. Tied to the code by source-text facts "
        "(tools/poolfacts: every sessionPool.Put is in GetSession, on a local object, followed by 'return nil'), re-extracted on every run. "
        "Runtime part (testing, labelled): 16 deterministic pause/resume schedules (request A paused at its k-th response write while "
        "request B of another browser completes) and a -race stress run of concurrent logins/refreshes/logouts with a per-response "
        "consistency monitor, panic recovery and a deadlock watchdog.",
   design_ref="DESIGN.md section 4 C05",
   technique="Rocq proof: ownership invariant over all schedules; go/ast source facts; deterministic-schedule and -race stress runs (testing)",
   note="data races between yield points, the Go memory model and runtime aborts cannot be exhibited by any Gallina model; caches/limiter treated as atomic objects (C13 lock theorem); the hourly metadata refresh goroutine is not simulated; " + COMMON_NOTE),
 "C12": dict(
   text="Theorems (Properties/C12.v) prove, for the executable model of cache.go and for every capacity and every finite "
        "history of Set/Get/Delete/Cleanup of any length, that every lookup returns only the latest stored, undeleted, "
        "unexpired value and does return it while capacity is not exceeded; that cleanup removes exactly the expired entries; "
        "that every reachable state is well formed. The model is tied to the code on every run by state-level correspondence "
        "(result, LRU list, items, elems, remaining lifetimes after every operation of ~300 generated histories) and the "
        "history monitor of the theorem is applied to the implementation's own outputs to produce replays.",
   design_ref="DESIGN.md section 4 C12",
   technique="Rocq proof: invariant + refinement to a history specification by induction; in-Coq differential correspondence",
   note="clock strictly increasing between operations; time simulated by shifting ExpiresAt; " + COMMON_NOTE),
}

NOT_APPLICABLE = []

def main():
    m = {
      "version": 1,
      "setup_cmd": "bin/setup",
      "hooks": {
        "guard": "verif",
        "enable": "harness files (/verif/harness/zz_vf_*_test.go, //go:build verif) are compiled into package traefikoidc with: "
                  "go test -tags verif -vet=off -mod=vendor -overlay <generated overlay.json> (cwd=/repo); no file under /repo is added or changed",
        "baseline_off_cmd": "cd /repo && go test -mod=vendor -vet=off -count=1 -timeout 25m ./...",
        "source_commits": [],
        "add_only": True,
      },
      "engines": [{"name": "coq-model+correspondence", "path": "coq/ harness/ bin/",
                   "serves_properties": sorted(CHECKS),
                   "kind_free_text": "Gallina model + Coq theorems; Go overlay harness; cases evaluated in Coq with vm_compute"}],
      "checks": [],
      "not_applicable": NOT_APPLICABLE,
      "notes": "See DESIGN.md. Checks are added as they are built; every listed check runs clean on the tree as committed.",
    }
    for pid in sorted(CHECKS):
        c = CHECKS[pid]
        m["checks"].append({
          "property_id": pid,
          "quick_cmd": "bin/check %s quick" % pid,
          "thorough_cmd": "bin/check %s thorough" % pid,
          "evidence_file": "/verif/evidence/%s.json" % pid,
          "replay_cmd_template": "bin/check %s quick --replay {path}" % pid,
          "engine": "coq-model+correspondence",
          "level_claimed": {"category": c.get("category", "proof"), "text": c["text"], "design_ref": c["design_ref"]},
          "level_note": c["note"],
          "technique": c["technique"],
        })
    p = os.path.join(V, "MANIFEST.json")
    json.dump(m, open(p, "w"), indent=1)
    r = subprocess.run(["python3-vt", "-c", "import json,jsonschema,sys; jsonschema.validate(json.load(open(sys.argv[1])), json.load(open('/root/.vp/MANIFEST.schema.json'))); print('manifest valid')", p])
    return r.returncode

if __name__ == "__main__":
    sys.exit(main())
