#!/usr/bin/env python3
"""Regenerates /verif/MANIFEST.json from the table below and validates it."""
import json, os, subprocess, sys
V = os.path.dirname(os.path.dirname(os.path.abspath(__file__)))

COMMON_NOTE = ("Trusted: Coq 8.16.1 kernel + vm_compute; the hand-written model is tied to the code by the "
               "correspondence check only (generated cases, evaluated inside Coq); the Go harness and bin/*.py; "
               "per-property modelling assumptions are listed in the evidence file and DESIGN.md section 5.")

CHECKS = {
 "C12": dict(
   text="Theorems (Properties/C12.v) prove, for the executable model of cache.go and for every capacity and every finite "
        "history of Set/Get/Delete/Cleanup of any length, that every lookup returns only the latest stored, undeleted, "
        "unexpired value and does return it while capacity is not exceeded; that cleanup removes exactly the expired entries; "
        "that every reachable state is well formed. The model is tied to the code on every run by state-level correspondence "
        "(result, LRU list, items, elems, remaining lifetimes after every operation of ~300 generated histories) and the "
        "history monitor of the theorem is applied to the implementation's own outputs to produce replays.",
   design_ref="DESIGN.md section 4 C12",
   technique="Rocq proof: invariant + refinement to a history specification by induction; in-Coq differential correspondence",
   note="clock strictly increasing between operations; time simulated by shifting ExpiresAt; " + COMMON_NOTE),
}

NOT_APPLICABLE = []

def main():
    m = {
      "version": 1,
      "setup_cmd": "bin/setup",
      "hooks": {
        "guard": "verif",
        "enable": "harness files (/verif/harness/zz_vf_*_test.go, //go:build verif) are compiled into package traefikoidc with: "
                  "go test -tags verif -vet=off -mod=vendor -overlay <generated overlay.json> (cwd=/repo); no file under /repo is added or changed",
        "baseline_off_cmd": "cd /repo && go test -mod=vendor -vet=off -count=1 -timeout 25m ./...",
        "source_commits": [],
        "add_only": True,
      },
      "engines": [{"name": "coq-model+correspondence", "path": "coq/ harness/ bin/",
                   "serves_properties": sorted(CHECKS),
                   "kind_free_text": "Gallina model + Coq theorems; Go overlay harness; cases evaluated in Coq with vm_compute"}],
      "checks": [],
      "not_applicable": NOT_APPLICABLE,
      "notes": "See DESIGN.md. Checks are added as they are built; every listed check runs clean on the tree as committed.",
    }
    for pid in sorted(CHECKS):
        c = CHECKS[pid]
        m["checks"].append({
          "property_id": pid,
          "quick_cmd": "bin/check %s quick" % pid,
          "thorough_cmd": "bin/check %s thorough" % pid,
          "evidence_file": "/verif/evidence/%s.json" % pid,
          "replay_cmd_template": "bin/check %s quick --replay {path}" % pid,
          "engine": "coq-model+correspondence",
          "level_claimed": {"category": c.get("category", "proof"), "text": c["text"], "design_ref": c["design_ref"]},
          "level_note": c["note"],
          "technique": c["technique"],
        })
    p = os.path.join(V, "MANIFEST.json")
    json.dump(m, open(p, "w"), indent=1)
    r = subprocess.run(["python3-vt", "-c", "import json,jsonschema,sys; jsonschema.validate(json.load(open(sys.argv[1])), json.load(open('/root/.vp/MANIFEST.schema.json'))); print('manifest valid')", p])
    return r.returncode

if __name__ == "__main__":
    sys.exit(main())
