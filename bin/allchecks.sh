#!/bin/bash
# usage: bin/allchecks.sh <repo dir> [ids...] : run quick checks against a tree, print one line per check
repo=$1; shift
ids="${@:-C01 C02 C03 C04 C05 C06 C07 C08 C09 C10 C11 C12 C13 C14 C15 C16 C17 C18 C19 C20}"
cd /verif
for p in $ids; do
  out=$(VERIF_REPO=$repo bin/check $p quick 2>&1); rc=$?
  echo "$p rc=$rc $(echo "$out" | grep -E 'VIOLATION|KNOWN-FINDING' | head -2 | tr '\n' ' ')"
done
