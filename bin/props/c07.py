"""C07: world-harness check (see props/worldcommon.py and DESIGN.md section 4 C07)."""
import os
import vflib as L
from props.worldcommon import WorldSpec


class C07(WorldSpec):
    pid = "C07"
    profile = "C07"
    monitor = "violates_c07"
    n_quick = 80
    n_thorough = 80 * 25
    obligations = ['C07_split_concat', 'C07_read_store', 'C07_jar_roundtrip', 'C07_roundtrip', 'C07_nonvacuous']

    @property
    def coq_targets(self):
        t = ["theories/Spec/WorldSpec.vo"]
        if os.path.exists(os.path.join(L.COQ, "theories/Properties/C07.v")):
            t.append("theories/Properties/C07.vo")
        return t


SPEC = C07()
