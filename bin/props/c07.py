"""C07: what was written to a session and saved is what the next request reads.

Two sets of cases, merged into one verdict (props/subcheck.py):
  * the world check (props/worldcommon.py, profile C07): the sessions the request handlers write, whole
    histories through the model and the monitors violates_c07 (history + per-step end-to-end read-back);
  * the session-operations sweep (harness/zz_vf_sessionops_test.go): ARBITRARY sequences of calls on the
    session API (setters in any order, Clear, Save, several times per request, token texts of every size
    class) over successive requests of one browser; what the real getters return at the start of every
    request is compared inside Coq (Corr/SessionCorr.v) with the model of Model/Session.v AND with the
    reference "the values last written and saved".
Theorems: Properties/C07.v."""
import os
import vflib as L
from props.worldcommon import WorldSpec
from props import subcheck


class SessionOpsSweep(subcheck.Sweep):
    name = "sessionops"
    harness_test = "TestVF_SessionOps"
    header = ("From VF Require Import Base.Prelude Model.Cache Model.Session Corr.SessionCorr Proofs.SessionRef.\n"
              "Open Scope N_scope.\n"
              "Definition off_theorem (c : scase) := negb (wf_reqs (sc_reqs c) && nch_ok (nch_of (sc_nchunks c)) (sc_reqs c)).\n")
    # a case outside the premises of C07_api_refinement counts as a broken tie (the generator must stay inside them)
    footer = ("Definition mism := Eval vm_compute in sids_where (fun c => smismatch c || off_theorem c) cases.\nPrint mism.\n"
              "Definition viol := Eval vm_compute in sids_where violates_c07s cases.\nPrint viol.\n")
    shards = 8

    def env(self, tier, attempt):
        n = 60 if tier == "quick" else 1500
        if attempt:
            n *= 5
        return {"VERIF_N": n, "VERIF_SEED": L.seed() + 7919 * attempt}

    def to_gallina(self, c):
        return c["coq"]

    def inputs(self, c):
        return {"id": c["id"], "kind": c["kind"],
                "reqs": [{"path": r["path"], "ops": r.get("ops") or []} for r in c["reqs"]]}

    def nontrivial(self, c):
        return sum(1 for r in c["reqs"] for o in (r.get("ops") or []) if o["o"] == "save") >= 1

    def sample(self, c):
        s = {"id": c["id"], "kind": c["kind"], "reqs": []}
        for r in c["reqs"]:
            ops = []
            for o in r.get("ops") or []:
                o = dict(o)
                if len(o.get("v", "")) > 60:
                    o["v"] = "%s...(%d bytes)" % (o["v"][:40], len(o["v"]))
                ops.append(o)
            s["reqs"].append({"path": r["path"], "read_at_start": r.get("obs"), "ops": ops})
        return s

    def histogram(self, cases):
        h = {"requests": 0, "ops": {}, "token_size_buckets": {}}
        for c in cases:
            h["requests"] += len(c["reqs"])
            for r in c["reqs"]:
                for o in r.get("ops") or []:
                    h["ops"][o["o"]] = h["ops"].get(o["o"], 0) + 1
                    if o["o"] in ("acc", "ref"):
                        n = len(o.get("v", ""))
                        k = "0" if n == 0 else "<=100" if n <= 100 else "<=1500" if n <= 1500 else "<=3100" if n <= 3100 else "<=9000" if n <= 9000 else ">9000"
                        h["token_size_buckets"][k] = h["token_size_buckets"].get(k, 0) + 1
        return h

    def describe(self):
        return ("sequences of session-API calls over 4..9 successive requests of one browser on the real SessionManager: "
                "SetAuthenticated, SetCSRF/Nonce/CodeVerifier/Email/IncomingPath, SetAccessToken/SetRefreshToken with texts of "
                "0..33000 bytes (JWT-shaped, base64, compressible, gzip-looking), Clear, Save, from one PRNG (VERIF_SEED) after a "
                "fixed corpus; the eight getters are read at the start of every request; non-trivial = at least one Save")


class C07(subcheck.WithSweeps, WorldSpec):
    pid = "C07"
    profile = "C07"
    monitor = "violates_c07"
    n_quick = 80
    n_thorough = 80 * 25
    sweeps = [SessionOpsSweep()]
    obligations = ['C07_split_concat', 'C07_read_store', 'C07_jar_roundtrip', 'C07_roundtrip', 'C07_nonvacuous',
                   'C07_api_refinement', 'C07_api_mismatch_is_violation']

    @property
    def coq_targets(self):
        t = ["theories/Spec/WorldSpec.vo", "theories/Corr/SessionCorr.vo", "theories/Proofs/SessionRef.vo"]
        if os.path.exists(os.path.join(L.COQ, "theories/Properties/C07.v")):
            t.append("theories/Properties/C07.vo")
        return t

    def describe_rule(self):
        return WorldSpec.describe_rule(self) + "; PLUS the session-operations sweep: " + self.sweeps[0].describe()


SPEC = C07()


def main(argv):
    return subcheck.main(SPEC, argv)
