"""C04: world-harness check (see props/worldcommon.py and DESIGN.md section 4 C04)."""
import os
import vflib as L
from props.worldcommon import WorldSpec


class C04(WorldSpec):
    pid = "C04"
    profile = "C04"
    monitor = "violates_c04"
    n_quick = 80
    n_thorough = 80 * 25
    obligations = ['C04_stateless', 'C04_steady', 'C04_nonvacuous']

    @property
    def coq_targets(self):
        t = ["theories/Spec/WorldSpec.vo"]
        if os.path.exists(os.path.join(L.COQ, "theories/Properties/C04.v")):
            t.append("theories/Properties/C04.vo")
        return t


SPEC = C04()
