"""C11: world-harness check (see props/worldcommon.py and DESIGN.md section 4 C11)."""
import os
import vflib as L
from props.worldcommon import WorldSpec


class C11(WorldSpec):
    pid = "C11"
    profile = "C11"
    monitor = "violates_c11"
    n_quick = 100
    n_thorough = 100 * 25
    obligations = ['C11_step', 'C11_ends', 'C11_nonvacuous']

    @property
    def coq_targets(self):
        t = ["theories/Spec/WorldSpec.vo"]
        if os.path.exists(os.path.join(L.COQ, "theories/Properties/C11.v")):
            t.append("theories/Properties/C11.vo")
        return t


SPEC = C11()
