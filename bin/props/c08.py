"""C08: world-harness check (see props/worldcommon.py and DESIGN.md section 4 C08)."""
import os
import vflib as L
from props.worldcommon import WorldSpec


class C08(WorldSpec):
    pid = "C08"
    profile = "C08"
    monitor = "violates_c08"
    n_quick = 150
    n_thorough = 150 * 25
    obligations = ['C08_step', 'C08_nonvacuous']

    @property
    def coq_targets(self):
        t = ["theories/Spec/WorldSpec.vo"]
        if os.path.exists(os.path.join(L.COQ, "theories/Properties/C08.v")):
            t.append("theories/Properties/C08.vo")
        return t


SPEC = C08()
