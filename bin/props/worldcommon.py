"""Shared pieces of the checks built on the world harness (TestVF_World) and Model/Middleware.v."""
import json, os
import vflib as L
from casecheck import Spec

HEADER = ("From VF Require Import Base.Prelude Model.Cache Model.Session Model.Middleware Corr.WorldCorr Spec.WorldSpec.\n"
          "Open Scope N_scope.\n")


class WorldSpec(Spec):
    harness_test = "TestVF_World"
    header = HEADER
    profile = "mixed"
    monitor = "wmismatch"      # name of the Gallina predicate wcase -> bool used as the property monitor
    n_quick = 120
    n_thorough = 2000
    shards = 16

    @property
    def footer(self):
        return ("Definition mism := Eval vm_compute in wids_where wmismatch cases.\nPrint mism.\n"
                "Definition viol := Eval vm_compute in wids_where %s cases.\nPrint viol.\n" % self.monitor)

    def env(self, tier, attempt):
        n = self.n_quick if tier == "quick" else self.n_thorough
        if attempt:
            n *= 5
        return {"VERIF_PROFILE": self.profile, "VERIF_N": n, "VERIF_SEED": L.seed() + 7919 * attempt}

    def to_gallina(self, c):
        return c["coq"]

    def case_key(self, c):
        return json.dumps(c["script"], sort_keys=True)

    def nontrivial(self, c):
        return c.get("stats", {}).get("steps", 0) >= 2

    def sample(self, c):
        return {"id": c["id"], "kind": c["kind"], "cfg": c["script"]["cfg"], "actions": c["script"]["actions"][:8],
                "n_actions": len(c["script"]["actions"]), "observed": c.get("obs", [])[:8]}

    def histogram(self, cases):
        h = {"kinds": {}, "actions": {}, "steps": 0, "statuses": {}, "tokens": 0, "tags": {}}
        for c in cases:
            h["kinds"][c["kind"]] = h["kinds"].get(c["kind"], 0) + 1
            for a in c["script"]["actions"]:
                k = a["kind"] + (":" + a.get("tamper", "") if a["kind"] == "tamper" else "")
                h["actions"][k] = h["actions"].get(k, 0) + 1
            for o in c.get("obs", []):
                s = str(o["status"])
                h["statuses"][s] = h["statuses"].get(s, 0) + 1
                t = str(o.get("tag"))
                h["tags"][t] = h["tags"].get(t, 0) + 1
            h["steps"] += c.get("stats", {}).get("steps", 0)
            h["tokens"] += c.get("stats", {}).get("tokens", 0)
        return h

    def shrink_candidates(self, case):
        acts = case["script"]["actions"]
        out = []
        n = len(acts)
        if n <= 1:
            return out
        def mk(a):
            s = dict(case["script"], actions=a)
            return {"id": 0, "kind": case["kind"], "script": s}
        for lo, hi in ((0, n // 2), (n // 2, n)):
            out.append(mk(acts[:lo] + acts[hi:]))
        for i in range(n):
            out.append(mk(acts[:i] + acts[i + 1:]))
        return out[:60]

    def describe_rule(self):
        return ("world histories from one PRNG (VERIF_SEED), profile '%s': a deployment configuration and a list of browser / "
                "attacker / operator actions executed against instances built with New() and a fake provider; corpus first; "
                "non-trivial = at least 2 HTTP steps; distinct = distinct script" % self.profile)
