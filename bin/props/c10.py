"""C10: world-harness check (see props/worldcommon.py and DESIGN.md section 4 C10)."""
import os
import vflib as L
from props.worldcommon import WorldSpec


class C10(WorldSpec):
    pid = "C10"
    profile = "C10"
    monitor = "violates_c10"
    n_quick = 120
    n_thorough = 120 * 25
    obligations = ['C10_step', 'C10_nonvacuous']

    @property
    def coq_targets(self):
        t = ["theories/Spec/WorldSpec.vo"]
        if os.path.exists(os.path.join(L.COQ, "theories/Properties/C10.v")):
            t.append("theories/Properties/C10.vo")
        return t


SPEC = C10()
