"""Gallina printing of cache cases (C12, C13)."""
import vflib as L

HEADER = "From VF Require Import Base.Prelude Model.Cache Corr.CacheCorr.\nOpen Scope Z_scope.\n"


def op_term(op):
    o = op["o"]
    if o == "set":
        return "(OSet %d%%N %s %s)" % (op.get("k", 0), L.zlit(op.get("v", 0)), L.zlit(op.get("ttl", 0)))
    if o == "get":
        return "(OGet %d%%N)" % op.get("k", 0)
    if o == "del":
        return "(ODel %d%%N)" % op.get("k", 0)
    return "OCleanup"


def knum(s):
    """harness key "k<n>" -> n; anything else (e.g. a key the wrapper failed to prefix) -> a key no model state holds"""
    import re
    m = re.fullmatch(r"k(\d+)(~x*|\.cGF5bG9hZA\.[A-Za-z]+\d)?", s)
    return int(m.group(1)) if m else 999999


def state_term(st):
    order = L.coq_list(["%d%%N" % knum(k) for k in st["order"]])
    items = L.coq_list(["(%d%%N, (%s, %s))" % (knum(i["k"]), L.zlit(i.get("v", 0)), L.zlit(i.get("m", 0))) for i in st["items"]])
    elems = L.coq_list(["%d%%N" % knum(k) for k in st["elems"]])
    return "(mkObs %s %s %s)" % (order, items, elems)


def case_term(c):
    steps = []
    for s in c.get("steps", []):
        out = "(Some %s)" % L.zlit(s.get("out", 0)) if s.get("hit") else "None"
        steps.append("(%s, %s, %s, %s)" % (L.zlit(s["t"]), op_term(s["op"]), out, state_term(s["state"])))
    return "(mkCase %d %d %s)" % (c["id"], c["cap"], L.coq_list(steps))


def histogram(cases):
    h = {"kinds": {}, "ops": {}, "capacity": {}, "length_buckets": {}, "ttl_hours": {}}
    for c in cases:
        h["kinds"][c["kind"]] = h["kinds"].get(c["kind"], 0) + 1
        h["capacity"][str(c["cap"])] = h["capacity"].get(str(c["cap"]), 0) + 1
        n = len(c["ops"])
        b = "<=10" if n <= 10 else "<=30" if n <= 30 else "<=60" if n <= 60 else ">60"
        h["length_buckets"][b] = h["length_buckets"].get(b, 0) + 1
        for op in c["ops"]:
            h["ops"][op["o"]] = h["ops"].get(op["o"], 0) + 1
            if op["o"] == "set":
                t = str(op.get("ttl", 0) // 3600000000000)
                h["ttl_hours"][t] = h["ttl_hours"].get(t, 0) + 1
    return h


def shrink_candidates(case):
    ops = case["ops"]
    out = []
    n = len(ops)
    if n <= 1:
        return out
    # halves first, then single deletions
    for lo, hi in ((0, n // 2), (n // 2, n)):
        out.append(dict(case, ops=ops[:lo] + ops[hi:], steps=[]))
    for i in range(n):
        out.append(dict(case, ops=ops[:i] + ops[i + 1:], steps=[]))
    return out[:200]
