"""Checks made of the world check PLUS dedicated sweeps (C16, C18, C09).

A property module built on this file has its own `main`: it runs the ordinary
case check (casecheck._main: world harness, theorems, cases through model and
monitors) with the sweeps attached through `gen_params` / `extra_checks`, then
merges the verdicts:

  * a sweep case violating its monitor        -> VIOLATION with a replay naming the sweep and the case
  * a sweep whose harness no longer builds / whose observations differ from the
    model without violating the property      -> VIOLATION ... no-failing-input-found (tie broken)
  * `--replay` of a sweep replay file re-runs only that sweep on that case

Exit codes and the evidence file follow bin/casecheck.py.
"""
import json, os, sys, time
import vflib as L
import casecheck


class Sweep:
    """a second set of cases with its own harness test, Gallina printing and monitor"""
    name = "sweep"
    harness_test = "TestVF_X"
    header = ""
    footer = ""      # must define and Print `mism` and `viol`
    shards = 8
    timeout = 600

    def env(self, tier, attempt):
        return {}

    def to_gallina(self, case):
        raise NotImplementedError

    def inputs(self, case):          # the part of a case needed to re-run it
        return case

    def nontrivial(self, case):
        return True

    def key(self, case):
        return json.dumps(self.inputs(case), sort_keys=True)

    def sample(self, case):
        return case

    def histogram(self, cases):
        return {}

    def describe(self):
        return ""


def run_sweep(pid, sw, tier, wd, replay_cases=None, attempt=0):
    """returns dict(cases, mism, viol, params) or dict(broken=...)"""
    sd = os.path.join(wd, "sweep_" + sw.name + ("_replay" if replay_cases is not None else ""))
    os.makedirs(sd, exist_ok=True)
    env = dict(sw.env(tier, attempt))
    if replay_cases is not None:
        rp = os.path.join(sd, "replay_in.jsonl")
        with open(rp, "w") as fh:
            for c in replay_cases:
                fh.write(json.dumps(c) + "\n")
        env["VERIF_REPLAY"] = rp
    try:
        L.run_harness(sw.harness_test, sd, env=env, timeout=sw.timeout)
    except L.HarnessError as ex:
        return {"broken": {"kind": "harness " + ex.kind, "sweep": sw.name, "detail": ex.output[-4000:]}}
    cases = L.read_jsonl(os.path.join(sd, "cases.jsonl"))
    params = {}
    pp = os.path.join(sd, "params.json")
    if os.path.exists(pp):
        params = json.load(open(pp))
    res = {"cases": cases, "params": params, "mism": [], "viol": []}
    if sw.header:
        terms = [sw.to_gallina(c) for c in cases]
        outs = L.eval_shards("%s_%s" % (pid, sw.name), L.shard(terms, sw.shards), sw.header, sw.footer)
        mism, viol = set(), set()
        for o in outs:
            mism.update(L.parse_nlist(o, "mism"))
            viol.update(L.parse_nlist(o, "viol"))
        res["mism"], res["viol"] = sorted(mism), sorted(viol)
    return res


class WithSweeps:
    """mixin for a casecheck.Spec: case-evaluating sweeps (self.sweeps) and/or
    measured-parameter sweeps handled by the subclass (self.param_sweep_*)"""
    sweeps = []

    def _reset(self):
        self.sub_broken = []       # broken ties found by the sweeps (no witness)
        self.sub_counts = {"evaluations": 0, "distinct_nontrivial": 0}
        self.sub_samples = []
        self.sub_bodies = []

    def note_broken(self, what):
        self.sub_broken.append(what)

    def count_cases(self, sw_name, cases, nontrivial, key):
        keys = set()
        nt = 0
        for c in cases:
            k = key(c)
            if k in keys:
                continue
            keys.add(k)
            if nontrivial(c):
                nt += 1
        self.sub_counts["evaluations"] += len(cases)
        self.sub_counts["distinct_nontrivial"] += nt
        return nt

    def violation_body(self, tier, sw_name, case, what):
        return {"property": self.pid, "seed": L.seed(), "tier": tier, "kind": "monitor-violation (sweep %s)" % sw_name,
                "check": sw_name, "what": what, "case": case}

    # -- case-evaluating sweeps
    def run_case_sweeps(self, tier, wd):
        ev, bodies = {}, []
        for sw in self.sweeps:
            res = run_sweep(self.pid, sw, tier, wd)
            if "broken" in res:
                self.note_broken(res["broken"])
                ev[sw.name] = {"broken": res["broken"]["kind"]}
                continue
            cases = res["cases"]
            by_id = {c["id"]: c for c in cases}
            nt = self.count_cases(sw.name, cases, sw.nontrivial, sw.key)
            for i in res["viol"]:
                c = by_id[i]
                bodies.append(self.violation_body(tier, sw.name, dict(sw.inputs(c), observed=sw.sample(c)),
                                                  "the monitor of sweep %s fails on this case" % sw.name))
            if res["mism"] and not res["viol"]:
                self.note_broken({"kind": "correspondence", "sweep": sw.name, "mismatching_cases": res["mism"][:50],
                                  "first_mismatching_case": sw.sample(by_id[res["mism"][0]])})
            ev[sw.name] = {"harness": sw.harness_test, "cases": len(cases), "distinct_nontrivial": nt,
                           "mismatches": len(res["mism"]), "violations": len(res["viol"]),
                           "input_distribution": sw.histogram(cases), "rule": sw.describe(),
                           "measured_parameters": res["params"],
                           "samples": [sw.sample(c) for c in cases[:1]] + [sw.sample(c) for c in cases[-1:]]}
        return ev, bodies

    def extra_checks(self, tier, wd, cases):
        return self.run_case_sweeps(tier, wd)

    # -- replay of one sweep case
    def replay_sweep(self, tier, wd, body):   # returns list of violation descriptions; override for parameter sweeps
        sw = next((s for s in self.sweeps if s.name == body.get("check")), None)
        if sw is None:
            raise RuntimeError("unknown sweep %r in replay file" % body.get("check"))
        c = dict(body["case"])
        c.pop("observed", None)
        c["id"] = 0
        res = run_sweep(self.pid, sw, tier, wd, replay_cases=[c])
        if "broken" in res:
            self.note_broken(res["broken"])
            return []
        if res["mism"] and not res["viol"]:
            self.note_broken({"kind": "correspondence", "sweep": sw.name, "first_mismatching_case": sw.sample(res["cases"][0])})
        return [sw.sample(x) for x in res["cases"] if x["id"] in res["viol"]]


def main(spec, argv):
    tier, replay = "quick", None
    args = list(argv)
    while args:
        a = args.pop(0)
        if a in ("quick", "thorough"):
            tier = a
        elif a == "--replay":
            replay = args.pop(0)
    os.environ["VERIF_TIER"] = tier
    t0 = time.time()
    pid = spec.pid
    with L.Lock():
        spec._reset()
        body = json.load(open(replay)) if replay else None
        if body is not None and body.get("check"):
            # replay of a sweep case: only that sweep
            wd = L.workdir(pid)
            try:
                bad = spec.replay_sweep(tier, wd, body)
            except L.HarnessError as ex:
                if ex.kind == "package-build":
                    L.log(ex.output[-3000:])
                    return 2
                bad = []
                spec.note_broken({"kind": "harness " + ex.kind, "detail": ex.output[-4000:]})
            if bad:
                L.violation(pid, replay)
                L.log(json.dumps(bad[0], default=str)[:2000])
                return 1
            if spec.sub_broken:
                p = L.write_replay(pid, {"property": pid, "kind": "tie-broken", "broken": spec.sub_broken})
                L.violation(pid, p, no_input=True)
                return 1
            return 0
        orig_extra = type(spec).extra_checks

        def recording_extra(tier_, wd_, cases_):
            ev_, bodies_ = orig_extra(spec, tier_, wd_, cases_)
            spec.sub_bodies = list(bodies_)
            return ev_, bodies_
        spec.extra_checks = recording_extra
        try:
            rc = casecheck._main(spec, tier, replay, t0)
        finally:
            del spec.extra_checks
        if rc == 2:
            return rc
        # every sweep finding gets its own replay file, also when the world check reported first
        for b in spec.sub_bodies:
            L.log("[sweep %s] violation: %s replay=%s" % (b.get("check"), b.get("what"), L.write_replay(pid, b)))
        if rc == 0 and spec.sub_broken:
            p = L.write_replay(pid, {"property": pid, "seed": L.seed(), "tier": tier, "kind": "tie-broken",
                                     "broken": spec.sub_broken,
                                     "note": "a dedicated sweep of this property could not be tied to the model "
                                             "(harness no longer builds, or its observations differ from the model); "
                                             "no input violating the property was found"})
            L.violation(pid, p, no_input=True)
            rc = 1
        # the sweeps' cases count as evaluations of this run
        ep = os.path.join(L.EVID, "%s.json" % pid)
        try:
            ev = json.load(open(ep))
            cov = ev["coverage"]
            cov["evaluations"] = cov.get("evaluations", 0) + spec.sub_counts["evaluations"]
            cov["distinct_nontrivial"] = cov.get("distinct_nontrivial", 0) + spec.sub_counts["distinct_nontrivial"]
            cov["sweeps_broken"] = spec.sub_broken
            if spec.sub_broken:
                cov["discharged"] = 0
            ev["wall_s"] = round(time.time() - t0, 2)
            with open(ep, "w") as fh:
                json.dump(ev, fh, indent=1, default=str)
        except (OSError, KeyError, ValueError) as ex:
            L.log("[evidence] not updated: %s" % ex)
    return rc
