"""C14: caching a verification result never changes the verdict (VerifyToken / RevokeToken histories)."""
import json, os
import vflib as L
from casecheck import Spec


class C14(Spec):
    pid = "C14"
    harness_test = "TestVF_Verify"
    obligations = ["C14_sound", "C14_ttl", "C14_failed_not_cached", "C14_revoke_next", "C14_revoked_never_accepted",
                   "C14_history", "C14_nonvacuous"]
    header = ("From VF Require Import Base.Prelude Model.Cache Model.Session Model.Middleware Model.Revoke Corr.WorldCorr Corr.VerifyCorr.\n"
              "Open Scope N_scope.\n")
    footer = ("Definition mism := Eval vm_compute in vids_where vmismatch cases.\nPrint mism.\n"
              "Definition viol := Eval vm_compute in vids_where violates_c14 cases.\nPrint viol.\n")
    assumptions = [
        "long waits are simulated by shifting the expiry times of both caches (only in histories whose tokens cannot change verdict "
        "within days); short waits are real sleeps",
        "the limiter is configured not to interfere (rate limit 100000/s); blacklist capacity (500) is never reached",
        "signature validity is an input of the model (tokens are minted by the harness; tampered variants are invalid by construction)",
    ]
    trusted_base = ["Model/Middleware.verify_token and Model/Revoke.revoke are hand transcriptions of VerifyToken / RevokeToken; tie: verdict "
                    "and cache-entry presence after every step of every generated history"]

    @property
    def coq_targets(self):
        t = ["theories/Corr/VerifyCorr.vo"]
        if os.path.exists(os.path.join(L.COQ, "theories/Properties/C14.v")):
            t.append("theories/Properties/C14.vo")
        return t

    def env(self, tier, attempt):
        n = 60 if tier == "quick" else 1500
        if attempt:
            n *= 5
        return {"VERIF_N": n, "VERIF_SEED": L.seed() + 7919 * attempt}

    def to_gallina(self, c):
        return c["coq"]

    def case_key(self, c):
        return json.dumps([c["toks"], c["steps"]], sort_keys=True)

    def nontrivial(self, c):
        ops = [s["op"] for s in c["steps"]]
        return ops.count("verify") >= 2

    def describe_rule(self):
        return ("corpus, then random histories from one PRNG: 2-9 tokens (valid, expiring during the history, expired inside/outside the "
                "tolerance, bad signature, foreign audience, not yet valid, with/without jti, plus tokens sharing the signature segment or "
                "the payload of a valid token, alg none, garbage), 4-30 verify/revoke/wait steps; non-trivial = at least two verifications")

    def sample(self, c):
        return {"id": c["id"], "kind": c["kind"], "toks": c["toks"][:4], "steps": c["steps"][:12], "obs": c.get("obs", [])[:12]}

    def histogram(self, cases):
        h = {"ops": {}, "token_kinds": {}, "verdicts": {"accepted": 0, "rejected": 0}, "cached_after": 0}
        for c in cases:
            for s in c["steps"]:
                h["ops"][s["op"]] = h["ops"].get(s["op"], 0) + 1
            for t in c["toks"]:
                h["token_kinds"][t["kind"]] = h["token_kinds"].get(t["kind"], 0) + 1
            for o in c.get("obs", []):
                if o.get("accepted"):
                    h["verdicts"]["accepted"] += 1
                else:
                    h["verdicts"]["rejected"] += 1
                if o.get("cached"):
                    h["cached_after"] += 1
        return h

    def shrink_candidates(self, case):
        st = case["steps"]
        out = []
        for i in range(len(st)):
            out.append(dict(case, steps=st[:i] + st[i + 1:], obs=[], coq=""))
        return out[:40]


SPEC = C14()
