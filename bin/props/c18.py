"""C18: world-harness check (see props/worldcommon.py and DESIGN.md section 4 C18)."""
import os
import vflib as L
from props.worldcommon import WorldSpec


class C18(WorldSpec):
    pid = "C18"
    profile = "C18"
    monitor = "violates_c18"
    n_quick = 60
    n_thorough = 60 * 25
    obligations = ['C18_step', 'C18_size', 'C18_nonvacuous']

    @property
    def coq_targets(self):
        t = ["theories/Spec/WorldSpec.vo"]
        if os.path.exists(os.path.join(L.COQ, "theories/Properties/C18.v")):
            t.append("theories/Properties/C18.vo")
        return t


SPEC = C18()
