"""C01: world-harness check (see props/worldcommon.py and DESIGN.md section 4 C01)."""
import os
import vflib as L
from props.worldcommon import WorldSpec


class C01(WorldSpec):
    pid = "C01"
    profile = "C01"
    monitor = "violates_c01"
    n_quick = 150
    n_thorough = 150 * 25
    obligations = ['C01_gate_and_issuance', 'C01_instance_invariant', 'C01_nonvacuous']

    @property
    def coq_targets(self):
        t = ["theories/Spec/WorldSpec.vo"]
        if os.path.exists(os.path.join(L.COQ, "theories/Properties/C01.v")):
            t.append("theories/Properties/C01.vo")
        return t


SPEC = C01()
