"""C01: world-harness check (see props/worldcommon.py and DESIGN.md section 4 C01)."""
import os
import vflib as L
from props.worldcommon import WorldSpec


class C01(WorldSpec):
    pid = "C01"
    profile = "C01"
    monitor = "violates_c01"
    n_quick = 150
    n_thorough = 150 * 25
    obligations = ['C01_step', 'C01_invariant_fresh', 'C01_invariant_step', 'C01_invariant_time', 'C01_endpoints_stable', 'C01_nonvacuous', 'C01_forward_meets_C02_spec', 'C01_forward_token_meets_C02_spec', 'C01_valid_session_meets_C02_spec', 'C01_gate_forwarded_carries', 'C02_bridge', 'C02_accept_at_spec']

    @property
    def coq_targets(self):
        t = ["theories/Spec/WorldSpec.vo"]
        if os.path.exists(os.path.join(L.COQ, "theories/Properties/C01.v")):
            t.append("theories/Properties/C01.vo")
        if os.path.exists(os.path.join(L.COQ, "theories/Properties/C01_C02.v")):
            t.append("theories/Properties/C01_C02.vo")
        return t


SPEC = C01()
