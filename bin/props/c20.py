"""C20 — provider discovery failures fail closed and heal without a restart.

Generic casecheck flow (harness -> params -> theorems -> cases in Coq -> verdict) with two
local adjustments made in main(): the case files need the measured parameters
(-Q gen/params VFP), and the overlay is restricted to the harness files this property uses
so that another property's half-written harness file cannot break this check.

Real time: the code's retry pauses are time.Sleep, so every case is a real-time run; all
cases run in parallel and the wall time of the harness is that of the longest case
(quick: one retry budget of 5 failures = 31 s of pauses, plus the allowance the monitor
gives before it says "does not heal": ~47 s on a tree that does not heal, ~35 s on one that does).
"""
import glob, json, os, re, time
import vflib as L
import casecheck
from casecheck import Spec

FAULTS = {"refused": "FRefused", "reset": "FReset", "e500": "F500", "e503": "F503",
          "malformed": "FMalformed", "truncated": "FTruncated", "slow": "FSlow",
          "stallbody": "FSlow", "nobody": "FMalformed",
          "typedwrong": "FMalformed"}  # a 200 answer whose JSON does not decode into the metadata structure   # headers sent, body stalled: costs the client's overall timeout, like an answer that never starts
DOCS = {"doc1": "D1", "doc2": "D2", "doc3": "D3", "doc4": "D4", "partial": "DP", "empty": "DE"}
PATHS = {"gated": "PGated", "excluded": "PExcluded", "callback": "PCallback"}
BUDGET = 5

HEADER = """From VF Require Import Base.Prelude Model.Discovery Spec.DiscoverySpec Corr.DiscoveryCorr.
Open Scope Z_scope.
Definition D1 := mkDoc 11 12 13 14 15 16.
Definition D2 := mkDoc 21 22 23 24 25 26.
Definition D3 := mkDoc 31 32 33 34 35 36.
Definition D4 := mkDoc 41 42 43 44 0 0.
Definition DP := mkDoc 91 0 0 94 0 0.
Definition DE := mkDoc 0 0 0 0 0 0.
"""
FOOTER = ("Definition mism := Eval vm_compute in ids_where mismatch cases.\nPrint mism.\n"
          "Definition viol := Eval vm_compute in ids_where violates_c20 cases.\nPrint viol.\n")

HARNESS_FILES = ["zz_vf_common_test.go", "zz_vf_internals_discovery_test.go", "zz_vf_discovery_test.go"]
PARAMS_V = os.path.join(L.GEN, "params", "ParamsDiscovery.v")


def answer(a):
    if a in FAULTS:
        return "AFault %s" % FAULTS[a]
    return "ADoc %s" % DOCS[a]


def answers(l):
    return L.coq_list([answer(a) for a in (l or [])])


def req_term(q):
    loc = "None" if q["loc"] < 0 else "(Some %d%%N)" % q["loc"]
    return "(mkOq %s %d %d %s %s %s %d%%N %s %s)" % (
        PATHS[q["path"]], q["patience_ms"] * 1000000, q["status"], L.coq_bool(q["fwd"]), loc,
        L.coq_bool(q["cookies"] > 0), q["ok_after"], L.coq_bool(q["ready_before"]), L.coq_bool(q["ready_after"]))


def op_term(o):
    k = o["o"]
    if k == "serve":
        return "(OServe (mkReq %s %d))" % (PATHS[o["path"]], o["patience_ms"] * 1000000)
    if k == "script":
        return "(OScript %s %s)" % (answers(o.get("answers")), DOCS[o["healthy"]])
    if k == "shift":
        return "(OShift %d)" % (o.get("min", 0) * 60 * 1000000000)
    if k == "refresh":
        return "ORefresh"
    return "OCleanup"


def state_term(s):
    ep = " ".join("%d" % x for x in s["ep"])
    return "(mkOs %d%%N %s (mkDoc %s) %s %s)" % (s["hits"], L.coq_bool(s["ready"]), ep, L.coq_bool(s["cached"]), L.zlit(s["rem_min"]))


def case_term(c):
    pre = [req_term(q) for q in c.get("pre") or [] if q.get("done")]
    steps = []
    for o in c.get("ops") or []:
        if not o.get("state"):
            continue
        q = "(Some %s)" % req_term(o["req"]) if o.get("req") else "None"
        steps.append("(%s, %s, %s)" % (op_term(o), q, state_term(o["state"])))
    ready = "None" if c["ready_ms"] < 0 else "(Some %d)" % c["ready_ms"]
    served = L.coq_list([DOCS[a] for a in c.get("served") or []])
    return "(mkDc %d%%N %s %d %s %s %s %s %d%%N %d %d%%N %s %s)" % (
        c["id"], L.coq_bool(c["direct"]), c["timeout_ms"] * 1000000, answers(c.get("script")), DOCS[c["healthy"]],
        L.coq_list(pre), ready, c["ready_loc"], c["waited_ms"], c["init_hits"], L.coq_list(steps), served)


def inputs_only(c):
    return {
        "id": c.get("id", 0), "kind": c.get("kind", ""), "direct": c.get("direct", False),
        "timeout_ms": c.get("timeout_ms", 1000), "script": list(c.get("script") or []), "healthy": c.get("healthy", "doc1"),
        "pre": [{"at": q["at"], "path": q["path"], "patience_ms": q["patience_ms"]} for q in c.get("pre") or [] if q["at"] != "waiter"],
        "ops": [{k: v for k, v in o.items() if k not in ("req", "state")} for o in c.get("ops") or []],
    }


def current_params():
    """values in the committed parameter file (used when a run measured nothing, e.g. --replay)"""
    p = {"disc_attempts": 5, "disc_sleeps_s": [1, 2, 4, 8, 16], "init_retries_forever": False, "init_wait_s": 30}
    try:
        txt = open(PARAMS_V).read()
    except FileNotFoundError:
        return p
    m = re.search(r"disc_attempts : nat := (\d+)", txt)
    if m:
        p["disc_attempts"] = int(m.group(1))
    m = re.search(r"disc_sleeps_s : list Z := \[([^\]]*)\]", txt)
    if m:
        p["disc_sleeps_s"] = [int(x) for x in re.findall(r"-?\d+", m.group(1))]
    m = re.search(r"init_retries_forever : bool := (true|false)", txt)
    if m:
        p["init_retries_forever"] = m.group(1) == "true"
    m = re.search(r"init_wait_s : Z := (\d+)", txt)
    if m:
        p["init_wait_s"] = int(m.group(1))
    return p


class C20(Spec):
    pid = "C20"
    harness_test = "TestVF_Discovery"
    coq_targets = ["theories/Properties/C20.vo"]
    obligations = ["C20_closed", "C20_closed_no_issuer", "C20_closed_status", "C20_endpoints", "C20_endpoints_retrying",
                   "C20_redirect", "C20_heals", "C20_budget", "C20_budget_71s", "C20_bound_linear", "C20_heals_current",
                   "C20_heals_pinned_short", "C20_pinned_never_heals", "C20_heals_refuted_pinned", "C20_monitor_model",
                   "C20_nonvacuous"]
    header = HEADER
    footer = FOOTER
    shards = 8
    harness_timeout = 900
    assumptions = [
        "liveness is proved in MODELLED time (the pauses of the retry loops and the client's timeout on a slow answer); "
        "in wall-clock time it is tested: every generated fault list is run in real time and serving must start within "
        "heal_time(|fs|)*9/8 + timeout + 4 s (Spec/DiscoverySpec.v heal_allowance_ms); goroutine scheduling and timers are not modelled",
        "the hourly refresh ticker and the 5-minute cache clean-up ticker cannot be waited for: their loop bodies are invoked "
        "through accessors (GetMetadata + updateMetadataEndpoints; MetadataCache.Cleanup) after shifting the cache's expiresAt; "
        "that startMetadataRefresh's loop body is exactly that pair of calls is read from the source, not observed",
        "the cap of 30 s on the pauses and the 5-minute cut-off inside discoverProviderMetadata are transcribed from the source "
        "(5 attempts never reach either); the number of attempts and the pauses 1,2,4,8,16 s are measured",
        "client timeouts T with budget_ok T (all 0 <= T <= 71 s): beyond that the 5-minute cut-off can fire and the time bound is not claimed",
        "updateMetadataEndpoints writes six fields without synchronisation while handlers read them (DESIGN.md N3): the model "
        "updates them atomically; a request served during a refresh tick is outside this check",
        "requests carry no cookies; 'serving' is observed as the login redirect (302) of a gated path to the authorization endpoint",
        "a connection refusal is produced by the instance's RoundTripper sending the request to a bound, non-listening port",
    ]
    trusted_base = [
        "Model/Discovery.v is a hand transcription of initializeMetadata / discoverProviderMetadata / fetchMetadata / "
        "GetMetadata / Cleanup / the first select of ServeHTTP; the tie is the correspondence on every generated case: responses, "
        "discovery hit counts, endpoint fields, cache contents and remaining minutes after every operation, time to serving",
        "the fake provider and the RoundTripper of the harness (scripted faults), the identity mapping of endpoint URLs to numbers",
        "which initialisation the tree has (retrying or not) is MEASURED (ParamsDiscovery.init_retries_forever) by calling "
        "initializeMetadata synchronously against 5 failures then a healthy provider",
    ]

    def env(self, tier, attempt):
        e = {"VERIF_SEED": L.seed() + 7919 * attempt}
        if attempt:
            e.update({"VERIF_N3": 120, "VERIF_N4": 24, "VERIF_N5": 6})
        return e

    def to_gallina(self, c):
        return case_term(c)

    def case_key(self, c):
        k = inputs_only(c)
        k.pop("id")
        return json.dumps(k, sort_keys=True)

    def nontrivial(self, c):
        done = [q for q in c.get("pre") or [] if q.get("done")]
        return len(c.get("script") or []) >= 1 and (c.get("direct") or len(done) >= 3)

    def describe_rule(self):
        return ("corpus (one full retry budget of failures through New() and through a synchronous initializeMetadata; failing "
                "refresh tick with and without a cached document; document without issuer; document without authorization "
                "endpoint; two different documents), then EVERY fault list of length 0..2 (quick) / 0..3 (thorough) over "
                "{refused, reset, 500, 503, malformed JSON, truncated body, slow beyond the client timeout}, then random lists "
                "from one PRNG (VERIF_SEED) of length 3,4,5 (quick) / 4..7, 10, 15 (thorough); each instance gets requests "
                "(gated, excluded, callback path; 40-60 ms patience) at start and right after each failed fetch, one patient request "
                "when it stays unready > 30 s, a waiting gated request until the first login redirect, then requests and one of 4 "
                "refresh scenarios chosen by the PRNG; non-trivial = at least one fault or document in the script and at least 3 "
                "requests answered before readiness (or a synchronous run); distinct = distinct inputs (script, requests, operations)")

    def sample(self, c):
        s = inputs_only(c)
        s["observed"] = {"ready_ms": c.get("ready_ms"), "ready_loc": c.get("ready_loc"), "init_hits": c.get("init_hits"),
                         "hit_times_ms": c.get("hit_times_ms"), "served": c.get("served"),
                         "pre_statuses": [q.get("status") for q in c.get("pre") or [] if q.get("done")]}
        return s

    def histogram(self, cases):
        h = {"kinds": {}, "script_length": {}, "answers": {}, "pre_requests": {}, "pre_status": {}, "ops": {},
             "post_status": {}, "ready": {"yes": 0, "no": 0}}
        inc = lambda d, k: d.__setitem__(str(k), d.get(str(k), 0) + 1)
        for c in cases:
            inc(h["kinds"], c["kind"])
            inc(h["script_length"], len(c.get("script") or []))
            for a in c.get("script") or []:
                inc(h["answers"], a)
            inc(h["ready"], "yes" if c["ready_ms"] >= 0 else "no")
            for q in c.get("pre") or []:
                if q.get("done"):
                    inc(h["pre_requests"], ("hit" if q["at"].startswith("hit") else q["at"]) + "/" + q["path"])
                    inc(h["pre_status"], q["status"])
            for o in c.get("ops") or []:
                if o.get("state"):
                    inc(h["ops"], o["o"])
                if o.get("req"):
                    inc(h["post_status"], o["req"]["status"])
        return h

    def gen_params(self, wd):
        p = current_params()
        measured = {}
        pj = os.path.join(wd, "params.json")
        if os.path.exists(pj):
            measured = json.load(open(pj))
        for k in ("disc_attempts", "disc_sleeps_s", "init_retries_forever", "init_wait_s"):
            if k in measured:
                p[k] = measured[k]
        L.write_if_changed(PARAMS_V,
            "(* generated by bin/check C20 from the running code: do not edit *)\n"
            "Require Import ZArith List.\nImport ListNotations.\nOpen Scope Z_scope.\n"
            "(* fetches made by one discoverProviderMetadata call against an always-failing provider *)\n"
            "Definition disc_attempts : nat := %d.\n"
            "(* pauses after the 1st, 2nd, ... failed fetch of that call, rounded to whole seconds *)\n"
            "Definition disc_sleeps_s : list Z := [%s].\n"
            "(* initializeMetadata, given one full budget of failures followed by a healthy provider, returned ready *)\n"
            "Definition init_retries_forever : bool := %s.\n"
            "(* seconds after which a request without a deadline is answered while the middleware is not ready *)\n"
            "Definition init_wait_s : Z := %d.\n"
            % (p["disc_attempts"], "; ".join(str(x) for x in p["disc_sleeps_s"]), L.coq_bool(p["init_retries_forever"]), p["init_wait_s"]))
        out = dict(p)
        out["measured_this_run"] = sorted(measured.keys())
        out["C20_heals_applies_to_this_tree"] = bool(p["init_retries_forever"])
        return out

    def shrink_candidates(self, case):
        base = inputs_only(case)
        script = base["script"]
        n = len(script)
        out = []
        if n > BUDGET:
            # beyond one retry budget: the first budget's worth is the interesting part (each candidate costs >= 31 s)
            out.append(dict(base, script=script[:BUDGET], ops=[]))
        elif n == BUDGET:
            # minimal for the healing clause: shorter lists heal within the first GetMetadata (C20_heals_pinned_short)
            if base["ops"]:
                out.append(dict(base, ops=[]))
        else:
            if base["ops"]:
                out.append(dict(base, ops=[]))
                for i in range(len(base["ops"])):
                    out.append(dict(base, ops=base["ops"][:i] + base["ops"][i + 1:]))
            for i in range(n):
                out.append(dict(base, script=script[:i] + script[i + 1:]))
        for c in out:
            n2 = len(c["script"])
            c["pre"] = [q for q in c["pre"] if not q["at"].startswith("hit") or int(q["at"][3:]) <= n2]
        return out[:40]


SPEC = C20()


def main(argv):
    orig_eval = L.eval_shards

    def eval_shards(pid, shards, header, footer, extra_q=(), timeout=900):
        return orig_eval(pid, shards, header, footer, extra_q=(("gen/params", "VFP"),), timeout=timeout)

    def write_overlay(path, test=None):
        rep = {}
        for f in glob.glob(os.path.join(L.REPO, "*_test.go")):
            rep[f] = ""
        for f in HARNESS_FILES:
            rep[os.path.join(L.REPO, f)] = os.path.join(L.HARNESS, f)
        with open(path, "w") as fh:
            json.dump({"Replace": rep}, fh)

    orig_enter = L.Lock.__enter__

    def enter(self):   # checks serialise on /verif/.lock: say how long this one queued (evidence wall_s includes it)
        t = time.time()
        r = orig_enter(self)
        L.log("[lock] waited %.1fs for /verif/.lock" % (time.time() - t))
        return r

    L.Lock.__enter__ = enter
    L.eval_shards = eval_shards
    L.write_overlay = write_overlay
    return casecheck.main(SPEC, argv)
