"""C06: world-harness check (see props/worldcommon.py and DESIGN.md section 4 C06)."""
import os
import vflib as L
from props.worldcommon import WorldSpec


class C06(WorldSpec):
    pid = "C06"
    profile = "C06"
    monitor = "violates_c06"
    n_quick = 150
    n_thorough = 150 * 25
    obligations = ['C06_step', 'C06_allowed_domain_spec', 'C06_nonvacuous']

    @property
    def coq_targets(self):
        t = ["theories/Spec/WorldSpec.vo"]
        if os.path.exists(os.path.join(L.COQ, "theories/Properties/C06.v")):
            t.append("theories/Properties/C06.vo")
        return t


SPEC = C06()
