"""C09: world-harness check (see props/worldcommon.py and DESIGN.md section 4 C09)."""
import os
import vflib as L
from props.worldcommon import WorldSpec


class C09(WorldSpec):
    pid = "C09"
    profile = "C09"
    monitor = "violates_c09"
    n_quick = 80
    n_thorough = 80 * 25
    obligations = ['C09_opaque', 'C09_tamper', 'C09_nonvacuous']

    @property
    def coq_targets(self):
        t = ["theories/Spec/WorldSpec.vo"]
        if os.path.exists(os.path.join(L.COQ, "theories/Properties/C09.v")):
            t.append("theories/Properties/C09.vo")
        return t


SPEC = C09()
