from props.worldcommon import WorldSpec
class W00(WorldSpec):
    pid = "W00"
    coq_targets = ["theories/Corr/WorldCorr.vo"]
    n_quick = 200
SPEC = W00()
