import os
from props.worldcommon import WorldSpec
MONS = ["c01","c03","c04","c06","c07","c08","c09","c10","c11","c15","c16","c17","c18"]
class W00(WorldSpec):
    pid = "W00"
    coq_targets = ["theories/Spec/WorldSpec.vo"]
    n_quick = int(os.environ.get("W00_N", "100"))
    profile = os.environ.get("W00_PROFILE", "mixed")
    @property
    def footer(self):
        mons = os.environ.get("W00_MONS", ",".join(MONS)).split(",")
        s = "Definition mism := Eval vm_compute in wids_where wmismatch cases.\nPrint mism.\n"
        for m in mons:
            s += "Definition v%s := Eval vm_compute in wids_where violates_%s cases.\nPrint v%s.\n" % (m, m, m)
        s += "Definition viol := Eval vm_compute in wids_where (fun c => %s) cases.\nPrint viol.\n" % " || ".join("violates_%s c" % m for m in mons)
        return s
SPEC = W00()
