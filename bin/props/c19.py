"""C19 — verification rate limit admits rateLimit per second: no less, not much more."""
import json, os, re
import vflib as L
from casecheck import Spec

HEADER = ("From VF Require Import Base.Prelude Model.Limiter Spec.LimiterSpec Corr.LimiterCorr.\n"
          "Open Scope Z_scope.\n")
FOOTER = ("Definition mism := Eval vm_compute in ids_where mismatch cases.\nPrint mism.\n"
          "Definition viol := Eval vm_compute in ids_where violates_c19 cases.\nPrint viol.\n"
          "Definition nskip := Eval vm_compute in [total_skipped cases].\nPrint nskip.\n"
          "Definition ndecisions := Eval vm_compute in [total_decisions cases].\nPrint ndecisions.\n")


def runs_of(ts):
    """arrival instants as arithmetic runs (first, spacing, count); runs shorter than 3 are written as singles"""
    out, i, n = [], 0, len(ts)
    while i < n:
        j = i
        if i + 1 < n:
            d = ts[i + 1] - ts[i]
            j = i + 1
            while j + 1 < n and ts[j + 1] - ts[j] == d:
                j += 1
        if j - i + 1 >= 3:
            out.append((ts[i], ts[i + 1] - ts[i], j - i + 1))
            i = j + 1
        else:
            out.append((ts[i], 0, 1))
            i += 1
    back = [t + d * x for (t, d, k) in out for x in range(k)]
    assert back == list(ts), "run-length encoding of arrival instants does not round-trip"
    return out


def case_term(c):
    adm = c.get("adm", "")
    assert len(adm) == len(c["ts"]), "case %s: %d decisions for %d arrivals" % (c.get("id"), len(adm), len(c["ts"]))
    runs = ["(%s,%s,%d)" % (L.zlit(t), L.zlit(d), k) for (t, d, k) in runs_of(c["ts"])]
    flags = ["true" if a == "1" else "false" for a in adm]
    return "(mkLCase %d %d %s %d (observed %s %s))" % (c["id"], c["n"], L.zlit(c.get("rate_milli", 0)), c.get("burst", 0),
                                                      L.coq_list(runs), L.coq_list(flags))


def whole_rate(rate_milli):
    """Limit() in whole tokens per second as used in limiter_samples (floor; exactness is
    carried by limiter_samples_milli); -1 stays -1 (rate.Inf)"""
    return rate_milli // 1000 if rate_milli >= 0 else -1


class C19(Spec):
    pid = "C19"
    harness_test = "TestVF_Limiter"
    coq_targets = ["theories/Properties/C19.vo"]
    obligations = ["C19_construction", "C19_construction_milli", "C19_monitor", "C19_built", "C19_upper", "C19_lower",
                   "C19_tokens_invariant", "C19_pinned_refuted", "C19_nonvacuous",
                   "C19_admitted_is_verify", "C19_admitted_is_serve", "C19_refused_not_performed", "C19_refused_miss",
                   "C19_refused_blind", "C19_sessions_exempt", "C19_sessions_never_verify", "C19_limiter_nonvacuous"]
    header = HEADER
    footer = FOOTER
    harness_timeout = 600
    assumptions = [
        "x/time/rate computes token levels in float64; the model computes them exactly (units of 1e-9 token). Decisions "
        "whose exact level is within 1e-6 token of the decision threshold are not compared (counted under "
        "supporting_runs.near_threshold_skipped); there the model follows the implementation's decision",
        "time is explicit: the real limiter of an instance built by New() is driven through AllowN(base+offset, 1) "
        "(Allow() is AllowN(time.Now(), 1)); arrival instants are non-decreasing and not before the construction of the limiter",
        "the configured rateLimit is an integer >= 1 (settings.go rejects values below MinRateLimit = 10); rate.Inf is "
        "not representable in the model and is reported as a broken correspondence",
        "the lower clause is read against the reference bucket 'n tokens/s, one burst of n, full at construction, greedy' "
        "on prefix counts (Spec/LimiterSpec.v explains why not pointwise)",
        "'refused verifications are not performed' and 'cached (authenticated-session) verifications are exempt' are "
        "checked by a supporting test through VerifyToken with a counting JWKS cache: testing, not proof",
    ]
    trusted_base = [
        "Model/Limiter.v is a hand transcription of vendor/golang.org/x/time/rate/rate.go (reserveN with n=1 and "
        "maxFutureReserve=0, advance, tokensFromDuration, durationFromTokens); the tie is decision-by-decision agreement "
        "with the real limiter of New()-built instances on every generated arrival pattern, with the measured (Limit(), Burst())",
        "gen/params/ParamsLimiter.v: (rateLimit, Limit(), Burst()) read from instances built through New() on this run",
    ]

    def __init__(self):
        self.first_outs = None

    # ---- harness / parameters
    def env(self, tier, attempt):
        n = 300 if tier == "quick" else 6000
        if attempt:
            n *= 5
        return {"VERIF_N": n, "VERIF_SEED": L.seed() + 7919 * attempt}

    def gen_params(self, wd):
        p = json.load(open(os.path.join(wd, "params.json")))
        smp = p["samples"]
        whole = ["(%d, %s, %d)" % (s["n"], L.zlit(whole_rate(s["rate_milli"])), s["burst"]) for s in smp]
        milli = ["(%d, %s, %d)" % (s["n"], L.zlit(s["rate_milli"]), s["burst"]) for s in smp]
        L.write_if_changed(
            os.path.join(L.GEN, "params", "ParamsLimiter.v"),
            "(* generated by bin/check from the running code: do not edit *)\n"
            "(* (configured rateLimit, measured Limit(), measured Burst()) of instances built through New();\n"
            "   Limit() in whole tokens per second (floor) resp. in millitokens per second (rounded; -1 = rate.Inf) *)\n"
            "From Coq Require Import ZArith List.\nImport ListNotations.\nOpen Scope Z_scope.\n"
            "Definition limiter_samples : list (Z * Z * Z) := %s.\n"
            "Definition limiter_samples_milli : list (Z * Z * Z) := %s.\n" % (L.coq_list(whole), L.coq_list(milli)))
        # the case files need the correspondence functions even when the property theorems no longer check
        ok, failing, out = L.coq_make(["theories/Corr/LimiterCorr.vo"])
        if not ok:
            raise RuntimeError("Corr/LimiterCorr.v does not build:\n" + out)
        return {"limiter_samples": smp, "min_rate_limit": p.get("min_rate_limit")}

    # ---- cases
    def to_gallina(self, c):
        return case_term(c)

    def case_key(self, case):
        return json.dumps({"n": case["n"], "ts": case["ts"]})

    def nontrivial(self, c):
        adm = c.get("adm", "")
        return len(c["ts"]) >= 10 and "0" in adm and "1" in adm

    def describe_rule(self):
        return ("every case is run on the real limiter of a fresh instance built by New(): corpus patterns (burst of n then "
                "15 arrivals spaced 1/n s for n in 10,25,100,1000; two bursts of 2n+5 one second apart), then patterns from one "
                "PRNG (VERIF_SEED): n in {10,25,100,1000}; single/double bursts, exhausted burst followed by a steady stream at "
                "0.8x/1x/1.2x/2x the limit, steady streams from a full bucket, bursts separated by gaps of 1 ms..3 s, arrivals "
                "+-1..2 ns around token availability, mixtures with jitter; 20..400 arrivals (up to 1300 for n=1000). "
                "A case is non-trivial if it has >= 10 arrivals and both an admitted and a refused one; "
                "distinct = distinct (n, arrival instants)")

    def sample(self, c):
        return {"id": c["id"], "kind": c["kind"], "n": c["n"], "arrivals": len(c["ts"]), "ts_ns_first": c["ts"][:24],
                "admitted_first": c.get("adm", "")[:24], "admitted_total": c.get("adm", "").count("1"),
                "measured_rate_milli": c.get("rate_milli"), "measured_burst": c.get("burst")}

    def histogram(self, cases):
        h = {"kinds": {}, "n": {}, "length_buckets": {}, "decisions": {"admitted": 0, "refused": 0},
             "span_s_buckets": {}}
        for c in cases:
            h["kinds"][c["kind"]] = h["kinds"].get(c["kind"], 0) + 1
            h["n"][str(c["n"])] = h["n"].get(str(c["n"]), 0) + 1
            m = len(c["ts"])
            b = "<=20" if m <= 20 else "<=100" if m <= 100 else "<=400" if m <= 400 else ">400"
            h["length_buckets"][b] = h["length_buckets"].get(b, 0) + 1
            a = c.get("adm", "")
            h["decisions"]["admitted"] += a.count("1")
            h["decisions"]["refused"] += a.count("0")
            span = (c["ts"][-1] - c["ts"][0]) / 1e9 if c["ts"] else 0
            sb = "0" if span == 0 else "<1" if span < 1 else "<3" if span < 3 else ">=3"
            h["span_s_buckets"][sb] = h["span_s_buckets"].get(sb, 0) + 1
        return h

    def shrink_candidates(self, case):
        ts = case["ts"]
        n = len(ts)
        if n <= 1:
            return []
        out = []

        def cand(new_ts):
            out.append({"id": 0, "kind": case["kind"], "n": case["n"], "ts": new_ts})
        # drop the tail, halves, chunks, then single arrivals (removing arrivals keeps the instants non-decreasing)
        for k in (n // 2, n // 4, n // 8, 1):
            if 0 < k < n:
                cand(ts[:n - k])
        for lo, hi in ((0, n // 2), (n // 2, n)):
            cand(ts[:lo] + ts[hi:])
        step = max(1, n // 150)
        for i in range(0, n, step):
            cand(ts[:i] + ts[i + step:])
        return [c for c in out if c["ts"]][:200]

    # ---- supporting runs
    def extra_checks(self, tier, wd, cases):
        extra, bad = {}, []
        if self.first_outs:
            try:
                extra["decisions_compared_or_skipped"] = sum(sum(L.parse_nlist(o, "ndecisions")) for o in self.first_outs)
                extra["near_threshold_skipped"] = sum(sum(L.parse_nlist(o, "nskip")) for o in self.first_outs)
                arrivals = sum(len(c["ts"]) for c in cases)
                if extra["decisions_compared_or_skipped"] != arrivals:
                    bad.append({"property": self.pid, "kind": "case-printing", "what": "the case files hold %d decisions for %d "
                                "arrivals" % (extra["decisions_compared_or_skipped"], arrivals)})
            except Exception as ex:  # statistics only
                extra["statistics_error"] = str(ex)
        pp = os.path.join(wd, "params.json")
        if not os.path.exists(pp):      # replay runs do not repeat the supporting tests
            return extra, bad
        p = json.load(open(pp))
        sup = p.get("support")
        if sup:
            extra["refused_not_performed_and_cached_exempt (testing, supporting)"] = sup
            if not sup.get("ok"):
                bad.append({"property": self.pid, "seed": L.seed(), "tier": tier, "kind": "supporting-test-failed",
                            "what": sup.get("why"),
                            "scenario": "instance built by New(rateLimit=10) against a loopback provider; one token verified "
                                        "(control); limiter drained with AllowN; VerifyToken on a second, valid, never seen "
                                        "token; then VerifyToken n+20 times on the first (cached) token; then the second "
                                        "token again once a token is available",
                            "observed": sup})
        rt = p.get("realtime")
        if rt:
            extra["real_time (testing, supporting)"] = rt
            for r in rt:
                if not r.get("ok"):
                    bad.append({"property": self.pid, "seed": L.seed(), "tier": tier, "kind": "real-time-run-out-of-bounds",
                                "what": "performPreVerificationChecks called at %.1fx the limit for %.1f s admitted %d of %d; "
                                        "expected between %d and %d" % (r["factor"], r["seconds"], r["admitted"], r["offered"],
                                                                       r["lower_need"], r["upper_max"]),
                                "observed": r})
        return extra, bad


SPEC = C19()


def explain(case):
    """which clause of the monitor fails on a case, and what the model and the reference bucket decide on it
    (evaluated in Coq; added to replay files for the reader, not used for the verdict)"""
    d = os.path.join(L.GEN, "cases", SPEC.pid)
    os.makedirs(d, exist_ok=True)
    c = dict(case, id=0)
    with open(os.path.join(d, "Explain.v"), "w") as fh:
        fh.write(HEADER + "Definition c := %s.\n" % case_term(c) +
                 "Eval vm_compute in clauses c.\nEval vm_compute in model_trace c.\nEval vm_compute in reference_trace c.\n"
                 "Eval vm_compute in mismatch c.\n")
    rc, out = L.coqc_file(os.path.relpath(os.path.join(d, "Explain.v"), L.COQ), timeout=120)
    chunks = re.findall(r"=\s*(.*?)\n\s*:\s", out, re.S)
    if rc != 0 or len(chunks) < 4:
        raise RuntimeError(out[-500:])
    bits = lambda s: "".join("1" if w == "true" else "0" for w in re.findall(r"true|false", s))
    cl = bits(chunks[0])
    return {"monitor_clauses_hold": {"arrivals_non_decreasing": cl[0] == "1",
                                     "upper: at most 2n admitted in every one-second window": cl[1] == "1",
                                     "lower: on every prefix at least as many admitted as by the reference bucket (n/s, burst n)": cl[2] == "1"},
            "implementation_admitted": case.get("adm"),
            "reference_bucket_admits": bits(chunks[2]),
            "model_with_measured_parameters_admits": bits(chunks[1]),
            "model_differs_from_implementation": bits(chunks[3]) == "1",
            "measured_limit_tokens_per_s": case.get("rate_milli", 0) / 1000.0, "measured_burst": case.get("burst"),
            "configured_rate_limit": case.get("n")}

# The generic driver only reads `mism` and `viol` from the shard outputs; keep the outputs of the
# first evaluation of this run (the generated cases) for the skip statistics.
_orig_eval_shards = L.eval_shards


def _eval_shards(pid, shards, header, footer, *a, **k):
    outs = _orig_eval_shards(pid, shards, header, footer, *a, **k)
    if pid == SPEC.pid and SPEC.first_outs is None:
        SPEC.first_outs = outs
    return outs


L.eval_shards = _eval_shards

_orig_write_replay = L.write_replay


def _write_replay(pid, body):
    if pid == SPEC.pid and isinstance(body.get("case"), dict) and body["case"].get("adm"):
        try:
            body["explanation"] = explain(body["case"])
        except Exception as ex:   # best effort: the replay itself is complete without it
            body["explanation_error"] = str(ex)
    return _orig_write_replay(pid, body)


L.write_replay = _write_replay
