"""C15: world-harness check (see props/worldcommon.py and DESIGN.md section 4 C15)."""
import os
import vflib as L
from props.worldcommon import WorldSpec


class C15(WorldSpec):
    pid = "C15"
    profile = "C15"
    monitor = "violates_c15"
    n_quick = 120
    n_thorough = 120 * 25
    obligations = ['C15_step', 'C15_local_path_same_origin', 'C15_nonvacuous']

    @property
    def coq_targets(self):
        t = ["theories/Spec/WorldSpec.vo"]
        if os.path.exists(os.path.join(L.COQ, "theories/Properties/C15.v")):
            t.append("theories/Properties/C15.vo")
        return t


SPEC = C15()
