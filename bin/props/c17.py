"""C17: world-harness check (see props/worldcommon.py and DESIGN.md section 4 C17)."""
import os
import vflib as L
from props.worldcommon import WorldSpec


class C17(WorldSpec):
    pid = "C17"
    profile = "C17"
    monitor = "violates_c17"
    n_quick = 120
    n_thorough = 120 * 25
    obligations = ['C17_step', 'C17_nonvacuous']

    @property
    def coq_targets(self):
        t = ["theories/Spec/WorldSpec.vo"]
        if os.path.exists(os.path.join(L.COQ, "theories/Properties/C17.v")):
            t.append("theories/Properties/C17.vo")
        return t


SPEC = C17()
