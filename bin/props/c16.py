"""C16: world-harness check (see props/worldcommon.py and DESIGN.md section 4 C16)."""
import os
import vflib as L
from props.worldcommon import WorldSpec


class C16(WorldSpec):
    pid = "C16"
    profile = "C16"
    monitor = "violates_c16"
    n_quick = 120
    n_thorough = 120 * 25
    obligations = ['C16_step', 'C16_escape_safe', 'C16_nonvacuous']

    @property
    def coq_targets(self):
        t = ["theories/Spec/WorldSpec.vo"]
        if os.path.exists(os.path.join(L.COQ, "theories/Properties/C16.v")):
            t.append("theories/Properties/C16.vo")
        return t


SPEC = C16()
