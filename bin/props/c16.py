"""C16: error responses never reflect request data unescaped.

Two sets of cases, merged into one verdict (props/subcheck.py):
  * the world check (props/worldcommon.py, profile C16): marker payloads in every
    client-controlled field on every error path, flag 1 of the harness, body kinds against
    Model/Middleware.v;
  * the escaping sweep (harness/zz_vf_escape_test.go): messages handed to sendErrorResponse;
    Go's html.EscapeString and the <p> content actually served are compared byte for byte with
    Model/Html.html_escape evaluated inside Coq (Corr/HtmlCorr.v), and the monitor is applied to
    the served fragment (no markup byte, every & an entity, decodes to the message; JSON variant
    parses and carries the message as a string).
Theorems: Properties/C16.v."""
import binascii, os
import vflib as L
from props.worldcommon import WorldSpec
from props import subcheck


def hexbytes(h):
    return "[" + ";".join(str(b) for b in binascii.unhexlify(h or "")) + "]"


class EscapeSweep(subcheck.Sweep):
    name = "escape"
    harness_test = "TestVF_Escape"
    header = "From VF Require Import Base.Prelude Model.Html Corr.HtmlCorr.\nOpen Scope N_scope.\n"
    footer = ("Definition mism := Eval vm_compute in eids_where emismatch cases.\nPrint mism.\n"
              "Definition viol := Eval vm_compute in eids_where violates_c16e cases.\nPrint viol.\n")
    shards = 16

    def env(self, tier, attempt):
        n = 700 if tier == "quick" else 6000
        if attempt:
            n *= 5
        return {"VERIF_N": n, "VERIF_SEED": L.seed() + 7919 * attempt}

    def to_gallina(self, c):
        return "(mkECase %d %s %s %s %s %s %s)" % (
            c["id"], hexbytes(c["msg_hex"]), hexbytes(c.get("go_hex")), hexbytes(c.get("page_hex")),
            L.coq_bool(c.get("shape")), L.coq_bool(c.get("ctype")), L.coq_bool(c.get("json_ok")))

    def inputs(self, c):
        return {"id": c["id"], "kind": c["kind"], "msg_hex": c["msg_hex"], "status": c["status"]}

    def nontrivial(self, c):
        return any(b in b"<>\"'&" for b in binascii.unhexlify(c["msg_hex"]))

    def sample(self, c):
        s = dict(c)
        for k in ("msg_hex", "go_hex", "page_hex", "json_body_hex"):
            if k in s and len(s[k]) > 240:
                s[k] = s[k][:240] + "..."
        try:
            s["msg_text"] = binascii.unhexlify(c["msg_hex"]).decode("utf-8", "replace")[:120]
        except Exception:
            pass
        return s

    def histogram(self, cases):
        h = {"kinds": {}, "length_buckets": {}, "with_markup": 0, "invalid_utf8": 0, "statuses": {}}
        for c in cases:
            h["kinds"][c["kind"]] = h["kinds"].get(c["kind"], 0) + 1
            b = binascii.unhexlify(c["msg_hex"])
            n = len(b)
            k = "0" if n == 0 else "1" if n == 1 else "<=20" if n <= 20 else "<=60" if n <= 60 else "<=500" if n <= 500 else ">500"
            h["length_buckets"][k] = h["length_buckets"].get(k, 0) + 1
            if any(x in b"<>\"'&" for x in b):
                h["with_markup"] += 1
            try:
                b.decode("utf-8")
            except UnicodeDecodeError:
                h["invalid_utf8"] += 1
            h["statuses"][str(c["status"])] = h["statuses"].get(str(c["status"]), 0) + 1
        return h

    def describe(self):
        return ("messages handed to sendErrorResponse (HTML client and JSON client): corpus, each of the 256 byte values, "
                "all bytes in one string, long strings, then random strings from one PRNG (VERIF_SEED) of four kinds "
                "(ASCII dense in markup, arbitrary bytes, invalid UTF-8 with markup, entity fragments); "
                "non-trivial = contains one of < > \" ' &; distinct = distinct (message, status)")


class C16(subcheck.WithSweeps, WorldSpec):
    pid = "C16"
    profile = "C16"
    monitor = "violates_c16"
    n_quick = 120
    n_thorough = 120 * 25
    sweeps = [EscapeSweep()]
    obligations = ["C16_escape_safe", "C16_unescape_escape", "C16_page", "C16_step", "C16_nonvacuous"]
    coq_targets = ["theories/Spec/WorldSpec.vo", "theories/Corr/HtmlCorr.vo", "theories/Properties/C16.vo"]
    assumptions = [
        "a browser gives a meaning, inside element content, only to the bytes < > \" ' and to & (entity start): "
        "the theorems are about exactly these bytes (Model/Html.markup_byte, amps_ok)",
        "the HTML error page is prefix ++ escaped message ++ suffix with a request-independent prefix and suffix: "
        "checked on every sweep case against the page produced for the empty message",
        "JSON well-formedness is judged by Go's encoding/json decoder inside the harness (parse, error_description is a "
        "string equal to the message with invalid UTF-8 replaced by U+FFFD); it is not modelled in Coq",
        "which error site produces which body kind is Model/Middleware.v, tied to the code by the world correspondence",
    ]
    trusted_base = [
        "Model/Html.v is a hand transcription of html.EscapeString (Go standard library) and of the frame of the error page in "
        "main.go sendErrorResponse; the tie is the byte-for-byte comparison, inside Coq, of html_escape with both "
        "html.EscapeString and the served <p> content on every sweep case",
        "Model/Middleware.v is a hand transcription of main.go; the tie is the world correspondence (Corr/WorldCorr.v)",
    ]

    def describe_rule(self):
        return WorldSpec.describe_rule(self) + "; PLUS the escaping sweep: " + self.sweeps[0].describe()


SPEC = C16()


def main(argv):
    return subcheck.main(SPEC, argv)
