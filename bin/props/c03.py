"""C03: world-harness check (see props/worldcommon.py and DESIGN.md section 4 C03)."""
import os
import vflib as L
from props.worldcommon import WorldSpec


class C03(WorldSpec):
    pid = "C03"
    profile = "C03"
    monitor = "violates_c03"
    n_quick = 120
    n_thorough = 120 * 25
    obligations = ['C03_binding_step', 'C03_initiation', 'C03_history', 'C03_nonvacuous']

    @property
    def coq_targets(self):
        t = ["theories/Spec/WorldSpec.vo"]
        if os.path.exists(os.path.join(L.COQ, "theories/Properties/C03.v")):
            t.append("theories/Properties/C03.vo")
        return t


SPEC = C03()
