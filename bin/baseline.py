#!/usr/bin/env python3
"""Runs the repository's pinned suite with the verif guard OFF and compares with /root/.vp/BASELINE.json."""
import json, os, subprocess, sys
env = dict(os.environ, GOFLAGS="-mod=vendor", GOPROXY="off", GOSUMDB="off", GOTOOLCHAIN="local")
p = subprocess.run(["go", "test", "-vet=off", "-count=1", "-timeout", "25m", "-json", "./..."], cwd="/repo", env=env,
                   stdout=subprocess.PIPE, stderr=subprocess.STDOUT, text=True)
res = {}
for l in p.stdout.splitlines():
    try:
        d = json.loads(l)
    except Exception:
        continue
    if d.get("Action") in ("pass", "fail", "skip") and d.get("Test"):
        res[d["Package"] + "::" + d["Test"]] = d["Action"]
base = json.load(open("/root/.vp/BASELINE.json"))["stable_pass"]
bad = [t for t in base if res.get(t) != "pass"]
print("%d results, %d pass, baseline tests not passing: %s" % (len(res), sum(v == "pass" for v in res.values()), bad))
sys.exit(1 if bad else 0)
