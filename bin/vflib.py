#!/usr/bin/env python3
"""Shared orchestration for /verif checks (no third-party modules).

Pipeline of one check (DESIGN.md §2.4):
  build+run the Go harness against /repo's working tree (go test -overlay)
  -> write generated Coq files (parameters, cases)
  -> make the property's theorem files
  -> coqc the case shards (vm_compute of mismatches / monitor violations)
  -> verdict, replay file, evidence.
"""
import fcntl, glob, json, os, re, shutil, subprocess, sys, time, hashlib
from concurrent.futures import ThreadPoolExecutor

VERIF = os.path.dirname(os.path.dirname(os.path.abspath(__file__)))
REPO = os.environ.get("VERIF_REPO", "/repo")
COQ = os.path.join(VERIF, "coq")
GEN = os.path.join(COQ, "gen")
WORK = os.path.join(VERIF, "work")
EVID = os.path.join(VERIF, "evidence")
REPLAYS = os.path.join(VERIF, "replays")
HARNESS = os.environ.get("VERIF_HARNESS_DIR", os.path.join(VERIF, "harness"))   # the override is a debugging aid (try a scratch copy)

GOENV = {
    "GOFLAGS": "-mod=vendor", "GOPROXY": "off", "GOSUMDB": "off", "GOTOOLCHAIN": "local",
    "CGO_ENABLED": os.environ.get("CGO_ENABLED", "1"),
}

TRUSTED_BASE_COMMON = [
    "Coq 8.16.1 kernel, including its vm_compute evaluator (used for reflection over measured parameters and to evaluate model and monitors on the generated cases); no native_compute",
    "no Axiom/Parameter/Admitted in the development (grep gate in bin/check; Print Assumptions under every property theorem)",
    "Go harness (/verif/harness, compiled into package traefikoidc by go test -overlay): generators, abstraction of observations into Gallina terms",
    "bin/vflib.py and bin/check (orchestration, printing of Gallina case files)",
]


def log(*a):
    print(*a, file=sys.stderr, flush=True)


class Lock:
    def __enter__(self):
        os.makedirs(WORK, exist_ok=True)
        self.f = open(os.path.join(VERIF, ".lock"), "w")
        if not os.environ.get("VERIF_NOLOCK"):     # debugging aid only; registered commands always lock
            t0 = time.time()
            fcntl.flock(self.f, fcntl.LOCK_EX)
            if time.time() - t0 > 1:
                log("[lock] waited %.0fs for another check" % (time.time() - t0))
        return self

    def __exit__(self, *a):
        fcntl.flock(self.f, fcntl.LOCK_UN)
        self.f.close()


def seed():
    try:
        return int(os.environ.get("VERIF_SEED", "1"))
    except ValueError:
        return 1


def workdir(pid, clean=True):
    d = os.path.join(WORK, pid)
    if clean and os.path.isdir(d):
        shutil.rmtree(d)
    os.makedirs(d, exist_ok=True)
    return d


# ----------------------------------------------------------------------------- Go harness

# Harness files are compiled per check, so that a renamed unexported identifier breaks the tie of
# the checks that use it and not of every check.
HARNESS_GROUPS = {
    "common": ["zz_vf_common_test.go"],
    "cache": ["zz_vf_internals_test.go", "zz_vf_cache_test.go", "zz_vf_cache_race_test.go", "zz_vf_internals_lru_test.go"],
    "world": ["zz_vf_world_provider_test.go", "zz_vf_world_core_test.go", "zz_vf_world_test.go",
              "zz_vf_world_profiles_test.go", "zz_vf_internals_world_test.go"],
    "verify": ["zz_vf_verify_test.go", "zz_vf_internals_test.go"],
    "concurrent": ["zz_vf_concurrent_test.go"],
    "jwt": ["zz_vf_jwt_test.go", "zz_vf_internals_jwt_test.go"],
    "limiter": ["zz_vf_limiter_test.go", "zz_vf_internals_limiter_test.go", "zz_vf_internals_test.go"],
    "discovery": ["zz_vf_discovery_test.go", "zz_vf_internals_discovery_test.go"],
    "discint": ["zz_vf_internals_discovery_test.go"],
    "sessionops": ["zz_vf_sessionops_test.go"],
    "misc": ["zz_vf_internals_misc_test.go", "zz_vf_escape_test.go", "zz_vf_cookiesize_test.go", "zz_vf_cryptoparams_test.go"],
}
TEST_GROUPS = {
    "TestVF_Cache": ["common", "cache"], "TestVF_CacheRace": ["common", "cache"],
    "TestVF_World": ["common", "world"], "TestVF_Verify": ["common", "world", "verify"],
    "TestVF_Concurrent": ["common", "world", "concurrent", "discint"], "TestVF_ConcurrentTick": ["common", "world", "concurrent", "discint"],
    "TestVF_Jwt": ["common", "jwt"], "TestVF_Limiter": ["common", "limiter"], "TestVF_Discovery": ["common", "discovery"],
    "TestVF_Escape": ["common", "world", "misc"], "TestVF_CookieSize": ["common", "world", "misc"],
    "TestVF_CryptoParams": ["common", "world", "misc"], "TestVF_SessionOps": ["common", "world", "sessionops"],
}


def write_overlay(path, test=None):
    """overlay: every /repo/*_test.go hidden; the harness files the given test needs (all of them if unknown) added"""
    rep = {}
    for f in glob.glob(os.path.join(REPO, "*_test.go")):
        rep[f] = ""
    groups = TEST_GROUPS.get(test)
    if groups:
        files = sorted(set(os.path.join(HARNESS, f) for g in groups for f in HARNESS_GROUPS[g]))
    else:
        files = sorted(glob.glob(os.path.join(HARNESS, "zz_vf_*_test.go")))
    for f in files:
        rep[os.path.join(REPO, os.path.basename(f))] = f
    with open(path, "w") as fh:
        json.dump({"Replace": rep}, fh)


class HarnessError(Exception):
    def __init__(self, kind, output):
        super().__init__(kind)
        self.kind = kind          # 'package-build' | 'harness-build' | 'run'
        self.output = output


def run_harness(test, outdir, env=None, race=False, timeout=900, extra_args=None):
    """Runs `go test -run ^test$` on /repo's working tree + the harness.  Returns stdout+stderr."""
    ov = os.path.join(outdir, "overlay.json")
    write_overlay(ov, test)
    e = dict(os.environ)
    e.update(GOENV)
    e["VERIF_OUT"] = outdir
    e.setdefault("VERIF_SEED", str(seed()))
    if env:
        e.update({k: str(v) for k, v in env.items()})
    cmd = ["go", "test", "-tags", "verif", "-vet=off", "-overlay", ov, "-count=1",
           "-timeout", "%ds" % timeout, "-run", "^%s$" % test]
    if race:
        cmd.append("-race")
    if extra_args:
        cmd += extra_args
    cmd.append(".")
    t0 = time.time()
    p = subprocess.run(cmd, cwd=REPO, env=e, stdout=subprocess.PIPE, stderr=subprocess.STDOUT,
                       text=True, timeout=timeout + 120)
    out = p.stdout
    with open(os.path.join(outdir, "harness_%s.log" % test), "w") as fh:
        fh.write(out)
    log("[harness] %s: exit %d in %.1fs" % (test, p.returncode, time.time() - t0))
    if p.returncode != 0:
        if "[build failed]" in out or "[setup failed]" in out:
            # distinguish: does the package build on its own?
            q = subprocess.run(["go", "build", "./..."], cwd=REPO, env=e, stdout=subprocess.PIPE,
                               stderr=subprocess.STDOUT, text=True)
            raise HarnessError("package-build" if q.returncode != 0 else "harness-build", out)
        raise HarnessError("run", out)
    return out


def read_jsonl(path):
    out = []
    with open(path) as fh:
        for line in fh:
            line = line.strip()
            if line:
                out.append(json.loads(line))
    return out


# ----------------------------------------------------------------------------- Coq

def write_if_changed(path, text):
    os.makedirs(os.path.dirname(path), exist_ok=True)
    try:
        with open(path) as fh:
            if fh.read() == text:
                return False
    except FileNotFoundError:
        pass
    with open(path, "w") as fh:
        fh.write(text)
    return True


def ensure_makefile():
    mk = os.path.join(COQ, "Makefile")
    cp = os.path.join(COQ, "_CoqProject")
    if not os.path.exists(mk) or os.path.getmtime(mk) < os.path.getmtime(cp):
        subprocess.run(["coq_makefile", "-f", "_CoqProject", "-o", "Makefile"], cwd=COQ, check=True,
                       stdout=subprocess.DEVNULL)


def coq_make(targets, timeout=1500):
    """make the given .vo targets (paths relative to coq/).  Returns (ok, failing_file, error_text)."""
    ensure_makefile()
    t0 = time.time()
    p = subprocess.run(["timeout", str(timeout), "make", "-j16"] + targets, cwd=COQ,
                       stdout=subprocess.PIPE, stderr=subprocess.STDOUT, text=True)
    log("[coq] make %s: exit %d in %.1fs" % (" ".join(targets) if targets else "all", p.returncode, time.time() - t0))
    if p.returncode == 0:
        return True, None, p.stdout
    m = re.search(r'File "\./([^"]+)", line (\d+)', p.stdout)
    return False, (m.group(1) if m else None), p.stdout[-4000:]


def property_assumptions(targets, wd):
    """re-compile the (tiny) property files to capture what Print Assumptions says on this run"""
    res = {}
    for t in targets:
        v = t[:-1] if t.endswith(".vo") else t
        pa = os.path.join(wd, "pa")
        os.makedirs(pa, exist_ok=True)
        out_vo = os.path.join(pa, os.path.basename(v) + "o")
        p = subprocess.run(["timeout", "600", "coqc", "-Q", "theories", "VF", "-Q", "gen/params", "VFP", "-o", out_vo, v],
                           cwd=COQ, stdout=subprocess.PIPE, stderr=subprocess.STDOUT, text=True)
        closed = len(re.findall(r"Closed under the global context", p.stdout))
        axioms = re.findall(r"Axioms:\n((?:.+\n)+?)(?=\S*Closed|\Z)", p.stdout)
        res[v] = {"rc": p.returncode, "closed_under_global_context": closed, "axioms": sorted(set(a.strip() for a in axioms))}
        shutil.rmtree(pa, ignore_errors=True)
    return res


def coqchk(targets, timeout=2400):
    """independent re-check (coqchk -o) of the compiled property files and everything they depend on; thorough tier only"""
    mods = []
    for t in targets:
        if "/Properties/" in t:
            mods.append("VF.Properties." + os.path.basename(t).split(".")[0])
    if not mods:
        return {}
    t0 = time.time()
    p = subprocess.run(["timeout", str(timeout), "coqchk", "-silent", "-o", "-Q", "theories", "VF", "-Q", "gen/params", "VFP"] + mods,
                       cwd=COQ, stdout=subprocess.PIPE, stderr=subprocess.STDOUT, text=True)
    out = p.stdout
    m = re.search(r"\* Axioms:(.*?)\n\s*\n\* ", out + "\n\n* ", re.S)
    return {"rc": p.returncode, "modules": mods, "wall_s": round(time.time() - t0, 1),
            "axioms": (m.group(1).strip() if m else "?"), "tail": out[-600:]}


def forbidden_scan():
    """grep gate: nothing admitted, no axioms declared, no checks switched off"""
    pat = re.compile(r'\b(Admitted|admit|Axiom|Axioms|Parameter|Parameters|Conjecture|Hypothesis|Hypotheses|Variable|Variables)\b|Unset\s+Guard|bypass_check|Admit\s+Obligations|-type-in-type|-impredicative-set')
    bad = []
    for root in (os.path.join(COQ, "theories"), GEN):
        for dp, _, fs in os.walk(root):
            for f in fs:
                if not f.endswith(".v"):
                    continue
                p = os.path.join(dp, f)
                txt = open(p, errors="replace").read()
                txt_nc = strip_comments(txt)
                depth = 0
                for ln, line in enumerate(txt_nc.split("\n"), 1):
                    if re.match(r'\s*Section\b', line):
                        depth += 1
                    if re.match(r'\s*End\b', line) and depth > 0:
                        depth -= 1
                    for m in pat.finditer(line):
                        w = m.group(0)
                        if w.split()[0] in ("Hypothesis", "Hypotheses", "Variable", "Variables") and depth > 0:
                            continue   # section-local: becomes a premise of the exported theorems
                        bad.append("%s:%d: %s" % (os.path.relpath(p, VERIF), ln, line.strip()))
    return bad


def strip_comments(s):
    out, i, d = [], 0, 0
    while i < len(s):
        if s.startswith("(*", i):
            d += 1; i += 2
        elif s.startswith("*)", i) and d > 0:
            d -= 1; i += 2
        else:
            if d == 0:
                out.append(s[i])
            elif s[i] == "\n":
                out.append("\n")
            i += 1
    return "".join(out)


def coqc_file(relpath, extra_q=(), timeout=900):
    """coqc one generated file; returns (rc, output)"""
    cmd = ["timeout", str(timeout), "coqc", "-Q", "theories", "VF"]
    for d, n in extra_q:
        cmd += ["-Q", d, n]
    cmd.append(relpath)
    p = subprocess.run(cmd, cwd=COQ, stdout=subprocess.PIPE, stderr=subprocess.STDOUT, text=True)
    return p.returncode, p.stdout


def eval_shards(pid, shards, header, footer, extra_q=(), timeout=900):
    """shards: list of lists of Gallina terms (strings), each a `case`.
    Writes gen/cases/<pid>/Cases_<i>.v = header + 'Definition cases := [...]' + footer,
    runs coqc on all in parallel, returns list of outputs (text) per shard."""
    d = os.path.join(GEN, "cases", pid)
    if os.path.isdir(d):
        shutil.rmtree(d)
    os.makedirs(d)
    files = []
    for i, sh in enumerate(shards):
        p = os.path.join(d, "Cases_%d.v" % i)
        with open(p, "w") as fh:
            fh.write(header)
            fh.write("Definition cases := [\n")
            fh.write(";\n".join(sh))
            fh.write("\n].\n")
            fh.write(footer)
        files.append(os.path.relpath(p, COQ))
    t0 = time.time()
    with ThreadPoolExecutor(max_workers=16) as ex:
        res = list(ex.map(lambda f: coqc_file(f, extra_q, timeout), files))
    log("[coq] evaluated %d shard(s) in %.1fs" % (len(files), time.time() - t0))
    outs = []
    for f, (rc, out) in zip(files, res):
        if rc != 0:
            raise RuntimeError("coqc failed on %s:\n%s" % (f, out[-3000:]))
        outs.append(out)
    return outs


def parse_nlist(text, name):
    """parse `name = [1; 2]%N` / `name = []` printed by Coq's Print; returns list of ints"""
    m = re.search(r'\b%s\s*=\s*(.*?)\n\s*:\s' % re.escape(name), text, re.S)
    if not m:
        raise RuntimeError("cannot find %s in coqc output:\n%s" % (name, text[-2000:]))
    return [int(x) for x in re.findall(r'\d+', m.group(1).replace("%N", "").replace("%Z", "").replace("%nat", ""))]


def print_assumptions(out_text):
    """collect 'Closed under the global context' / axiom lists from make output"""
    res = []
    for m in re.finditer(r'(Closed under the global context|Axioms:\n(?:.+\n)+?)(?=\S|\Z)', out_text):
        res.append(m.group(1).strip())
    return res


def shard(lst, n):
    n = max(1, min(n, len(lst)))
    return [lst[i::n] for i in range(n)]


# ----------------------------------------------------------------------------- known findings, verdicts, evidence

def load_known():
    p = os.path.join(VERIF, "known_findings.json")
    if not os.path.exists(p):
        return {"findings": [], "fixed": []}
    return json.load(open(p))


def write_replay(pid, body):
    os.makedirs(REPLAYS, exist_ok=True)
    h = hashlib.sha1(json.dumps(body, sort_keys=True, default=str).encode()).hexdigest()[:10]
    p = os.path.join(REPLAYS, "%s-%d-%s.json" % (pid, seed(), h))
    with open(p, "w") as fh:
        json.dump(body, fh, indent=1, default=str)
    return p


def write_evidence(pid, tier, level, coverage, assumptions, wall_s, violations):
    os.makedirs(EVID, exist_ok=True)
    ev = {
        "property_id": pid, "tier": tier, "seed": seed(), "level": level,
        "coverage": coverage, "assumptions": assumptions, "wall_s": round(wall_s, 2),
        "violations": violations,
    }
    with open(os.path.join(EVID, "%s.json" % pid), "w") as fh:
        json.dump(ev, fh, indent=1, default=str)
    return ev


def violation(pid, replay_path, no_input=False):
    print("VIOLATION property=%s replay=%s%s" % (pid, replay_path, " no-failing-input-found" if no_input else ""), flush=True)


def known_finding(pid, what):
    print("KNOWN-FINDING: property=%s %s" % (pid, what), flush=True)


# ----------------------------------------------------------------------------- Gallina printing helpers

def zlit(n):
    return "(%d)" % n if n < 0 else "%d" % n


def coq_list(items):
    return "[" + "; ".join(items) + "]"


def coq_opt(x, f=str):
    return "None" if x is None else "(Some %s)" % f(x)


def coq_bool(b):
    return "true" if b else "false"


def coq_bytes(b):
    """a Go string (bytes) as a Gallina list of byte codes (N)"""
    if isinstance(b, str):
        b = b.encode("utf-8", "surrogateescape")
    return "[" + ";".join(str(x) for x in b) + "]"
