#!/bin/bash
# debug aid: run a world profile against a scratch copy of /repo with one commit reverted
# usage: bin/revert_test.sh <commit> <PROFILE> <monitors> [N]
set -e
c=$1; d=/tmp/vf_rev_$c
rm -rf $d; git -C /repo worktree add -q --detach $d HEAD >/dev/null 2>&1
( cd $d && git revert --no-commit $c >/dev/null 2>&1 ) || { echo "revert failed"; git -C /repo worktree remove --force $d; exit 1; }
( cd $d && GOFLAGS=-mod=vendor go build ./... ) || echo "BUILD FAILED"
VERIF_NOLOCK=1 VERIF_REPO=$d W00_PROFILE=$2 W00_MONS=$3 W00_N=${4:-80} /verif/bin/check W00 quick 2>&1 | grep -v "^\[" | tail -2
python3 - <<PY
import json
e=json.load(open('/verif/evidence/W00.json'))
print("  cases", e['coverage']['correspondence']['cases'], "mismatches", e['coverage']['correspondence']['mismatches'], "monitor violations", e['coverage']['monitor']['violations'])
PY
git -C /repo worktree remove --force $d
