#!/bin/bash
# usage: bin/seedregress.sh [seed ids...] : every kept seeded change against the current machinery (quick tier):
# for each seed a scratch worktree of /repo HEAD + patch, then the checks recorded as catching it (meta.json caught_by,
# else the property's own check).  Prints one line per (seed, check).  Restores params/evidence by re-running on /repo at the end.
set -u
cd /verif
ids="${@:-$(ls seeded | sort)}"
export GOFLAGS=-mod=vendor GOPROXY=off GOSUMDB=off GOTOOLCHAIN=local
touched=""
for id in $ids; do
  prop=${id%%-*}
  checks=$(python3 - "$id" <<'PY'
import json,sys
m=json.load(open('/verif/seeded/%s/meta.json'%sys.argv[1]))
cb=m.get('caught_by') or m['what_i_ran'].get('checks_on_patched_tree') or {}
out=[c for c,v in cb.items() if 'VIOLATION' in str(v) and 'no-failing' not in str(v) or str(v)=='violation']
print(' '.join(out) if out else sys.argv[1].split('-')[0])
PY
)
  wt=/tmp/seedreg_$id; rm -rf $wt; git -C /repo worktree prune
  git -C /repo worktree add -q --detach $wt HEAD || { echo "$id worktree failed"; continue; }
  if ! git -C $wt apply /verif/seeded/$id/patch.diff 2>/dev/null; then echo "$id PATCH-DOES-NOT-APPLY"; git -C /repo worktree remove --force $wt; continue; fi
  for c in $checks; do
    out=$(VERIF_REPO=$wt bin/check $c quick 2>&1 | grep "VIOLATION" | head -1)
    case "$out" in
      *no-failing-input-found*) echo "$id $c TIE-ONLY";;
      *VIOLATION*) echo "$id $c caught";;
      *) echo "$id $c MISSED";;
    esac
    touched="$touched $c"
  done
  git -C /repo worktree remove --force $wt
done
for c in $(echo $touched | tr ' ' '\n' | sort -u); do bin/check $c quick >/dev/null 2>&1 || echo "on /repo afterwards: $c rc!=0"; done
