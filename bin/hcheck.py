#!/usr/bin/env python3
"""usage: bin/hcheck.py <harness dir> : compile-check a (scratch copy of the) harness directory against /repo for every test group"""
import sys, os, json, glob, subprocess
sys.path.insert(0, '/verif/bin')
import vflib as L
d = sys.argv[1]
bad = 0
for t in sorted(L.TEST_GROUPS):
    rep = {f: "" for f in glob.glob(os.path.join(L.REPO, "*_test.go"))}
    for g in L.TEST_GROUPS[t]:
        for f in L.HARNESS_GROUPS[g]:
            rep[os.path.join(L.REPO, f)] = os.path.join(d, f)
    ov = "/tmp/hcheck_overlay.json"
    json.dump({"Replace": rep}, open(ov, "w"))
    e = dict(os.environ); e.update(L.GOENV)
    p = subprocess.run(["go", "test", "-tags", "verif", "-vet=off", "-overlay", ov, "-count=1", "-run", "^TestVF_NoSuch$", "."],
                       cwd=L.REPO, env=e, stdout=subprocess.PIPE, stderr=subprocess.STDOUT, text=True)
    if p.returncode != 0:
        bad += 1
        print(t, "FAILED\n", p.stdout[-1500:])
print("groups with build errors:", bad)
sys.exit(1 if bad else 0)
