#!/bin/bash
# usage: bin/seedtest.sh <Cxx> [check ids...]  : confirm a seeded change (from /tmp/seed_<Cxx> or /verif/seeded/<Cxx>) and run checks on it
# Confirms in a scratch worktree: patch applies, builds, demo fails with it and passes without, suite passes with it.
set -u
id=$1; shift; prop=${id%%-*}; checks="${@:-$prop}"
src=/tmp/seed_$id; case "$id" in *-2) src=/tmp/seed2_$prop;; *-3) src=/tmp/seed3_$prop;; *-4) src=/tmp/seed4_$prop;; *-5) src=/tmp/seed5_$prop;; *-6) src=/tmp/seed6_$prop;; *-7) src=/tmp/seed7_$prop;; *-8) src=/tmp/seed8_$prop;; *-9) src=/tmp/seed9_$prop;; *-10) src=/tmp/seed10_$prop;; esac
dst=/verif/seeded/$id
mkdir -p $dst
if [ -f $src/patch.diff ]; then cp $src/patch.diff $src/zz_seed_demo_test.go $dst/ 2>/dev/null; cp $src/meta.json $dst/meta_agent.json 2>/dev/null; fi
wt=/tmp/seedchk_$id; rm -rf $wt; git -C /repo worktree prune; git -C /repo worktree add -q --detach $wt HEAD || exit 1
export GOFLAGS=-mod=vendor GOPROXY=off GOSUMDB=off GOTOOLCHAIN=local
res=$dst/confirm.txt; : > $res
cd $wt
cp $dst/zz_seed_demo_test.go . 
echo "demo on original:" >> $res; (go test -vet=off -count=1 -run '^TestSeedDemo$' . 2>&1 | tail -3) >> $res
orig=$(go test -vet=off -count=1 -run '^TestSeedDemo$' . >/dev/null 2>&1; echo $?)
git apply $dst/patch.diff || { echo "PATCH DOES NOT APPLY" | tee -a $res; }
go build ./... >> $res 2>&1; echo "build rc=$?" >> $res
echo "demo with patch:" >> $res; (go test -vet=off -count=1 -run '^TestSeedDemo$' . 2>&1 | tail -5) >> $res
mut=$(go test -vet=off -count=1 -run '^TestSeedDemo$' . >/dev/null 2>&1; echo $?)
rm zz_seed_demo_test.go
if [ "${SKIP_SUITE:-0}" = 0 ]; then suite=$(go test -vet=off -count=1 ./... >/dev/null 2>&1; echo $?); else suite=skipped; fi
echo "demo_on_original_rc=$orig demo_with_patch_rc=$mut suite_with_patch_rc=$suite" | tee -a $res
for c in $checks; do
  out=$(cd /verif && VERIF_NOLOCK=${VERIF_NOLOCK:-} VERIF_REPO=$wt bin/check $c quick 2>&1 | grep "VIOLATION\|KNOWN" | head -3)
  echo "check $c on patched tree: ${out:-no violation reported}" | tee -a $res
done
cd /; git -C /repo worktree remove --force $wt
# restore generated params / evidence to the real tree's values
for c in $checks; do (cd /verif && VERIF_NOLOCK=${VERIF_NOLOCK:-} bin/check $c quick >/dev/null 2>&1; echo "check $c on /repo rc=$?" >> $res); done
